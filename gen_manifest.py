#!/usr/bin/env python3
"""Generates MANIFEST.json from the table below (python3 gen_manifest.py). Keep in step with checks_config.py."""
import json, subprocess

GOENV = "GOFLAGS=-mod=mod GOPROXY=off GOSUMDB=off GOTOOLCHAIN=local"

ALL = ["C%02d" % i for i in range(1, 20)]

# property -> (category, technique, level text, level note, design ref)
CLAIMED = {
    "C16": ("exploration",
            "randomly generated concurrent programs (rapid) over the public API under the Go race detector, with a hang oracle (real clock, in-memory network)",
            "rapid-generated programs on a real server and 1..3 real clients: 2..16 goroutines x 5..40 operations over ServerSocket (22 kinds), ClientSocket (20, incl. bursts of connect/disconnect cycles and SetAuth), Namespace/Server/Adapter (16), Manager (10, incl. calls from OnceOpen/OnceClose handlers), session recovery with a cleaner every 2 ms, a third of them performed inside event handlers or ack callbacks of the addressed side, more from connection/disconnecting/disconnect/connect handlers, GOMAXPROCS in {1,2,4,16}, yields at the hook sites. The harness is built with -race; the oracle is the per-program delta of runtime.RaceErrors (report read from the GORACE log and attributed to the repository by the owner of each conflicting access), plus 'every phase returns' (program, an epilogue that uses every socket, manager and the namespace again, teardown), decided by two goroutine dumps 10 s apart that show the same goroutines parked in repository frames. Quick 240 programs, thorough 12 000; thorough also runs the other properties' rigs under the race detector and attributes any race in repository code to C16 (c16-rig-race). c16-send-during-upgrade (c07-upgrade run under this property): Sends from several goroutines, forced at yield points, while the library swaps transports; a call that never returns is a deadlock. c16-retry-queue-reentrancy (c15-retry-queue run under this property): ack functions that emit again while the retry queue gives a packet up. Sampling of schedules: a pass means no race / hang in the programs run, nothing more.",
            "The instrumented-mutex build (tag sio_deadlock) is not used as an oracle: a potential lock-order inversion is not a deadlock, and reporting it would raise false alarms; hangs are decided by the watchdog only.",
            "DESIGN.md §3 C16"),
    "C01": ("exploration",
            "property-based testing (rapid) on a virtual-time rig (real server + real Manager over an in-memory network), exactly-once/intact oracle over token-carrying events; link-fault injection; concurrent use of the manager",
            "Three checks. c01-delivery: transport {polling, websocket, upgrade with emits falling into it}, recovery off/on, MaxBufferSize {64 KiB, 256 KiB, default}, a compression middleware in front of long-polling in a quarter of the cases, 1..3 clients, 1..24 events of 27 schemas (18 Go argument shapes with Binary leaves, one of them a struct without any Binary-typed field, look-alike names, sizes around 32 KiB / 64 KiB) both ways from 1..4 goroutines per side; oracle: per (receiver, event) the multiset of tokens equals what was emitted, arguments tree-equal, no error, no close. c01-lossy-link: a two-way stream with every open TCP connection cut after d more bytes in one direction (reset or drained); oracle: events may be lost only together with a connection whose end is reported. c01-busy-manager: a binary stream while the client keeps using the same Manager (further namespaces, Open again, handlers, Connect/Disconnect of side namespaces); oracle: exactly once, intact, connection stays up. Held on everything generated; sampling, not exhaustive.",
            "Virtual time: interleavings are those the bubble's scheduler produces plus forced yields at hook sites; real TCP stacks are not in the loop. Open finding KF-C01-2 (net/http repeats a poll whose answer was lost before its first byte), tolerated while its probe still fails, and counted.",
            "DESIGN.md §3 C01"),
    "C02": ("exploration",
            "property-based testing (rapid): wire-level check with an independent streaming decoder on a raw Engine.IO endpoint + handler-entry order on the rig",
            "1..16 emitting goroutines x bursts of 1..50 events x 0..4 attachments, both directions, {polling, websocket, after an upgrade}, optional yield between queue append and sender signal; the receiving end is a raw Engine.IO endpoint whose message packets feed the reference streaming decoder. Oracle: frames of a packet contiguous, attachments in place, per-emitter sequence numbers in order, nothing lost; plus connection histories (two CONNECTs at once, a rejected one first), 8..200 ack-carrying events from the recording peer meanwhile (ACK packets share the wire), and client emitters that stream right through the flush of the offline buffer. c02-order-across-upgrade (the check c07-paused-poll run under this property): per-sender order while the backlog of the polling transport moves to the WebSocket, with a sender released at the yield point before the swap. Handler-entry order is checked on the sio<->sio rig; it is the open finding KF-C02-1 (a goroutine per packet), whose probe is re-evaluated on every run.",
            "Order is decided at Engine.IO message level (what the transport hands up), not on raw TCP bytes.",
            "DESIGN.md §3 C02"),
    "C03": ("exploration",
            "property-based testing (rapid) on the rig + a hand-written raw protocol peer that sends duplicate / late / unknown acks",
            "rapid over ack'd emits in both directions with reply delays around the timeout, callbacks taking replies by value or by pointer, plain and volatile offline emits, cuts before the reply; events with acks emitted from the server's connection handler while the client still processes the CONNECT reply (c03-at-connect); and a raw peer (Engine.IO by the repo's transport, Socket.IO "
            "by hand) that answers with duplicate, late, unknown-id and wrong-namespace ACK packets; c03-ack-chains: ack callbacks that emit follow-up requests with acks (depth 1..3) and ack functions kept across a reconnection and called while new requests are outstanding (every reply is the token of its request). Oracle: every callback runs at most once; with a timeout exactly once (reply or ErrAckTimeout, never both, "
            "within timeout + slack of virtual time); the reply values are the ones the handler passed (tree-equal); a case that never returns is a violation (stall -> real-clock confirmation).",
            "Timing bounds are in virtual time. Any one of several duplicate ACKs is admissible as 'the' reply.",
            "DESIGN.md §3 C03"),
    "C04": ("exploration",
            "small-scope exhaustive enumeration + model-based stateful property testing (rapid) of both adapters against the selection rule",
            "EXHAUSTIVE: every membership matrix of 3 sockets x 3 rooms (512) x every target subset x every except subset on the in-memory and the session-aware adapter, a second sweep with own-id rooms in T and E; rapid histories over <= 6 sockets, <= 5 rooms: connect/join/leave/disconnect, SocketsJoin/Leave/DisconnectSockets, adapter and through-socket broadcasts (sender exclusion), operator algebra with a reused base operator, FetchSockets; c04-concurrent places membership changes, or a second multi-room broadcast, inside an operation at the adapter's lock-release yield point; after every step Sockets(R) and SocketRooms(s) equal the model. Oracle: recipients as a multiset == union(T) minus union(E) minus sender. Open finding KF-C04-1.",
            "Adapter level with recording socket stores; membership changes concurrent with a broadcast and the path through the wire are not decided by this check (see DESIGN.md).",
            "DESIGN.md §3 C04"),
    "C05": ("exploration",
            "property-based testing (rapid) on the rig + raw protocol peer addressing namespaces it did not join",
            "rapid over 2..4 namespaces on one connection with per-namespace emits, acks, rooms of the same name, middleware rejections and disconnects of a single namespace; raw peer sending events, acks "
            "and disconnects for namespaces it has not joined / was refused. Oracle: every event, ack and room broadcast is seen only in the namespace it was sent in; a namespace disconnect or rejection "
            "leaves the others connected and working; traffic for a non-joined namespace never reaches a handler; a namespace that was left can be joined again on the same connection; a broadcast issued while a slow middleware still decides does not reach the unadmitted connection; two simultaneous CONNECT packets admit one socket; volatile emits on an unattached socket put nothing on the shared connection; the other spelling of a namespace name addresses the same socket; leaving and re-joining at once works.",
            "Virtual-time rig; namespaces are static (no dynamic namespace regexp).",
            "DESIGN.md §3 C05"),
    "C06": ("fault_enumeration",
            "fault enumeration (stream cut at every n-th byte offset of every connection, either direction) + rapid lifecycle histories, invariant over end-of-connection reports and server state",
            "A scripted session (1-2 namespaces, binary echo events, optional upgrade) is run uncut to learn the byte length of every connection in each direction, then re-run with the stream cut at every stride-th byte offset of every connection in either direction (stride 1 in thorough for the first KiB). rapid adds cause {client Disconnect, Manager.Close, server Disconnect, DisconnectSockets, Server.Close, cut, black-hole} x phase {connecting, in middleware, idle, in a burst, during the upgrade} x transport x 1-2 namespaces x optional second cause. Verdict 25 virtual seconds later: each server socket is alive and answers, or ended with exactly one disconnect report with an admissible reason and is in no list / room / adapter state; the old Engine.IO sid answers 'unknown'; clients report once. c06-engine-close-race (c17-close run under this property): sessions admitted while Engine.IO Server.Close is busy. Fourteen defects found this way are repaired.",
            "Faults are those memnet injects (cut, black-hole, refuse) on the scripted session; complete for the enumerated offsets of that session only.",
            "DESIGN.md §3 C06"),
    "C07": ("exploration",
            "property-based testing (rapid) at Engine.IO level in virtual time with forced yields inside the upgrade and injected link faults",
            "0..30 numbered text/binary messages both ways at instants spread over the upgrade (microsecond resolution), WebSocket latency 0..20 ms, bursts fired from the yield hooks right before the transport swap on either side and from UpgradeDone; disturbed upgrades: WebSocket link cut at a drawn byte offset 0..400 or black-holed; then traffic after 15 s and 3 heartbeat periods. Oracle: multiset received == sent on both sides, no close, a completed upgrade ends on websocket on both sides, a disturbed one leaves both sides agreeing on the transport with traffic flowing. c07-paused-poll: a hand-written client that pauses polling during the upgrade (as the reference client does) while 1..3 server goroutines keep sending; the backlog of the polling transport, the heartbeat PING included, must come out of the WebSocket exactly once and per sender in order, and the session must stay open. Forced schedules at three yield points: server Send held at the polling transport's entry, client Send held under its read lock, the server's swap 2.5 s late; the UpgradeDone callback itself uses the socket.",
            "Disturbed upgrades carry no traffic inside the window (virtual-time artifact otherwise); a cut after the completed upgrade is outside the property. Socket.IO-level upgrade traffic is covered by C01's upgrade class.",
            "DESIGN.md §3 C07"),
    "C08": ("exploration",
            "model-based property testing (rapid) of the session-aware adapter against a reference log; end-to-end recovery against a hand-written client that implements the recovery protocol",
            "Adapter level: rapid histories in virtual time (window 2 s / 10 s, cleaner off / W/4 / W / 3W): joins, leaves, namespace / room(+except) / direct broadcasts (text, binary), disconnects, time advancing across the window, RestoreSession with own/unknown pid and last/older/unknown/empty offset; oracle: recovered => same sid, rooms, missed packets == reference log after the offset filtered by the session's rooms, re-encode to what was emitted; expired/unknown => not recovered. End to end: the real server (window 10 s / 2 min, cleaner 1 s / 2.5 s / 1 min, UseMiddlewares on/off) against a raw peer that tracks offsets and reconnects with {pid, offset}: loss by cut / black hole / forced close / DISCONNECT, broadcasts before the server can notice, staying away around the window, a second recovery; oracle: recovered iff eligible, replay == log, rooms restored, else fresh session with nothing replayed. Open finding KF-C08-1.",
            "c08-go-client runs the library's own client through outages against the recovery-enabled server (four handler signatures), optionally losing the recovered session again before anything newer arrived: recovered iff eligible, exactly before + missed + after, each once.",
            "DESIGN.md §3 C08"),
    "C12": ("exploration",
            "property-based testing (rapid) of middleware chains on the virtual-time rig against a reference fold",
            "Chains of 0..5 namespace middlewares (accept / reject with error, string, struct or a value that is the zero value of its type, optionally slow) on / and a custom namespace with 1..4 clients connecting concurrently and a broadcast issued while sockets are in the chain; chains of 0..3 per-socket event middlewares over five event signatures with 1..3 handlers per event, with and without the client asking for an ack the handler does not take, with connection state recovery (a recovered session passes the chain only if UseMiddlewares is set), and bursts of 4..24 events through middlewares that decide by the arguments. Oracle: invocation indices 0..j in order, inside a middleware the socket is unlisted, in no room and not connected; all accept => one connect, listed, reachable; reject => connect_error carrying exactly that rejection, no handler, nothing listed; event middlewares see the emitted name and arguments before the handler; rejected => handler never runs.",
            "Virtual-time rig; five event signatures.",
            "DESIGN.md §3 C12"),
    "C14": ("exploration",
            "property-based testing (rapid) at Engine.IO level in virtual time with silently black-holed and delayed links",
            "pingInterval/pingTimeout in {1,2,3} s x {polling, websocket, during the upgrade}. Dead peers: the link is black-holed at a drawn instant (1 ms resolution, biased to ping instants) in one or both directions; oracle: each side closes exactly once with a ping-timeout reason no later than (last delivered byte from the peer) + interval + timeout + 500 ms (+5 s close wait on WebSocket). Live peers: 30..200 idle periods with latency up to pingTimeout/2 and out-of-phase traffic; oracle: no close at all, pings keep coming, messages still flow; during an upgrade the goroutine that swaps the transports (either side) is optionally held at its yield point across the instant of the first ping (forced schedule, bounded so that the pong is still in time).",
            "The bound is checked on the bubble's virtual clock: scheduler and GC pauses of a real deployment are not modelled.",
            "DESIGN.md §3 C14"),
    "C11": ("exploration",
            "property-based round-trip/differential testing (rapid) + exhaustive length enumeration + native fuzzing",
            "Generated-input search against an independent reference codec: rapid round-trip/conformance/EncodedLen checks for single packets and "
            "payloads, EXHAUSTIVE enumeration of every WebTransport frame length 0..70000 x {text,binary} with a following frame (stream position), "
            "mutated and raw bytes into all five decoders compared with a reference reader, and an allocation oracle (TotalAlloc growth) for "
            "hostile length headers behind the server's limited reader. Thorough adds 16 shards and native coverage-guided fuzzing. "
            "Held-on-everything-explored, complete only for the enumerated frame lengths.",
            "Trusts the harness's reference codec (written from the Engine.IO v4 document) and Go's runtime.MemStats; WebTransport framing is "
            "exercised at function level through the verif export shims (the server composes exactly these functions).",
            "DESIGN.md §3 C11"),
    "C09": ("exploration",
            "property-based round-trip + differential conformance testing (rapid) + native fuzzing",
            "rapid-generated packets (all types, namespaces, ack ids over full uint64, arbitrary UTF-8 event names, 0..5 arguments from a library of 16 Go shapes with Binary leaves "
            "at depth 0..4) checked three ways: round trip through a fresh Parser.Add and type-directed decode (twice), conformance against an independent v5 reference (header bytes, JSON "
            "value, placeholder k <-> frame k+1 <-> Binary at that path), and input-intact (caller's values unchanged, re-encode gives the same packet). A stream variant feeds several "
            "packets through ONE parser and decodes them later in any order. Thorough: 1.6M+ cases over 16 shards and coverage-guided fuzzing through rapid.MakeFuzz.",
            "Trusts the harness's reference codec and tree comparison; plain-JSON serialisation is compared as a value against encoding/json's reading; only the stdjson serializer "
            "(the default) is exercised. User maps that are exactly placeholder-shaped are excluded (protocol ambiguity).",
            "DESIGN.md §3 C09"),
    "C10": ("exploration",
            "small-scope exhaustive enumeration + grammar-aware mutation (rapid) + native fuzzing at parser level; generated hostile frame sequences against the running server and client at process level",
            "Parser level: EXHAUSTIVE enumeration of every string <= 4 (quick) / <= 6 (thorough) over the 12 protocol-significant bytes as first frame with 0..2 attachment frames; rapid grammar-aware mutations of valid packets (counts, placeholder nums, flags, frame drop/dup/reorder, namespace without comma, id overflow); native fuzzing; every completed packet decoded twice against 10 handler-signature families; oracle: no panic, value-or-error, bounded allocation, repeatable. Process level (virtual-time network, polling and websocket): a hand-written hostile client against the real server and a hand-written hostile server against the real client send 1..12-frame sequences (raw hostile constants, family events with hostile JSON, binary events with hostile counts and missing / text attachments, mutated packets); a fresh parser predicts the decoder's verdict; oracle: header-level rejection => connection closed / close handlers run; undecodable event => error handler or close; the offending connection, other connections and later connections keep working; every API call afterwards returns; no crash.",
            "The process-level prediction uses the repository's own parser (its correctness is the parser-level check's subject); self-deadlocks are decided by the watchdog plus a real-clock re-run.",
            "DESIGN.md §3 C10"),
    "C13": ("exploration",
            "small-scope exhaustive enumeration + rapid for the client batcher (validity predicate); rapid with hand-written HTTP/WebSocket peers for the server's limits per transport",
            "Batcher: EXHAUSTIVE over every vector of <= 5 (quick) / <= 6 (thorough) packet sizes x every maxPayload, text and text/binary mixes, plus rapid vectors around 1e6; predicate: batches concatenate to the input, none empty, every multi-packet batch within maxPayload. Limits: MaxBufferSize in {100, 1000, 40000, default, disabled} x {POST with Content-Length, POST with chunked body, the same two the JSON-P way, WebSocket text/binary message directly and after an upgrade} from hand-written peers and server -> client over {polling, websocket} to the real client, sizes limit +- 12, x0.5, x2, x10, 32 KiB +- 12, 64 KiB +- 12; oracle: handshake announces the configured limit; within it => delivered in full, nothing closes; more than one byte beyond => never delivered and the connection closed; disabled => everything accepted. c13-webtransport: the real client against the real server over real WebTransport (QUIC on UDP loopback, test certificates), directly and after an upgrade, both directions, MaxBufferSize {100, 40000, default, disabled}, sizes around the limit and 64 KiB; same oracle on events only.",
            "The WebTransport leg runs on the real clock (waiting out 10 s counts as inconclusive, never as a verdict); its framing is also covered at function level by C11. One byte of slack at the boundary (whether the packet-type byte counts is not fixed by the text).",
            "DESIGN.md §3 C13"),
    "C15": ("exploration",
            "property-based testing (rapid): back-off function against its bounds + reconnect state machine with generated outages on the virtual-time rig",
            "(a) rapid over (delay, max, jitter, attempt) including overflow attempts, each evaluated 8 times: 0 < d <= max, first delay within the jitter band, no panic. (b) the real Manager against the real "
            "server over memnet in a synctest bubble: the server is taken away (links cut, dials refused) and given back after a drawn time (or never, or twice), with ReconnectionAttempts 0..5, three delays, "
            "four max factors, three jitters, and 0..10 emits (plain / volatile / ack-with-timeout / Volatile and Timeout chained in either order) before, during and after the outage and while the CONNECT is pending; oracle on the manager's reconnect_* "
            "events with virtual timestamps (attempt numbers, every gap in (0, max], first gap in the jitter band, exactly N attempts then reconnect_failed once, then silence; reconnect when reachable) and "
            "on delivery (offline plain emits exactly once and in order after the reconnect, volatile never, timed-out ack emits purged with ErrAckTimeout once); optionally one lifecycle dispatch held back (forced schedule). (c) c15-stream-order: producers that emit right through a reconnection against an endpoint that records arrival order (nothing overtakes the offline backlog). (d) c15-close-stops: Manager.Close() at a drawn microsecond of an outage stops the reconnection for good; Connect()/Open() later brings the socket up, delivers what was emitted meanwhile once, and reconnection works again. (e) c15-retry-queue: a socket with Retries 1..3 (emits go through clientPacketQueue) against a server that acknowledges at once, emits before Connect, while a CONNECT is pending, online and offline: every queued event exactly once and in order, its ack function once, volatile offline never. (f) c15-restart-while-down, on the REAL clock: Close inside a running reconnection round, Connect/Open again at once with the server still down, ReconnectionAttempts 1..3: attempts numbered exactly 1..N, reconnect_failed once (counts only).",
            "Jitter comes from the library's use of math/rand's global source, so replays of cases with jitter > 0 are not bit-reproducible. Order of the offline flush is read from long-polling bodies only.",
            "DESIGN.md §3 C15"),
    "C17": ("exploration",
            "exhaustive request matrix + rapid schedules with a forced yield point (virtual time) + rapid operation sequences under an injected entropy fault against a model of the live ids",
            "EXHAUSTIVE 4676-request matrix (method x EIO x transport x sid state x b64 x jsonp x HTTP/1.1 | HTTP/2, POSTs also with a form-encoded body naming valid parameters) through ServeHTTP against a fixture with live polling/WebSocket/closed sessions: protocol error code "
            "belongs to the invalid aspects, no session created/closed, live sessions still work; 10^5..10^6 generated ids + real handshakes pairwise distinct; rounds of 64 simultaneous handshakes; handshakes racing Server.Close in a "
            "synctest bubble with a yield hook before store.set (every created session gets exactly one close callback, nothing admitted after Close returned); c17-id-entropy-fault: handshake/close/rewind sequences with crypto/rand.Reader replaced by a generated repeating pattern and the id sequence moved onto a live session's number (hook), oracle = model of live ids (200 with a fresh id and one session, or 5xx and nothing created).",
            "The WebSocket live session runs over the in-memory network; requests are delivered through ServeHTTP on a recorder (no HTTP parsing by net/http for the matrix).",
            "DESIGN.md §3 C17"),
    "C18": ("exploration",
            "model-based stateful property testing (rapid) against a reference registry + concurrent bursts",
            "rapid state machine over seven registries through the public API with real occurrences in a virtual-time rig (server/client socket events, Namespace events incl. names reserved for sockets only, Namespace/Server connection handlers, client "
            "connect/disconnect, Manager close), 8 distinct functions per signature, set of admissible models for duplicate registrations; occurrences singly and in simultaneous bursts; a "
            "dedicated Once-vs-burst load test (each Once handler exactly once per burst, registrations made while a burst is dispatched); and c18-off-concurrent: an Off call naming handlers at the same time as On / Once / Off / an occurrence on the same registry (commuting pairs, so the sequential model is the oracle), the registry pre-filled with 300..20000 registrations so that the calls overlap; c18-off-inside-handler: Off without a handler / OffAll / Off-then-On called from inside a handler while the occurrence is being delivered. Half of the handlers are method values evaluated afresh at every use.",
            "Handlers are distinct top-level functions (Go identifies funcs by code pointer; closures of one literal are outside the sampled domain). Lifecycle cases whose connection attempt fails "
            "spontaneously are aborted and counted (the registry oracle needs a known number of occurrences).",
            "DESIGN.md §3 C18"),
    "C19": ("exploration",
            "forced-schedule property testing in virtual time (yield hook) + exhaustive placement enumeration at queue level; generated poll-request histories at HTTP level; end-to-end latency oracle on the zero-latency virtual-time rig",
            "Queue level: the real pollQueue/packetQueue in a synctest bubble; a yield hook parks the consumer between its emptiness check and its wait while 'window' producers run; EXHAUSTIVE over placements (<= 3 producers x {before, window, after} x 1-2 consumers x finale incl. close/reset/shutdown) and rapid over sizes/timings; oracle: every packet handed over reaches a consumer within the stated virtual bound, exactly once, FIFO; no empty poll while queued; consumers terminate. End to end: real server and client (polling, websocket, upgrade; link latency 0/1/20 ms), 1..12 emit instants with gaps 0..31 s around the 25 s heartbeat, bursts from concurrent goroutines; oracle: handler entry within 6 link traversals + 20 ms of virtual time after Emit. During the upgrade the server emits from the yield point before the transport swap while the first Send that reaches the polling transport is held at its entry (forced schedule). HTTP level (c19-poll-requests): one long-polling session driven through ServeHTTP, 1..4 poll requests on a 100 us grid, a third abandoned by their client (request context cancelled), sends on the same grid, issued before or after the arrivals / abandonments of the same instant; oracle: while a packet is queued no poll request waits on the server for more than 50 us, every packet answered exactly once. c19-backlog-across-upgrade (c07-paused-poll run under this property): the backlog of the polling transport, the heartbeat PING included, is transmitted after the swap.",
            "Schedules are forced only at the hook sites; elsewhere they are those the bubble's scheduler produces.",
            "DESIGN.md §3 C19"),
}

NOT_YET = "check not built yet in this session; planned in DESIGN.md §3 (property-based testing applies)"


def main():
    hooks = subprocess.run(["git", "-C", "/repo", "log", "--format=%h %s", "--grep", "^verif hook"], capture_output=True, text=True).stdout.strip().splitlines()
    checks = []
    for pid in ALL:
        if pid not in CLAIMED:
            continue
        cat, tech, text, note, ref = CLAIMED[pid]
        checks.append({
            "property_id": pid,
            "quick_cmd": "./check %s --tier quick" % pid,
            "thorough_cmd": "./check %s --tier thorough" % pid,
            "evidence_file": "/verif/evidence/%s.json" % pid,
            "replay_cmd_template": "./check %s --replay {path}" % pid,
            "engine": "harness",
            "level_claimed": {"category": cat, "text": text, "design_ref": ref},
            "level_note": note,
            "technique": tech,
        })
    m = {
        "version": 1,
        "setup_cmd": "cd /verif/harness && %s go1.26.8 test -c -vet=off -tags verif -o /verif/.build/harness.test ." % GOENV,
        "hooks": {
            "guard": "verif",
            "enable": "go build tag: the harness is compiled with `go1.26.8 test -tags verif` against /repo's working tree through a replace directive",
            "baseline_off_cmd": "cd /repo && go test -mod=mod -json -vet=off -count=1 -timeout 25m ./...",
            "source_commits": [h.split()[0] for h in hooks],
            "add_only": True,
        },
        "engines": [{
            "name": "harness", "path": "/verif/harness",
            "serves_properties": [c["property_id"] for c in checks],
            "kind_free_text": "Go test package (rapid v1.3.0 property-based tests, small-scope exhaustive enumerations, native go fuzz targets, "
                              "testing/synctest virtual-time rigs over an in-memory network) driven by /verif/check (python3), which shards, merges "
                              "evidence, matches failures against known_findings.txt and writes replay files",
        }],
        "checks": checks,
        "not_applicable": [{"property_id": p, "reason": NOT_YET} for p in ALL if p not in CLAIMED],
        "notes": "All checks rebuild the harness (and with it /repo's working tree, hooks on) incrementally on every invocation. "
                 "VERIF_SEED selects the rapid seeds; native fuzzing (thorough only) cannot be pinned. Exit 2 = inconclusive (never a violation).",
    }
    json.dump(m, open("/verif/MANIFEST.json", "w"), indent=1)
    print("claimed:", [c["property_id"] for c in checks])


if __name__ == "__main__":
    main()
