#!/usr/bin/env python3
"""Generates MANIFEST.json from the table below (python3 gen_manifest.py). Keep in step with checks_config.py."""
import json, subprocess

GOENV = "GOFLAGS=-mod=mod GOPROXY=off GOSUMDB=off GOTOOLCHAIN=local"

ALL = ["C%02d" % i for i in range(1, 20)]

# property -> (category, technique, level text, level note, design ref)
CLAIMED = {
    "C11": ("exploration",
            "property-based round-trip/differential testing (rapid) + exhaustive length enumeration + native fuzzing",
            "Generated-input search against an independent reference codec: rapid round-trip/conformance/EncodedLen checks for single packets and "
            "payloads, EXHAUSTIVE enumeration of every WebTransport frame length 0..70000 x {text,binary} with a following frame (stream position), "
            "mutated and raw bytes into all five decoders compared with a reference reader, and an allocation oracle (TotalAlloc growth) for "
            "hostile length headers behind the server's limited reader. Thorough adds 16 shards and native coverage-guided fuzzing. "
            "Held-on-everything-explored, complete only for the enumerated frame lengths.",
            "Trusts the harness's reference codec (written from the Engine.IO v4 document) and Go's runtime.MemStats; WebTransport framing is "
            "exercised at function level through the verif export shims (the server composes exactly these functions).",
            "DESIGN.md §3 C11"),
    "C09": ("exploration",
            "property-based round-trip + differential conformance testing (rapid) + native fuzzing",
            "rapid-generated packets (all types, namespaces, ack ids over full uint64, arbitrary UTF-8 event names, 0..5 arguments from a library of 16 Go shapes with Binary leaves "
            "at depth 0..4) checked three ways: round trip through a fresh Parser.Add and type-directed decode (twice), conformance against an independent v5 reference (header bytes, JSON "
            "value, placeholder k <-> frame k+1 <-> Binary at that path), and input-intact (caller's values unchanged, re-encode gives the same packet). A stream variant feeds several "
            "packets through ONE parser and decodes them later in any order. Thorough: 1.6M+ cases over 16 shards and coverage-guided fuzzing through rapid.MakeFuzz.",
            "Trusts the harness's reference codec and tree comparison; plain-JSON serialisation is compared as a value against encoding/json's reading; only the stdjson serializer "
            "(the default) is exercised. User maps that are exactly placeholder-shaped are excluded (protocol ambiguity).",
            "DESIGN.md §3 C09"),
    "C10": ("exploration",
            "small-scope exhaustive enumeration + grammar-aware mutation (rapid) + native fuzzing, no-panic/value-or-error oracle",
            "Parser level: EXHAUSTIVE enumeration of every string <= 4 (quick) / <= 6 (thorough) over the 12 protocol-significant bytes as first frame with 0..2 attachment frames; rapid "
            "grammar-aware mutations of valid packets (counts, placeholder nums, flags, frame drop/dup/reorder, namespace without comma, id overflow, odd event names); native fuzzing. "
            "Every completed packet is decoded twice against 10 handler-signature families. Oracle: no panic, Add returns an error or eventually finishes (attachment count must be a "
            "representable positive integer, completion exactly at the declared count), decode returns values or an error, repeatably.",
            "Parser-level only so far (process-level isolation of a hostile connection is being built); trusts the harness's reading of the header grammar.",
            "DESIGN.md §3 C10"),
    "C13": ("exploration",
            "small-scope exhaustive enumeration + rapid, validity predicate over the batching",
            "Client batcher through the verif export shim: EXHAUSTIVE over every vector of <= 5 (quick) / <= 6 (thorough) packet sizes x every maxPayload, text and text/binary mixes, plus rapid "
            "vectors with realistic sizes around 1e6; validity predicate (batches concatenate to the input, none empty, every multi-packet batch within maxPayload).",
            "Batcher part only so far (server-side limits per transport are being built on the rig).",
            "DESIGN.md §3 C13"),
    "C15": ("exploration",
            "property-based testing (rapid) of the back-off function against its stated bounds",
            "rapid over (delay, max, jitter, attempt) including overflow attempts, each evaluated 8 times: 0 < d <= max, first delay within the jitter band around ReconnectionDelay, no panic.",
            "Function level only so far (the reconnect state machine with outages is being built on the rig).",
            "DESIGN.md §3 C15"),
    "C17": ("exploration",
            "exhaustive request matrix + rapid schedules with a forced yield point (virtual time)",
            "EXHAUSTIVE 2400-request matrix (method x EIO x transport x sid state x b64 x jsonp) through ServeHTTP against a fixture with live polling/WebSocket/closed sessions: protocol error code "
            "belongs to the invalid aspects, no session created/closed, live sessions still work; 10^5..10^6 generated ids + real handshakes pairwise distinct; handshakes racing Server.Close in a "
            "synctest bubble with a yield hook before store.set (every created session gets exactly one close callback, nothing admitted after Close returned).",
            "The WebSocket live session runs over the in-memory network; requests are delivered through ServeHTTP on a recorder (no HTTP parsing by net/http for the matrix).",
            "DESIGN.md §3 C17"),
    "C18": ("exploration",
            "model-based stateful property testing (rapid) against a reference registry + concurrent bursts",
            "rapid state machine over six registries through the public API with real occurrences in a virtual-time rig (server/client socket events, Namespace/Server connection handlers, client "
            "connect/disconnect, Manager close), 8 distinct functions per signature, set of admissible models for duplicate registrations; occurrences singly and in simultaneous bursts; plus a "
            "dedicated Once-vs-burst load test (each Once handler exactly once per burst).",
            "Handlers are distinct top-level functions (Go identifies funcs by code pointer; closures of one literal are outside the sampled domain). Lifecycle cases whose connection attempt fails "
            "spontaneously are aborted and counted (the registry oracle needs a known number of occurrences).",
            "DESIGN.md §3 C18"),
    "C19": ("exploration",
            "forced-schedule property testing in virtual time (yield hook) + exhaustive placement enumeration",
            "The real pollQueue/packetQueue in a synctest bubble; a yield hook parks the consumer between its emptiness check and its wait while 'window' producers run. EXHAUSTIVE over "
            "placements (<= 3 producers x {before, window, after} x 1-2 consumers x finale) and rapid over sizes/hits; oracle: every packet handed over reaches a consumer within 1 s of virtual "
            "time, exactly once, FIFO; no empty poll while queued; consumers terminate.",
            "Queue level only so far (end-to-end polling latency on the rig is being built). Schedules are forced only at the hook sites.",
            "DESIGN.md §3 C19"),
}

NOT_YET = "check not built yet in this session; planned in DESIGN.md §3 (property-based testing applies)"


def main():
    hooks = subprocess.run(["git", "-C", "/repo", "log", "--format=%h %s", "--grep", "^verif hook"], capture_output=True, text=True).stdout.strip().splitlines()
    checks = []
    for pid in ALL:
        if pid not in CLAIMED:
            continue
        cat, tech, text, note, ref = CLAIMED[pid]
        checks.append({
            "property_id": pid,
            "quick_cmd": "./check %s --tier quick" % pid,
            "thorough_cmd": "./check %s --tier thorough" % pid,
            "evidence_file": "/verif/evidence/%s.json" % pid,
            "replay_cmd_template": "./check %s --replay {path}" % pid,
            "engine": "harness",
            "level_claimed": {"category": cat, "text": text, "design_ref": ref},
            "level_note": note,
            "technique": tech,
        })
    m = {
        "version": 1,
        "setup_cmd": "cd /verif/harness && %s go1.26.8 test -c -vet=off -tags verif -o /verif/.build/harness.test ." % GOENV,
        "hooks": {
            "guard": "verif",
            "enable": "go build tag: the harness is compiled with `go1.26.8 test -tags verif` against /repo's working tree through a replace directive",
            "baseline_off_cmd": "cd /repo && go test -mod=mod -json -vet=off -count=1 -timeout 25m ./...",
            "source_commits": [h.split()[0] for h in hooks],
            "add_only": True,
        },
        "engines": [{
            "name": "harness", "path": "/verif/harness",
            "serves_properties": [c["property_id"] for c in checks],
            "kind_free_text": "Go test package (rapid v1.3.0 property-based tests, small-scope exhaustive enumerations, native go fuzz targets, "
                              "testing/synctest virtual-time rigs over an in-memory network) driven by /verif/check (python3), which shards, merges "
                              "evidence, matches failures against known_findings.txt and writes replay files",
        }],
        "checks": checks,
        "not_applicable": [{"property_id": p, "reason": NOT_YET} for p in ALL if p not in CLAIMED],
        "notes": "All checks rebuild the harness (and with it /repo's working tree, hooks on) incrementally on every invocation. "
                 "VERIF_SEED selects the rapid seeds; native fuzzing (thorough only) cannot be pinned. Exit 2 = inconclusive (never a violation).",
    }
    json.dump(m, open("/verif/MANIFEST.json", "w"), indent=1)
    print("claimed:", [c["property_id"] for c in checks])


if __name__ == "__main__":
    main()
