#!/usr/bin/env python3
"""Generates MANIFEST.json from the table below (python3 gen_manifest.py). Keep in step with checks_config.py."""
import json, subprocess

GOENV = "GOFLAGS=-mod=mod GOPROXY=off GOSUMDB=off GOTOOLCHAIN=local"

ALL = ["C%02d" % i for i in range(1, 20)]

# property -> (category, technique, level text, level note, design ref)
CLAIMED = {
    "C11": ("exploration",
            "property-based round-trip/differential testing (rapid) + exhaustive length enumeration + native fuzzing",
            "Generated-input search against an independent reference codec: rapid round-trip/conformance/EncodedLen checks for single packets and "
            "payloads, EXHAUSTIVE enumeration of every WebTransport frame length 0..70000 x {text,binary} with a following frame (stream position), "
            "mutated and raw bytes into all five decoders compared with a reference reader, and an allocation oracle (TotalAlloc growth) for "
            "hostile length headers behind the server's limited reader. Thorough adds 16 shards and native coverage-guided fuzzing. "
            "Held-on-everything-explored, complete only for the enumerated frame lengths.",
            "Trusts the harness's reference codec (written from the Engine.IO v4 document) and Go's runtime.MemStats; WebTransport framing is "
            "exercised at function level through the verif export shims (the server composes exactly these functions).",
            "DESIGN.md §3 C11"),
}

NOT_YET = "check not built yet in this session; planned in DESIGN.md §3 (property-based testing applies)"


def main():
    hooks = subprocess.run(["git", "-C", "/repo", "log", "--format=%h %s", "--grep", "^verif hook"], capture_output=True, text=True).stdout.strip().splitlines()
    checks = []
    for pid in ALL:
        if pid not in CLAIMED:
            continue
        cat, tech, text, note, ref = CLAIMED[pid]
        checks.append({
            "property_id": pid,
            "quick_cmd": "./check %s --tier quick" % pid,
            "thorough_cmd": "./check %s --tier thorough" % pid,
            "evidence_file": "/verif/evidence/%s.json" % pid,
            "replay_cmd_template": "./check %s --replay {path}" % pid,
            "engine": "harness",
            "level_claimed": {"category": cat, "text": text, "design_ref": ref},
            "level_note": note,
            "technique": tech,
        })
    m = {
        "version": 1,
        "setup_cmd": "cd /verif/harness && %s go1.26.8 test -c -vet=off -tags verif -o /verif/.build/harness.test ." % GOENV,
        "hooks": {
            "guard": "verif",
            "enable": "go build tag: the harness is compiled with `go1.26.8 test -tags verif` against /repo's working tree through a replace directive",
            "baseline_off_cmd": "cd /repo && go test -mod=mod -json -vet=off -count=1 -timeout 25m ./...",
            "source_commits": [h.split()[0] for h in hooks],
            "add_only": True,
        },
        "engines": [{
            "name": "harness", "path": "/verif/harness",
            "serves_properties": [c["property_id"] for c in checks],
            "kind_free_text": "Go test package (rapid v1.3.0 property-based tests, small-scope exhaustive enumerations, native go fuzz targets, "
                              "testing/synctest virtual-time rigs over an in-memory network) driven by /verif/check (python3), which shards, merges "
                              "evidence, matches failures against known_findings.txt and writes replay files",
        }],
        "checks": checks,
        "not_applicable": [{"property_id": p, "reason": NOT_YET} for p in ALL if p not in CLAIMED],
        "notes": "All checks rebuild the harness (and with it /repo's working tree, hooks on) incrementally on every invocation. "
                 "VERIF_SEED selects the rapid seeds; native fuzzing (thorough only) cannot be pinned. Exit 2 = inconclusive (never a violation).",
    }
    json.dump(m, open("/verif/MANIFEST.json", "w"), indent=1)
    print("claimed:", [c["property_id"] for c in checks])


if __name__ == "__main__":
    main()
