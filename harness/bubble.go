package harness

import (
	"fmt"
	"strings"
	"sync"
	"testing"
	"testing/synctest"

	eio "github.com/karagenc/socket.io-go/engine.io"
)

// inBubble runs fn inside a testing/synctest bubble (virtual clock). It returns the message of a panic raised by
// synctest itself (e.g. "deadlock: all goroutines in bubble are blocked", or blocked goroutines remaining at the end).
func inBubble(t *testing.T, fn func()) (panicMsg string) {
	if realClock {
		fn() // mode M: the same scenario over memnet on the real clock (stall classification, see DESIGN.md §2.2)
		return ""
	}
	defer func() {
		if r := recover(); r != nil {
			panicMsg = fmt.Sprint(r)
		}
	}()
	synctest.Test(t, func(*testing.T) { fn() })
	return ""
}

func isBubbleDeadlock(msg string) bool {
	return strings.Contains(msg, "deadlock") || strings.Contains(msg, "blocked goroutines remain")
}

// ---- hook dispatch ---------------------------------------------------------------------------
//
// verifhook is process-global. Cases run one at a time per process, so a case installs its own functions for its duration.

var hookMu sync.Mutex

type hookSet struct {
	point func(site string)
	stop  func(site string) bool
}

// withHooks installs the hooks for the duration of fn.
func withHooks(h hookSet, fn func()) {
	hookMu.Lock()
	defer hookMu.Unlock()
	eio.VerifSetHooks(h.point, h.stop)
	defer eio.VerifSetHooks(nil, nil)
	fn()
}

// curT is the *testing.T of the running test; eval functions that need a bubble use it.
var curT *testing.T

func setT(t *testing.T) { curT = t }

// realClock switches the rigs to the real clock (no bubble): waits are capped, quiescence is approximated by a short sleep.
var realClock = envStr("VERIF_REALCLOCK", "") != ""
