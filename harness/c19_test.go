package harness

// C19 — queued packets are sent without waiting for unrelated traffic (no lost wake-up). See DESIGN.md §3 C19.
// Queue level: the real pollQueue / packetQueue inside a synctest bubble; a yield hook parks the consumer between its
// emptiness check and its wait (virtual 1 ns sleep = "let every other goroutine run first").

import (
	"encoding/json"
	"fmt"
	"sort"
	"sync"
	"testing"
	"testing/synctest"
	"time"

	sio "github.com/karagenc/socket.io-go"
	"github.com/karagenc/socket.io-go/engine.io/parser"
	"github.com/karagenc/socket.io-go/engine.io/transport/polling"
	"pgregory.net/rapid"
)

type c19Producer struct {
	Place string `json:"place"` // before | window | after
	N     int    `json:"n"`     // packets handed over in one add call
}

type c19Case struct {
	Queue     string        `json:"queue"` // poll | packet
	Consumers int           `json:"consumers"`
	Producers []c19Producer `json:"producers"`
	WindowHit int           `json:"window_hit"` // the n-th arrival of a consumer at the yield point opens the window
	Finale    string        `json:"finale"`     // none | close | reset | drain | shutdown  (packet queue only)
	// timing (virtual): a poll consumer re-polls after RepollMs (a client's round trip); "after" producers are GapMs apart;
	// the fake transport of the packet queue takes SendMs per Send call.
	RepollMs int `json:"repoll_ms,omitempty"`
	GapMs    int `json:"gap_ms,omitempty"`
	SendMs   int `json:"send_ms,omitempty"`
}

const (
	c19CheckQueue = "c19-queue"
	c19Bound      = time.Second // a hand-off must complete within this much virtual time
)

type c19Recv struct {
	id int
	at time.Duration
}

// fake eio.Socket recording what pollAndSend hands to the transport.
type c19Sock struct {
	mu    sync.Mutex
	start     time.Time
	got       []c19Recv
	sendDelay time.Duration
}

func (s *c19Sock) ID() string                  { return "x" }
func (s *c19Sock) PingInterval() time.Duration { return 25 * time.Second }
func (s *c19Sock) PingTimeout() time.Duration  { return 20 * time.Second }
func (s *c19Sock) TransportName() string       { return "polling" }
func (s *c19Sock) Close()                      {}
func (s *c19Sock) Send(packets ...*parser.Packet) {
	if s.sendDelay > 0 && len(packets) > 0 {
		time.Sleep(s.sendDelay) // a slow transport: the sender goroutine is busy meanwhile
	}
	s.mu.Lock()
	defer s.mu.Unlock()
	for _, p := range packets {
		var id int
		fmt.Sscanf(string(p.Data), "%d", &id)
		s.got = append(s.got, c19Recv{id, time.Since(s.start)})
	}
}

func (c c19Case) class() string {
	w := false
	for _, p := range c.Producers {
		w = w || p.Place == "window"
	}
	cls := c.Queue
	if w {
		cls += ",window"
	}
	if c.Finale != "" && c.Finale != "none" {
		cls += "," + c.Finale
	}
	return cls
}

func evalC19Queue(c c19Case) (f *Failure, windowUsed bool) {
	fail := func(clause, detail string) *Failure {
		return &Failure{Property: "C19", Check: c19CheckQueue, Clause: clause, Class: c.class(), Detail: detail, Case: c}
	}
	var res *Failure
	var used bool
	body := func() {
		start := time.Now()
		var mu sync.Mutex
		added := map[int]time.Duration{} // packet id -> virtual time of hand-over
		droppedUpTo := 0 // packets with id <= droppedUpTo were handed over before a reset and may have been dropped by it
		nextID := 0
		group := map[int]int{} // packet id -> add call it belongs to
		groups := 0
		mk := func(n int) []*parser.Packet {
			mu.Lock()
			defer mu.Unlock()
			groups++
			ps := make([]*parser.Packet, n)
			for i := range ps {
				nextID++
				group[nextID] = groups
				ps[i] = &parser.Packet{Type: parser.PacketTypeMessage, Data: []byte(fmt.Sprint(nextID))}
				added[nextID] = time.Since(start)
			}
			return ps
		}

		var pollQ *polling.VerifPollQueue
		var pktQ *sio.VerifPacketQueue
		sock := &c19Sock{start: start, sendDelay: time.Duration(c.SendMs) * time.Millisecond}
		strict := map[int]bool{}     // packets handed over while a consumer was blocked in its wait: must be taken at once
		waiting := 0                 // poll consumers currently between the yield point and the return of poll
		mustDeliver := map[int]bool{} // packets handed over before an orderly shutdown began
		shutdownFrom := 0
		var add func(n int)
		if c.Queue == "poll" {
			pollQ = polling.VerifNewPollQueue()
			add = func(n int) { pollQ.Add(mk(n)...) }
		} else {
			pktQ = sio.VerifNewPacketQueue()
			add = func(n int) { pktQ.Add(mk(n)...) }
		}

		// The yield hook: the WindowHit-th consumer arriving between emptiness check and wait is parked, and the
		// "window" producers run while it is parked.
		site := "pollQueue.poll:before-wait"
		if c.Queue == "packet" {
			site = "packetQueue.poll:before-wait"
		}
		hits := 0
		var producersWG sync.WaitGroup
		hook := func(s string) {
			if s != site {
				return
			}
			mu.Lock()
			hits++
			h := hits
			mu.Unlock()
			if h != c.WindowHit {
				return
			}
			for _, p := range c.Producers {
				if p.Place == "window" {
					mu.Lock()
					used = true
					mu.Unlock()
					producersWG.Add(1)
					go func(n int) { defer producersWG.Done(); add(n) }(p.N)
				}
			}
			time.Sleep(time.Nanosecond) // park until every other goroutine of the bubble has run to a blocking point
		}

		var emptyWhileQueued []string
		stop := make(chan struct{})
		var consumersWG sync.WaitGroup
		withHooks(hookSet{point: hook}, func() {
			for _, p := range c.Producers {
				if p.Place == "before" {
					add(p.N)
				}
			}
			for i := 0; i < c.Consumers; i++ {
				consumersWG.Add(1)
				go func() {
					defer consumersWG.Done()
					if c.Queue == "packet" {
						pktQ.PollAndSend(sock)
						return
					}
					for {
						select {
						case <-stop:
							return
						default:
						}
						mu.Lock()
						waiting++ // this consumer is inside poll (at the check, parked at the yield point, or blocked in its wait)
						mu.Unlock()
						ps := pollQ.Poll(45 * time.Second)
						mu.Lock()
						waiting--
						mu.Unlock()
						if len(ps) == 0 {
							if n := pollQ.Len(); n > 0 {
								mu.Lock()
								emptyWhileQueued = append(emptyWhileQueued, fmt.Sprintf("poll returned empty at %v with %d packets queued", time.Since(start), n))
								mu.Unlock()
							}
						}
						sock.Send(ps...)
						if c.RepollMs > 0 {
							time.Sleep(time.Duration(c.RepollMs) * time.Millisecond) // the client's round trip before its next poll
						}
					}
				}()
			}
			synctest.Wait()
			time.Sleep(time.Millisecond) // lets the parked consumer enter its wait
			synctest.Wait()
			for _, p := range c.Producers {
				if p.Place == "after" {
					synctest.Wait() // quiescent: a consumer counted as waiting is really blocked (or parked at the yield point)
					mu.Lock()
					pending := c.Queue == "poll" && waiting > 0
					first := nextID + 1
					mu.Unlock()
					add(p.N)
					if pending {
						for id := first; id < first+p.N; id++ {
							strict[id] = true
						}
					}
					if c.GapMs > 0 {
						time.Sleep(time.Duration(c.GapMs) * time.Millisecond)
						synctest.Wait()
					}
				}
			}
			synctest.Wait()
			switch c.Finale {
			case "reset":
				// reset drops what is queued at this instant; hand-overs up to now that were already sent stay sent.
				mu.Lock()
				droppedUpTo = nextID
				mu.Unlock()
				pktQ.Reset()
				add(1) // the queue must keep working after a reset
			case "shutdown":
				// the orderly shutdown of serverConn.closePacketQueue / Manager.closePacketQueue, started while the sender may be busy:
				// everything handed over before it began has to be transmitted
				add(1)
				mu.Lock()
				for id := 1; id <= nextID; id++ {
					mustDeliver[id] = true
				}
				shutdownFrom = nextID + 1 // whatever is handed over once the shutdown has begun may be discarded by close()
				mu.Unlock()
				go func() {
					pktQ.WaitForDrain(2 * time.Minute)
					pktQ.Close()
				}()
				time.Sleep(3 * time.Minute)
			case "drain":
				t0 := time.Now()
				pktQ.WaitForDrain(5 * time.Second)
				if d := time.Since(t0); d > 5*time.Second+c19Bound {
					res = fail("drain-returns", fmt.Sprintf("waitForDrain(5s) returned after %v", d))
				}
			}
			time.Sleep(2*c19Bound + time.Duration(c.RepollMs*(c.WindowHit+3))*time.Millisecond)
			synctest.Wait()
		})
		endOfObservation := time.Since(start)

		// Oracle 1: every packet handed over (and not dropped by a later reset) was taken within the bound.
		sock.mu.Lock()
		got := append([]c19Recv(nil), sock.got...)
		sock.mu.Unlock()
		seen := map[int]int{}
		for _, r := range got {
			seen[r.id]++
			if at, ok := added[r.id]; ok && strict[r.id] && r.at-at >= time.Millisecond && c.SendMs == 0 && res == nil {
				res = fail("pending-poll-serves", fmt.Sprintf("packet %d was handed over at %v while a poll was pending (blocked in its wait) but was only returned at %v", r.id, at, r.at))
			}
			// a packet handed over while no poll is pending waits for the next poll to arrive (RepollMs), a slow transport delays the sender (SendMs)
			if at, ok := added[r.id]; ok && r.at-at >= c19Bound+time.Duration(c.SendMs*4+c.RepollMs)*time.Millisecond && res == nil {
				res = fail("hand-off-latency", fmt.Sprintf("packet %d handed over at %v reached the consumer at %v (bound %v)", r.id, at, r.at, c19Bound))
			}
		}
		mu.Lock()
		ids := make([]int, 0, len(added))
		for id := range added {
			ids = append(ids, id)
		}
		sort.Ints(ids)
		for _, id := range ids {
			if seen[id] > 1 && res == nil {
				res = fail("exactly-once", fmt.Sprintf("packet %d was delivered %d times", id, seen[id]))
			}
			if seen[id] == 0 && mustDeliver[id] && res == nil {
				res = fail("shutdown-drains", fmt.Sprintf("packet %d was handed to the send path at %v, before the orderly shutdown (waitForDrain, close) began, and was never transmitted", id, added[id]))
			}
			if seen[id] == 0 && shutdownFrom > 0 && id >= shutdownFrom {
				continue
			}
			if seen[id] == 0 && endOfObservation-added[id] < c19Bound+time.Duration(c.SendMs*4+c.RepollMs)*time.Millisecond {
				continue // handed over too shortly before the end of the observation to judge
			}
			if seen[id] == 0 && res == nil {
				if id <= droppedUpTo {
					continue // may legitimately have been dropped by reset
				}
				res = fail("hand-off-latency", fmt.Sprintf("packet %d handed over at %v had not reached any consumer %v later (it waits for unrelated traffic or a timeout)",
					id, added[id], time.Since(start)-added[id]))
			}
		}
		if len(emptyWhileQueued) > 0 && res == nil {
			res = fail("empty-poll-while-queued", emptyWhileQueued[0])
		}
		mu.Unlock()
		// order: ids are assigned in hand-over order per add call; each consumer must see increasing ids
		// (concurrent "window" producers may reach the queue in either order, so only the packets of one add call are ordered among themselves)
		if c.Consumers == 1 && res == nil {
			last := map[int]int{}
			for _, r := range got {
				g := group[r.id]
				if r.id < last[g] {
					res = fail("fifo", fmt.Sprintf("packet %d was taken after packet %d of the same add call", r.id, last[g]))
					break
				}
				last[g] = r.id
			}
		}

		// Teardown: consumers must terminate.
		close(stop)
		if c.Queue == "packet" {
			for i := 0; i < c.Consumers; i++ {
				pktQ.Close()
				synctest.Wait()
			}
		} else {
			time.Sleep(46 * time.Second) // poll timeouts expire
			// A consumer blocked in poll again needs one more timeout at most.
			time.Sleep(46 * time.Second)
		}
		done := make(chan struct{})
		go func() { consumersWG.Wait(); producersWG.Wait(); close(done) }()
		select {
		case <-done:
		case <-time.After(10 * time.Minute):
			if res == nil {
				res = fail("consumers-terminate", "a consumer goroutine is still running 10 virtual minutes after close")
			}
			// leave them; the bubble will report them
		}
	}
	msg := inBubble(curT, body)
	if msg != "" && res == nil {
		clause := "bubble-panic"
		if isBubbleDeadlock(msg) {
			clause = "nothing-blocks"
		}
		res = fail(clause, "synctest: "+msg)
	}
	return res, used
}

func c19Nontrivial(c c19Case, windowUsed bool) bool { return windowUsed }

func TestC19_QueueExhaustive(t *testing.T) {
	setT(t)
	ev := NewEv(t, "C19", c19CheckQueue+"-enum", "exhaustive at hook granularity: 1..3 producers each in {before the check, in the window between emptiness check and wait, "+
		"after the wait began} x {1,2} consumers x window at the 1st/2nd wait x {pollQueue; packetQueue with finale none/close/reset/drain}; "+
		"non-trivial = a producer ran while a consumer was parked at the yield point")
	ev.Exhaustive()
	places := []string{"before", "window", "after"}
	var cases []c19Case
	for _, q := range []string{"poll", "packet"} {
		finales := []string{"none"}
		if q == "packet" {
			finales = []string{"none", "reset", "drain"}
		}
		for cons := 1; cons <= 2; cons++ {
			for np := 1; np <= 3; np++ {
				total := 1
				for i := 0; i < np; i++ {
					total *= 3
				}
				for code := 0; code < total; code++ {
					ps := make([]c19Producer, np)
					x := code
					for i := range ps {
						ps[i] = c19Producer{Place: places[x%3], N: 1 + (i+code)%2}
						x /= 3
					}
					for _, fin := range finales {
						for hit := 1; hit <= 2; hit++ {
							cases = append(cases, c19Case{Queue: q, Consumers: cons, Producers: ps, WindowHit: hit, Finale: fin})
							if hit == 1 {
								if q == "poll" {
									cases = append(cases, c19Case{Queue: q, Consumers: cons, Producers: ps, WindowHit: hit, Finale: fin, RepollMs: 2000, GapMs: 1})
								} else {
									cases = append(cases, c19Case{Queue: q, Consumers: cons, Producers: ps, WindowHit: hit, Finale: "shutdown", SendMs: 50, GapMs: 20})
								}
							}
						}
					}
				}
			}
		}
	}
	reported := map[string]bool{}
	for i, c := range cases {
		if !mine(i) {
			continue
		}
		f, used := evalC19Queue(c)
		ev.Case(c, c19Nontrivial(c, used), c.class())
		if used {
			ev.Sample(c.class(), c)
		}
		if f != nil && !reported[f.Sig()] {
			reported[f.Sig()] = true
			Report(t, *f)
		}
	}
}

func TestC19_QueueRapid(t *testing.T) {
	setT(t)
	ev := NewEv(t, "C19", c19CheckQueue, "rapid: 1..2 consumers, 1..3 producers with 1..3 packets each placed before/in-window/after, window at the 1st..3rd wait, "+
		"finale none/reset/drain; non-trivial = a producer ran while a consumer was parked at the yield point")
	rapidGuard(t, "C19", c19CheckQueue)
	runRapid(t, c19CheckQueue, tierN(24000, 1200000), func(t *rapid.T) {
		c := c19Case{
			Queue:     rapid.SampledFrom([]string{"poll", "packet"}).Draw(t, "queue"),
			Consumers: rapid.IntRange(1, 2).Draw(t, "consumers"),
			WindowHit: rapid.IntRange(1, 3).Draw(t, "windowHit"),
			Finale:    "none",
		}
		np := rapid.IntRange(1, 3).Draw(t, "producers")
		for i := 0; i < np; i++ {
			c.Producers = append(c.Producers, c19Producer{
				Place: rapid.SampledFrom([]string{"before", "window", "window", "after"}).Draw(t, "place"),
				N:     rapid.IntRange(1, 3).Draw(t, "n"),
			})
		}
		if c.Queue == "packet" {
			c.Finale = rapid.SampledFrom([]string{"none", "reset", "drain", "shutdown", "shutdown"}).Draw(t, "finale")
			c.SendMs = rapid.SampledFrom([]int{0, 0, 50, 400}).Draw(t, "sendms")
		} else {
			c.RepollMs = rapid.SampledFrom([]int{0, 0, 10, 2000}).Draw(t, "repollms")
		}
		c.GapMs = rapid.SampledFrom([]int{0, 0, 1, 20}).Draw(t, "gapms")
		f, used := evalC19Queue(c)
		ev.Case(c, c19Nontrivial(c, used), c.class())
		if used {
			ev.Sample(c.class(), c)
		}
		if f != nil {
			FailRapid(t, *f)
		}
	})
}

func init() {
	registerReplay(c19CheckQueue, func(raw json.RawMessage) *Failure {
		f, _ := evalC19Queue(decodeCase[c19Case](raw))
		return f
	})
}
