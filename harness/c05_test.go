package harness

// C05 — namespaces multiplexed on one connection are isolated from each other. DESIGN.md §3 C05.

import (
	"encoding/json"
	"fmt"
	"net/http"
	"sort"
	"strings"
	"sync"
	"testing"
	"time"

	sio "github.com/karagenc/socket.io-go"
	eio "github.com/karagenc/socket.io-go/engine.io"
	"github.com/karagenc/socket.io-go/engine.io/parser"
	"nhooyr.io/websocket"
	"pgregory.net/rapid"

	"verif/harness/refcodec"
)

const c05Check = "c05-isolation"

var c05Names = []string{"/", "", "/a", "a", "/ab", "/a/b", "/a b", "/ä", "/0", "/12", "/a\"", "/A", "/a-", "/1-2"}

func normNsp(n string) string {
	if n == "" {
		return "/"
	}
	if n[0] != '/' {
		return "/" + n
	}
	return n
}

type c05Op struct {
	Op  string `json:"op"`  // c2s | s2c | ack | nspbc | roombc | disconnect | reconnect (of a namespace disconnected earlier)
	Nsp int    `json:"nsp"` // index into Namespaces
	Mgr int    `json:"mgr"` // which manager's socket (0 = shared connection with all namespaces, 1 = second connection)
}

type c05Case struct {
	Transport  string   `json:"transport"`
	Namespaces []string `json:"namespaces"` // as the user writes them (look-alikes); distinct after normalisation
	DelayMs    []int    `json:"delay_ms"`   // per namespace: middleware delay before accepting (CONNECT replies arrive in any order)
	Reject     int      `json:"reject"`     // index of a namespace whose middleware rejects (-1 none)
	Mgr2       []int    `json:"mgr2"`       // namespaces the second manager joins
	Ops        []c05Op  `json:"ops"`
}

// c05OtherSpelling gives the other way of writing a namespace name that Manager.Socket normalises to the same namespace.
func c05OtherSpelling(name string) string {
	switch {
	case name == "":
		return "/"
	case name == "/":
		return ""
	case name[0] == '/':
		return name[1:]
	}
	return "/" + name
}

func evalC05(c c05Case) (f *Failure, nontrivial bool) {
	class := fmt.Sprintf("%s,nsps=%d", c.Transport, len(c.Namespaces))
	fail := func(clause, detail string) *Failure {
		return &Failure{Property: "C05", Check: c05Check, Clause: clause, Class: class, Detail: detail, Case: c}
	}
	journal(c05Check, class, c)
	var res *Failure
	set := func(f *Failure) {
		if res == nil {
			res = f
		}
	}
	msg := runRig(rigOpts{}, func(r *rig) {
		var mu sync.Mutex
		type key struct {
			nsp string
			mgr int
		}
		srvSock := map[key]sio.ServerSocket{}
		var leaks []string
		// handler factories: a handler installed on (namespace X, manager k) must only ever see tokens "X|k|..."
		checkToken := func(side, nsp string, mgr int, tok string) {
			parts := strings.SplitN(tok, "|", 3)
			ok := len(parts) == 3 && parts[0] == nsp && (parts[1] == fmt.Sprint(mgr) || parts[1] == "*")
			if !ok {
				mu.Lock()
				leaks = append(leaks, fmt.Sprintf("%s handler of namespace %q (connection %d) received token %q", side, nsp, mgr, tok))
				mu.Unlock()
			}
		}
		recv := map[string]int{} // token+"@"+receiver -> count
		nsps := make([]*sio.Namespace, len(c.Namespaces))
		for i, name := range c.Namespaces {
			i := i
			norm := normNsp(name)
			nsp := r.Server.Of(name)
			nsps[i] = nsp
			nsp.Use(func(s sio.ServerSocket, h *sio.Handshake) any {
				var auth struct {
					Mgr int `json:"mgr"`
				}
				_ = json.Unmarshal(h.Auth, &auth)
				if c.DelayMs[i] > 0 {
					time.Sleep(time.Duration(c.DelayMs[i]) * time.Millisecond)
				}
				if i == c.Reject {
					return fmt.Errorf("no entry to %s", norm)
				}
				mgr := auth.Mgr
				s.OnEvent("ev", func(tok string) {
					checkToken("server", norm, mgr, tok)
					mu.Lock()
					recv[tok+"@srv"]++
					mu.Unlock()
				})
				s.OnEvent("rt", func(tok string, ack func(string)) {
					checkToken("server", norm, mgr, tok)
					ack(tok)
				})
				s.Join("r") // the same room name in every namespace
				mu.Lock()
				srvSock[key{norm, mgr}] = s
				mu.Unlock()
				return nil
			})
		}
		type cliSock struct {
			s           sio.ClientSocket
			nsp         string
			connects    int
			connectErrs int
			handlerRuns int
			ackOK       map[string]bool
		}
		clients := map[key]*cliSock{}
		mkSock := func(m *sio.Manager, mgr int, name string) {
			norm := normNsp(name)
			cs := &cliSock{nsp: norm, ackOK: map[string]bool{}}
			s := m.Socket(name, &sio.ClientSocketConfig{Auth: map[string]any{"mgr": mgr}})
			cs.s = s
			s.OnConnect(func() { mu.Lock(); cs.connects++; mu.Unlock() })
			s.OnConnectError(func(any) { mu.Lock(); cs.connectErrs++; mu.Unlock() })
			h := func(tok string) {
				checkToken("client", norm, mgr, tok)
				mu.Lock()
				cs.handlerRuns++
				if !s.Connected() {
					leaks = append(leaks, fmt.Sprintf("client handler of %q ran while the socket does not report connected", norm))
				}
				recv[tok+fmt.Sprintf("@cli%d", mgr)]++
				mu.Unlock()
			}
			s.OnEvent("ev", h)
			s.OnEvent("bc", h)
			clients[key{norm, mgr}] = cs
		}
		diag := map[string]int{}
		watch := func(m *sio.Manager, k int) {
			m.OnError(func(err error) { mu.Lock(); diag[fmt.Sprintf("mgr%d-error:%v", k, err)]++; mu.Unlock() })
			m.OnClose(func(reason sio.Reason, err error) {
				mu.Lock()
				diag[fmt.Sprintf("mgr%d-close:%s:%v", k, reason, err)]++
				mu.Unlock()
			})
			m.OnOpen(func() { mu.Lock(); diag[fmt.Sprintf("mgr%d-open", k)]++; mu.Unlock() })
		}
		m0 := r.manager(c01Transports(c.Transport), nil)
		watch(m0, 0)
		for _, name := range c.Namespaces {
			mkSock(m0, 0, name)
		}
		m1 := r.manager(c01Transports(c.Transport), nil)
		watch(m1, 1)
		for _, i := range c.Mgr2 {
			mkSock(m1, 1, c.Namespaces[i])
		}
		for _, cs := range clients {
			cs.s.Connect()
		}
		// a broadcast in every namespace while the slow ones (500 ms middleware) are still deciding about the CONNECT:
		// a connection that has not been admitted yet must not receive it (the others may or may not be connected by now)
		settle(100 * time.Millisecond)
		earlyMustNot := map[string]bool{}
		for i, name := range c.Namespaces {
			norm := normNsp(name)
			nsps[i].Emit("bc", norm+"|*|early")
			if c.DelayMs[i] >= 500 {
				earlyMustNot[norm] = true
				nontrivial = true
			}
		}
		settle(5 * time.Second)
		mu.Lock()
		for t, n := range recv {
			if tok, rcv, _ := strings.Cut(t, "@"); strings.HasSuffix(tok, "|early") {
				norm := strings.TrimSuffix(tok, "|*|early")
				if earlyMustNot[norm] && n > 0 {
					set(fail("attached-only-when-accepted", fmt.Sprintf("a broadcast in namespace %q issued while its middleware was still deciding about the CONNECT was delivered to %s (%d times)", norm, rcv, n)))
				}
				delete(recv, t)
			}
		}
		mu.Unlock()
		if res != nil {
			return
		}
		rejected := ""
		if c.Reject >= 0 {
			rejected = normNsp(c.Namespaces[c.Reject])
		}
		mu.Lock()
		for k, cs := range clients {
			if k.nsp == rejected {
				if cs.connects != 0 || cs.connectErrs != 1 || cs.s.Connected() {
					set(fail("attached-only-when-accepted", fmt.Sprintf("namespace %q rejects: client socket (connection %d) got connect x%d, connect_error x%d, Connected()=%v", k.nsp, k.mgr, cs.connects, cs.connectErrs, cs.s.Connected())))
				}
				continue
			}
			if cs.connects != 1 || !cs.s.Connected() || srvSock[k] == nil {
				clause := "rig-connect"
				if srvSock[k] != nil {
					clause = "accepted-namespace-connects" // the server accepted the CONNECT; the client must learn about it
				}
				var links []string
				for _, l := range r.Net.Links() {
					links = append(links, fmt.Sprintf("%d:c2s=%d,s2c=%d", l.ID, len(l.RecC2S), len(l.RecS2C)))
					if c.Transport == "polling" && envStr("VERIF_DUMP", "") != "" {
						links = append(links, fmt.Sprintf("C2S<<%s>> S2C<<%s>>", l.RecC2S, l.RecS2C))
					}
				}
				set(fail(clause, fmt.Sprintf("namespace %q connection %d: connect x%d, connect_error x%d, Connected()=%v, server socket %v; client-side events %v; links %v", k.nsp, k.mgr, cs.connects, cs.connectErrs, cs.s.Connected(), srvSock[k] != nil, diag, links)))
			}
		}
		mu.Unlock()
		if res != nil {
			return
		}
		disconnected := map[key]bool{}
		rejoined := false
		volatileOffline := false
		aliased := false
		seq := 0
		expect := map[string]int{} // token@receiver -> expected count
		for _, op := range c.Ops {
			tick()
			norm := normNsp(c.Namespaces[op.Nsp])
			k := key{norm, op.Mgr}
			cs := clients[k]
			if op.Op == "reconnect" {
				// a namespace that was left is joined again on the same connection: it must connect, and nothing else may notice
				if norm == rejected || cs == nil || !disconnected[k] {
					continue
				}
				settle(50 * time.Millisecond)
				mu.Lock()
				before := cs.connects
				mu.Unlock()
				cs.s.Connect()
				settle(2 * time.Second)
				mu.Lock()
				after, ss := cs.connects, srvSock[k]
				mu.Unlock()
				if after != before+1 || !cs.s.Connected() || ss == nil || !ss.Connected() {
					set(fail("rejoin-after-leaving", fmt.Sprintf("namespace %q on connection %d was left and joined again: connect fired %d times, Connected()=%v, server socket connected %v; client-side events %v",
						k.nsp, k.mgr, after-before, cs.s.Connected(), ss != nil && ss.Connected(), diag)))
					return
				}
				delete(disconnected, k)
				rejoined = true
				continue
			}
			if op.Op == "volatile-offline" {
				// a volatile emit on a socket that is not attached (it left, or its namespace refused it) is simply discarded: it must not put
				// anything on the connection the socket shares with its siblings
				if cs != nil && (disconnected[k] || norm == rejected) {
					cs.s.Volatile().Emit("ev", fmt.Sprintf("%s|%d|volatile-offline", norm, op.Mgr))
					volatileOffline = true
					settle(20 * time.Millisecond)
				}
				continue
			}
			if norm == rejected || cs == nil || disconnected[k] {
				continue
			}
			seq++
			tok := fmt.Sprintf("%s|%d|%d", norm, op.Mgr, seq)
			mu.Lock()
			ss := srvSock[k]
			mu.Unlock()
			switch op.Op {
			case "c2s":
				cs.s.Emit("ev", tok)
				expect[tok+"@srv"] = 1
			case "s2c":
				ss.Emit("ev", tok)
				expect[tok+fmt.Sprintf("@cli%d", op.Mgr)] = 1
			case "ack":
				cs.s.Emit("rt", tok, func(back string) { mu.Lock(); cs.ackOK[tok] = back == tok; mu.Unlock() })
				expect["ack:"+tok] = 1
			case "nspbc", "roombc":
				btok := fmt.Sprintf("%s|*|%d", norm, seq)
				if op.Op == "nspbc" {
					nsps[op.Nsp].Emit("bc", btok)
				} else {
					nsps[op.Nsp].To("r").Emit("bc", btok)
				}
				for kk := range clients {
					if kk.nsp == norm && !disconnected[kk] {
						expect[btok+fmt.Sprintf("@cli%d", kk.mgr)] = 1
					}
				}
			case "bounce":
				// the namespace is left and joined again at once, on the same connection; then it is used
				if op.Mgr != 0 || len(c.Namespaces) < 2 {
					seq--
					continue
				}
				settle(10 * time.Millisecond)
				mu.Lock()
				before := cs.connects
				mu.Unlock()
				cs.s.Disconnect()
				cs.s.Connect()
				settle(2 * time.Second)
				mu.Lock()
				after := cs.connects
				ss = srvSock[k]
				mu.Unlock()
				if after != before+1 || !cs.s.Connected() || ss == nil || !ss.Connected() {
					set(fail("rejoin-after-leaving", fmt.Sprintf("namespace %q on connection %d was left and joined again at once: connect fired %d times, Connected()=%v, server socket connected %v; client-side events %v",
						k.nsp, k.mgr, after-before, cs.s.Connected(), ss != nil && ss.Connected(), diag)))
					return
				}
				cs.s.Emit("ev", tok)
				expect[tok+"@srv"] = 1
				rejoined = true
			case "alias":
				// the same namespace under its other spelling ("chat" for "/chat", "" for "/"): the manager knows one socket per namespace,
				// so what is emitted through this one travels in the namespace, and what the server sends still reaches the handlers
				alt := []*sio.Manager{m0, m1}[op.Mgr].Socket(c05OtherSpelling(c.Namespaces[op.Nsp]), nil)
				alt.Emit("ev", tok)
				expect[tok+"@srv"] = 1
				seq++
				tok2 := fmt.Sprintf("%s|%d|%d", norm, op.Mgr, seq)
				ss.Emit("ev", tok2)
				expect[tok2+fmt.Sprintf("@cli%d", op.Mgr)] = 1
				aliased = true
			case "disconnect":
				settle(10 * time.Millisecond) // traffic in flight on this namespace is delivered first: a disconnect legitimately drops what follows it
				cs.s.Disconnect()
				settle(50 * time.Millisecond) // the server learns about it before anything else is issued: a broadcast racing the DISCONNECT packet may legitimately still address the socket
				disconnected[k] = true
				nontrivial = nontrivial || op.Mgr == 0
			}
			if seq%3 == 0 {
				settle(10 * time.Millisecond)
			}
		}
		nontrivial = nontrivial || rejoined || volatileOffline || aliased
		settle(2 * time.Second)
		// after disconnecting some namespaces every other namespace of those connections still completes an ack round trip
		final := map[key]bool{}
		for k, cs := range clients {
			if k.nsp == rejected || disconnected[k] {
				continue
			}
			k, cs := k, cs
			tok := fmt.Sprintf("%s|%d|final", k.nsp, k.mgr)
			cs.s.Emit("rt", tok, func(back string) { mu.Lock(); final[k] = back == tok; mu.Unlock() })
		}
		settle(2 * time.Second)
		mu.Lock()
		defer mu.Unlock()
		if len(leaks) > 0 {
			set(fail("no-cross-namespace-delivery", leaks[0]))
			return
		}
		for k, cs := range clients {
			if k.nsp == rejected || disconnected[k] {
				continue
			}
			if !final[k] {
				set(fail("others-stay-connected", fmt.Sprintf("namespace %q on connection %d no longer completes an ack round trip (Connected()=%v) after %d namespace(s) were disconnected", k.nsp, k.mgr, cs.s.Connected(), len(disconnected))))
				return
			}
		}
		keys := make([]string, 0, len(expect))
		for t := range expect {
			keys = append(keys, t)
		}
		sort.Strings(keys)
		for _, t := range keys {
			if strings.HasPrefix(t, "ack:") {
				tok := strings.TrimPrefix(t, "ack:")
				okAck := false
				for _, cs := range clients {
					okAck = okAck || cs.ackOK[tok]
				}
				if !okAck {
					set(fail("ack-returns-to-its-namespace", fmt.Sprintf("the acknowledgement of %q did not come back to the emitting socket's callback", tok)))
					return
				}
				continue
			}
			if recv[t] != expect[t] {
				set(fail("delivered-in-its-namespace", fmt.Sprintf("%q was delivered %d times, want %d", t, recv[t], expect[t])))
				return
			}
		}
		for t, n := range recv {
			if expect[t] == 0 && n > 0 {
				set(fail("no-cross-namespace-delivery", fmt.Sprintf("%q was delivered %d times to a receiver that was not addressed", t, n)))
				return
			}
		}
	})
	if res == nil && msg != "" && !isBubbleDeadlock(msg) {
		res = fail("bubble-panic", "synctest: "+msg)
	}
	// non-trivial: >= 2 namespaces on one connection, one a prefix of another
	for i, a := range c.Namespaces {
		for j, b := range c.Namespaces {
			na, nb := normNsp(a), normNsp(b)
			if i != j && na != nb && strings.HasPrefix(nb, na) && len(c.Ops) >= 2 {
				nontrivial = true
			}
		}
	}
	return res, nontrivial
}

func genC05Case(t *rapid.T) c05Case {
	c := c05Case{Transport: rapid.SampledFrom([]string{"polling", "websocket", "upgrade"}).Draw(t, "transport"), Reject: -1}
	if tr := envStr("VERIF_FORCE_TRANSPORT", ""); tr != "" {
		c.Transport = tr
	}
	n := rapid.IntRange(2, 5).Draw(t, "nsps")
	seen := map[string]bool{}
	for len(c.Namespaces) < n {
		name := rapid.SampledFrom(c05Names).Draw(t, "name")
		if seen[normNsp(name)] {
			continue
		}
		seen[normNsp(name)] = true
		c.Namespaces = append(c.Namespaces, name)
		c.DelayMs = append(c.DelayMs, rapid.SampledFrom([]int{0, 0, 5, 50, 500}).Draw(t, "delay"))
	}
	if rapid.IntRange(0, 3).Draw(t, "rejectSome") == 0 {
		c.Reject = rapid.IntRange(0, n-1).Draw(t, "reject")
	}
	for i := 0; i < n; i++ {
		if rapid.Bool().Draw(t, "mgr2") {
			c.Mgr2 = append(c.Mgr2, i)
		}
	}
	for i, k := 0, rapid.IntRange(2, 20).Draw(t, "ops"); i < k; i++ {
		op := c05Op{Op: rapid.SampledFrom([]string{"c2s", "s2c", "ack", "nspbc", "roombc", "c2s", "s2c", "disconnect", "reconnect", "volatile-offline", "alias", "bounce"}).Draw(t, "op"), Nsp: rapid.IntRange(0, n-1).Draw(t, "nsp"),
			Mgr: rapid.IntRange(0, 1).Draw(t, "mgr")}
		c.Ops = append(c.Ops, op)
	}
	return c
}

func TestC05_Isolation(t *testing.T) {
	setT(t)
	defer startWatchdog(t, 60*time.Second)()
	ev := NewEv(t, "C05", c05Check, "rapid on the virtual-time rig: 2..5 namespaces drawn from look-alikes (/, '', /a, a, /ab, /a/b, '/a b', /ä, /0, /12, /a\", /A, /a-, /1-2), one manager with a socket per "+
		"namespace (shared connection) plus a second manager on a subset, per-namespace middleware delays (CONNECT replies in any order) with a broadcast issued in every namespace while the slow ones are still deciding, optionally one rejecting namespace; 2..20 operations: emits both "+
		"ways, ack round trips, namespace and room broadcasts (same room name everywhere), client-side disconnect of one namespace and joining it again later on the same connection, volatile emits on a socket that is not attached; every token names its namespace and connection; oracle: a handler of "+
		"(X, k) only ever sees tokens of X/k, deliveries == expectations exactly, acks return to the emitter, a rejected namespace yields connect_error once and never connects, after the disconnects every "+
		"other namespace of the connection still completes an ack round trip; non-trivial = >= 2 namespaces on one connection with one a prefix of another")
	rapidGuard(t, "C05", c05Check)
	runRapid(t, c05Check, tierN(12000, 150000), func(t *rapid.T) {
		c := genC05Case(t)
		f, nt := evalC05(c)
		ev.Case(c, nt, c.Transport)
		if nt {
			ev.Sample(c.Transport, c)
		}
		if f != nil {
			FailRapid(t, *f)
		}
	})
}

// ---- raw peer: packets for namespaces the connection has not joined -----------------------------------------------------------

const c05CheckRaw = "c05-raw-peer"

type c05RawCase struct {
	Transport string `json:"transport"`
	Hostile   string `json:"hostile"` // event-unjoined | ack-unjoined | disconnect-unjoined | event-pending | binary-event-unjoined | second-connect | connect-error | event-unknown-nsp
}

func evalC05Raw(c c05RawCase) *Failure {
	class := c.Hostile
	fail := func(clause, detail string) *Failure {
		return &Failure{Property: "C05", Check: c05CheckRaw, Clause: clause, Class: class, Detail: detail, Case: c}
	}
	journal(c05CheckRaw, class, c)
	var res *Failure
	msg := runRig(rigOpts{}, func(r *rig) {
		var mu sync.Mutex
		ok := false
		dispatched := []string{}
		connections := map[string]int{}
		for _, name := range []string{"/a", "/b", "/c"} {
			name := name
			nsp := r.Server.Of(name)
			nsp.Use(func(s sio.ServerSocket, _ *sio.Handshake) any {
				if name == "/c" {
					time.Sleep(5 * time.Second) // CONNECT for /c stays pending
				}
				s.OnEvent("ev", func(x string) { mu.Lock(); dispatched = append(dispatched, name+":ev:"+x); mu.Unlock() })
				s.OnEvent("rt", func(x string, ack func(string)) { ack(x) })
				s.OnDisconnect(func(reason sio.Reason) {
					mu.Lock()
					dispatched = append(dispatched, name+":disconnect:"+string(reason))
					mu.Unlock()
				})
				return nil
			})
			nsp.OnConnection(func(s sio.ServerSocket) { mu.Lock(); connections[name]++; mu.Unlock() })
		}
		// a healthy Go client on /b of the same server
		healthy := r.manager(c01Transports(c.Transport), nil).Socket("/b", nil)
		healthy.Connect()
		tr := &http.Transport{DialContext: r.Net.Dial}
		closed := ""
		var inbound []string
		cli, err := eio.Dial("http://x/socket.io", &eio.Callbacks{
			OnPacket: func(ps ...*parser.Packet) {
				mu.Lock()
				for _, p := range ps {
					if p.Type == parser.PacketTypeMessage {
						inbound = append(inbound, string(p.Data))
					}
				}
				mu.Unlock()
			},
			OnClose: func(reason eio.Reason, err error) { mu.Lock(); closed = string(reason); mu.Unlock() },
		}, &eio.ClientConfig{Transports: c01Transports(c.Transport), HTTPTransport: tr, WebSocketDialOptions: &websocket.DialOptions{HTTPClient: &http.Client{Transport: tr}}})
		if err != nil {
			res = fail("rig-connect", "raw dial: "+err.Error())
			return
		}
		defer tr.CloseIdleConnections()
		send := func(frames ...string) {
			for i, fr := range frames {
				p, _ := parser.NewPacket(parser.PacketTypeMessage, i > 0, []byte(fr))
				cli.Send(p)
			}
		}
		send("0/a,")
		settle(time.Second)
		mu.Lock()
		joined := connections["/a"] == 1
		mu.Unlock()
		if !joined || !healthy.Connected() {
			res = fail("rig-connect", "raw peer did not join /a or the healthy client did not connect")
			return
		}
		switch c.Hostile {
		case "event-unjoined":
			send(`2/b,["ev","x"]`)
		case "binary-event-unjoined":
			send(`51-/b,["ev",{"_placeholder":true,"num":0}]`, "att")
		case "ack-unjoined":
			send(`3/b,0["x"]`)
		case "disconnect-unjoined":
			send(`1/b,`)
		case "event-pending":
			send("0/c,")
			settle(100 * time.Millisecond)
			send(`2/c,["ev","x"]`)
		case "second-connect":
			send("0/a,")
		case "connect-error":
			send(`4/a,{"message":"boo"}`)
		case "event-unknown-nsp":
			send(`2/zzz,["ev","x"]`)
		case "concurrent-connects":
			// two CONNECT packets for /c back to back: both are inside /c's slow middleware at the same time
			send("0/c,", "0/c,")
			settle(10 * time.Second)
			cli.Close()
			settle(5 * time.Second)
			mu.Lock()
			nConn := connections["/c"]
			mu.Unlock()
			left := len(r.Server.Of("/c").Sockets())
			if nConn > 1 || left != 0 {
				res = fail("one-socket-per-namespace", fmt.Sprintf("two simultaneous CONNECT packets for /c on one connection: %d sockets were admitted; after the connection was closed %d socket(s) are still listed in /c", nConn, left))
				return
			}
			mu.Lock()
			defer mu.Unlock()
			goto others
		case "event-after-leaving", "ack-after-leaving", "rejoin-after-leaving":
			// the connection is attached to /a and /b, talks to /a, leaves /a (only /a), and then addresses /a again
			send("0/b,")
			settle(time.Second)
			send(`2/a,["ev","first"]`)
			settle(100 * time.Millisecond)
			send("1/a,")
			settle(time.Second)
			switch c.Hostile {
			case "event-after-leaving":
				send(`2/a,["ev","x"]`)
			case "ack-after-leaving":
				send(`3/a,0["x"]`)
			case "rejoin-after-leaving":
				send("0/a,")
				settle(time.Second)
				send(`2/a,["ev","again"]`, `2/b,["ev","still"]`)
			}
		}
		settle(10 * time.Second)
		mu.Lock()
		defer mu.Unlock()
		if strings.HasSuffix(c.Hostile, "-after-leaving") {
			want := []string{"/a:ev:first", "/a:disconnect:client namespace disconnect"}
			wantConn := map[string]int{"/a": 1, "/b": 2}
			if c.Hostile == "rejoin-after-leaving" {
				want = append(want, "/a:ev:again", "/b:ev:still")
				wantConn["/a"] = 2
				if closed != "" {
					res = fail("rejoin-after-leaving", fmt.Sprintf("joining /a again after leaving it closed the connection (%s); dispatched %v, inbound %v", closed, dispatched, inbound))
					return
				}
			} else {
				// closing the connection also ends its socket in /b
				for _, d := range dispatched {
					if strings.HasPrefix(d, "/b:disconnect:") {
						want = append(want, d)
					}
				}
				if closed == "" {
					res = fail("closes-the-connection", fmt.Sprintf("after %s the offending connection is still open (dispatched %v, inbound %v)", c.Hostile, dispatched, inbound))
					return
				}
			}
			got := append([]string(nil), dispatched...)
			sort.Strings(got)
			sort.Strings(want)
			if fmt.Sprint(got) != fmt.Sprint(want) || connections["/a"] != wantConn["/a"] || connections["/b"] != wantConn["/b"] {
				res = fail("never-dispatched", fmt.Sprintf("hostile case %s: dispatched %v, want %v; connection handlers %v, want %v", c.Hostile, got, want, connections, wantConn))
				return
			}
			goto others
		}
		for _, d := range dispatched {
			if !strings.HasPrefix(d, "/a:disconnect:") {
				res = fail("never-dispatched", fmt.Sprintf("the server dispatched %q for a packet of a namespace the connection had not joined (hostile case %s)", d, c.Hostile))
				return
			}
		}
		if connections["/a"] != 1 || connections["/b"] != 1 {
			res = fail("never-dispatched", fmt.Sprintf("connection handlers ran %v (raw peer joined /a once, the healthy client /b once)", connections))
			return
		}
		switch c.Hostile {
		case "event-unjoined", "binary-event-unjoined", "ack-unjoined", "disconnect-unjoined", "event-pending", "event-unknown-nsp":
			if closed == "" {
				res = fail("closes-the-connection", fmt.Sprintf("after %s the offending connection is still open (inbound %v)", c.Hostile, inbound))
				return
			}
		}
	others:
		// other connections are unaffected
		ok = false
		mu.Unlock()
		healthy.Emit("rt", "ping", func(back string) { mu.Lock(); ok = back == "ping"; mu.Unlock() })
		settle(2 * time.Second)
		mu.Lock()
		if !ok {
			res = fail("others-unaffected", "after the hostile packet a healthy client on another connection no longer completes an ack round trip")
		}
		mu.Unlock()
		cli.Close() // its callbacks take mu
		mu.Lock()
	})
	if res == nil && msg != "" && !isBubbleDeadlock(msg) {
		res = fail("bubble-panic", "synctest: "+msg)
	}
	_ = refcodec.ErrShort
	return res
}

func TestC05_RawPeer(t *testing.T) {
	setT(t)
	defer startWatchdog(t, 60*time.Second)()
	ev := NewEv(t, "C05", c05CheckRaw, "enumeration: a hand-written Socket.IO client (repo's eio package) joins /a and then sends EVENT / BINARY_EVENT / ACK / DISCONNECT for /b (exists, never joined), an EVENT for "+
		"/c while its CONNECT is still in a slow middleware, an EVENT for a namespace that does not exist, a second CONNECT for /a, a CONNECT_ERROR, and - attached to /a and /b - leaves /a and then sends an EVENT / an ACK for /a or joins /a again, and two simultaneous CONNECT packets for a namespace with a slow middleware; x {polling, websocket}; oracle: nothing is dispatched "+
		"to any handler, the offending connection is closed (not-joined cases), a healthy client on another connection still round-trips; non-trivial = every case")
	ev.Exhaustive()
	i := 0
	for _, tr := range []string{"polling", "websocket"} {
		for _, h := range []string{"event-unjoined", "binary-event-unjoined", "ack-unjoined", "disconnect-unjoined", "event-pending", "second-connect", "connect-error", "event-unknown-nsp",
			"event-after-leaving", "ack-after-leaving", "rejoin-after-leaving", "concurrent-connects"} {
			i++
			if !mine(i) {
				continue
			}
			c := c05RawCase{Transport: tr, Hostile: h}
			ev.Case(c, true, h)
			ev.Sample(h, c)
			if f := evalC05Raw(c); f != nil {
				Report(t, *f)
			}
		}
	}
}

func init() {
	registerReplay(c05Check, func(raw json.RawMessage) *Failure {
		f, _ := evalC05(decodeCase[c05Case](raw))
		return f
	})
	registerReplay(c05CheckRaw, func(raw json.RawMessage) *Failure { return evalC05Raw(decodeCase[c05RawCase](raw)) })
}
