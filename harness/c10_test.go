package harness

// C10 — no input from a peer can crash or wedge the Socket.IO decoder (parser level). See DESIGN.md §3 C10.
// The process-level part (a hostile connection must not disturb others) lives in c10_e2e_test.go.

import (
	"encoding/json"
	"fmt"
	"math/big"
	"reflect"
	"runtime"
	"strings"
	"testing"

	"github.com/karagenc/socket.io-go/parser"
	"pgregory.net/rapid"

	"verif/harness/refcodec"
)

const c10Check = "c10-parser"

type c10Case struct {
	Frames [][]byte `json:"frames"`
	Binary []bool   `json:"binary"` // whether frame i is sent as a binary Engine.IO message (informational at parser level)
	Origin string   `json:"origin"` // how the input was made
}

// Handler signature families a packet is decoded against.
var c10Families = []struct {
	Name  string
	Types []reflect.Type
}{
	{"typed-binary", []reflect.Type{binType}},
	{"map-any", []reflect.Type{reflect.TypeOf(map[string]any(nil))}},
	{"any", []reflect.Type{reflect.TypeOf((*any)(nil)).Elem()}},
	{"struct", []reflect.Type{reflect.TypeOf(vInner{})}},
	{"pstruct-outer", []reflect.Type{reflect.TypeOf(&vOuter{})}},
	{"no-args", nil},
	{"string-binary", []reflect.Type{reflect.TypeOf(""), binType}},
	{"slice-any", []reflect.Type{reflect.TypeOf([]any(nil))}},
	{"map-binary", []reflect.Type{reflect.TypeOf(map[string]Bin(nil))}},
	{"bins", []reflect.Type{reflect.TypeOf([]Bin(nil))}},
}

// declaredCount returns the attachment count text of a binary header, or "" if the frame is not a binary packet header.
func declaredCount(frame []byte) (text string, isBinaryType bool) {
	if len(frame) == 0 || (frame[0] != '5' && frame[0] != '6') {
		return "", false
	}
	i := strings.IndexByte(string(frame[1:]), '-')
	if i < 0 {
		return "", true
	}
	return string(frame[1 : 1+i]), true
}

type c10Result struct {
	reachedBody bool // passed the type byte and reached namespace / id / JSON / placeholder handling
	accepted    bool // a packet was completed (finish called)
}

func evalC10(c c10Case) (*Failure, c10Result) {
	var res c10Result
	class := c.Origin
	fail := func(clause, detail string) *Failure {
		return &Failure{Property: "C10", Check: c10Check, Clause: clause, Class: class, Detail: detail, Case: c}
	}
	if len(c.Frames) == 0 {
		return nil, res
	}
	if _, err := refcodec.ParseSIOHeader(c.Frames[0]); err == nil || (len(c.Frames[0]) > 1 && c.Frames[0][0] >= '0' && c.Frames[0][0] <= '6') {
		res.reachedBody = true
	}
	p := newSIOParser()
	var decoders []parser.Decode
	var headers []*parser.PacketHeader
	waiting := false // the parser accepted a header and waits for attachments
	waitingSince := -1
	for i, fr := range c.Frames {
		finishedBefore := len(decoders)
		var err error
		var before, after runtime.MemStats
		runtime.ReadMemStats(&before)
		msg, stack := catchPanic(func() {
			err = p.Add(fr, func(h *parser.PacketHeader, ev string, d parser.Decode) {
				decoders = append(decoders, d)
				headers = append(headers, h)
			})
		})
		runtime.ReadMemStats(&after)
		if grown := int64(after.TotalAlloc - before.TotalAlloc); msg == "" && grown > int64(len(fr))*64+(1<<20) {
			return fail("alloc-bound", fmt.Sprintf("Add(frame %d = %q, %d bytes) allocated %d bytes: a count declared by the peer drives the allocation", i, trunc(fr, 60), len(fr), grown)), res
		}
		if msg != "" {
			f := fail("no-panic", fmt.Sprintf("Add(frame %d = %q) panicked: %s", i, trunc(fr, 80), msg))
			f.Stack = stack
			return f, res
		}
		if err != nil {
			// Rejected: the connection would be closed. Nothing more to feed.
			waiting = false
			break
		}
		finished := len(decoders) > finishedBefore
		if !waiting {
			if !finished {
				// Add accepted the frame without completing a packet: it must be the header of a binary packet with a
				// representable, positive attachment count.
				text, isBin := declaredCount(fr)
				if !isBin {
					return fail("value-or-error", fmt.Sprintf("Add(%q) returned neither an error nor a packet", trunc(fr, 80))), res
				}
				n, ok := new(big.Int).SetString(text, 10)
				if !ok || n.Sign() <= 0 || !n.IsInt64() {
					return fail("unrepresentable-count-rejected", fmt.Sprintf("Add(%q) accepted a header whose attachment count %q is not a positive representable integer and now waits for attachments (it would swallow every later frame)",
						trunc(fr, 80), text)), res
				}
				waiting, waitingSince = true, i
				// If the count is small, the remaining frames of this case are extended so that completion can be checked.
				if n.Int64() <= 64 {
					need := int(n.Int64())
					have := len(c.Frames) - 1 - i
					if have < need {
						// feed synthetic attachments after the given frames
						extra := make([][]byte, need-have)
						for k := range extra {
							extra[k] = []byte{byte(k)}
						}
						c2 := c
						c2.Frames = append(append([][]byte{}, c.Frames...), extra...)
						f, r2 := evalC10(c2)
						if f != nil {
							f.Case = c
						}
						return f, r2
					}
				}
			}
		} else {
			if finished {
				text, _ := declaredCount(c.Frames[waitingSince])
				n, _ := new(big.Int).SetString(text, 10)
				if got := int64(i - waitingSince); n != nil && got != n.Int64() {
					return fail("attachment-count", fmt.Sprintf("packet with %s declared attachments completed after %d", text, got)), res
				}
				waiting = false
			} else {
				text, _ := declaredCount(c.Frames[waitingSince])
				n, _ := new(big.Int).SetString(text, 10)
				if n != nil && int64(i-waitingSince) >= n.Int64() {
					return fail("eventually-finishes", fmt.Sprintf("header declared %s attachments, %d were fed, finish was not called", text, i-waitingSince)), res
				}
			}
		}
	}
	// Decode every completed packet against every handler signature family: values or an error, never a panic.
	for di, d := range decoders {
		res.accepted = true
		for _, fam := range c10Families {
			var err error
			var vals []reflect.Value
			msg, stack := catchPanic(func() { vals, err = d(fam.Types...) })
			if msg != "" {
				f := fail("decode-no-panic", fmt.Sprintf("decode of packet %d (type %d) into %s panicked: %s", di, headers[di].Type, fam.Name, msg))
				f.Stack = stack
				return f, res
			}
			if err == nil && len(vals) != len(fam.Types) && headers[di].Type != parser.PacketTypeConnect && headers[di].Type != parser.PacketTypeDisconnect &&
				headers[di].Type != parser.PacketTypeConnectError {
				return fail("decode-value-or-error", fmt.Sprintf("decode into %s returned %d values and no error", fam.Name, len(vals))), res
			}
			// decode is called once per registered handler: a second call must behave the same way.
			var err2 error
			if msg, _ := catchPanic(func() { _, err2 = d(fam.Types...) }); msg != "" {
				return fail("decode-no-panic", fmt.Sprintf("second decode of packet %d into %s panicked: %s", di, fam.Name, msg)), res
			}
			if (err == nil) != (err2 == nil) {
				return fail("decode-repeatable", fmt.Sprintf("decode into %s: first call err=%v, second call err=%v", fam.Name, err, err2)), res
			}
		}
	}
	return nil, res
}

// ---- (1) exhaustive small strings --------------------------------------------------------------------------------

var c10Alphabet = []byte{'0', '2', '3', '5', '1', '-', '/', ',', '"', '[', '{', '\\'}

func TestC10_ExhaustiveSmall(t *testing.T) {
	maxLen := tierV(4, 6)
	ev := NewEv(t, "C10", c10Check+"-enum", fmt.Sprintf("exhaustive: every string of length <= %d over the 12 protocol-significant bytes %q as first frame, followed by 0..2 attachment frames, "+
		"each completed packet decoded against %d handler signature families; non-trivial = input that passes the type byte (reaches namespace/id/JSON/placeholder handling)",
		maxLen, string(c10Alphabet), len(c10Families)))
	ev.Exhaustive()
	reported := map[string]bool{}
	idx := 0
	var rec func(prefix []byte)
	run := func(s []byte) {
		idx++
		if !mine(idx) {
			return
		}
		for extra := 0; extra <= 2; extra++ {
			c := c10Case{Frames: [][]byte{append([]byte{}, s...)}, Binary: []bool{false}, Origin: "enum"}
			for k := 0; k < extra; k++ {
				c.Frames = append(c.Frames, []byte{0xDE, 0xAD})
				c.Binary = append(c.Binary, true)
			}
			f, r := evalC10(c)
			ev.Case(string(s)+fmt.Sprint(extra), r.reachedBody)
			if r.accepted {
				ev.Class("accepted", 1)
				ev.Sample(fmt.Sprint(len(s)), map[string]any{"first_frame": string(s), "attachments": extra})
			}
			if f != nil && !reported[f.Sig()] {
				reported[f.Sig()] = true
				Report(t, *f)
			}
		}
	}
	rec = func(prefix []byte) {
		run(prefix)
		if len(prefix) == maxLen {
			return
		}
		for _, b := range c10Alphabet {
			rec(append(prefix, b))
		}
	}
	rec(nil)
}

// ---- (2) grammar-aware mutation of valid packets -------------------------------------------------------------------------

var c10HostileCounts = []string{"0", "1", "2", "50000000", "1000000", "18446744073709551615", "9223372036854775808", "9223372036854775807", "4294967296", "99999999999999999999999", "-1", "x", "", "1e3", "01", " 1", "+1"}

var c10HostileNums = []string{"-1", "-2", "-5", "1", "2", "99", "2147483648", "4294967295", "9223372036854775807", "1e300", "-1e300", "1.5", "\"x\"", "null", "true", "[]", "{}", "-0", "0.999", "1e-9"}

func genC10Mutated(t *rapid.T) c10Case {
	base := genC09Case(t)
	// Encode the valid packet with the reference codec's view of the library's own encoder: use the real encoder (its output is
	// checked by C09); a failure to encode just yields a raw-bytes case.
	var frames [][]byte
	func() {
		defer func() { _ = recover() }()
		hdr := &parser.PacketHeader{Type: parser.PacketType(base.Type), Namespace: base.Nsp}
		if base.HasID {
			id := base.ID
			hdr.ID = &id
		}
		args := make([]any, 0, len(base.Args)+1)
		if base.Type == 2 {
			args = append(args, base.Event)
		}
		for _, a := range base.Args {
			args = append(args, a.value())
		}
		var v any = &args
		if base.Type != 2 && base.Type != 3 {
			v = nil
			if len(base.Args) == 1 {
				m := base.Args[0].value().(map[string]any)
				v = &m
			}
		}
		frames, _ = newSIOParser().Encode(hdr, v)
	}()
	if len(frames) == 0 {
		frames = [][]byte{[]byte(`2["a"]`)}
	}
	for i := range frames {
		frames[i] = append([]byte{}, frames[i]...)
	}
	origin := "mutated"
	nm := rapid.IntRange(1, 3).Draw(t, "mutations")
	for m := 0; m < nm; m++ {
		f0 := frames[0]
		switch rapid.IntRange(0, 11).Draw(t, "mut") {
		case 0: // truncate the text frame anywhere
			frames[0] = f0[:rapid.IntRange(0, len(f0)).Draw(t, "cut")]
		case 1: // attachment count
			if len(f0) > 0 && (f0[0] == '5' || f0[0] == '6') {
				if i := strings.IndexByte(string(f0), '-'); i > 0 {
					cnt := rapid.SampledFrom(c10HostileCounts).Draw(t, "count")
					frames[0] = append(append([]byte{f0[0]}, cnt...), f0[i:]...)
				}
			} else if len(f0) > 0 {
				// turn a plain packet into a binary one with a hostile count
				cnt := rapid.SampledFrom(c10HostileCounts).Draw(t, "count")
				typ := byte('5')
				if f0[0] == '3' {
					typ = '6'
				}
				frames[0] = append(append([]byte{typ}, (cnt+"-")...), f0[1:]...)
			}
		case 2: // placeholder num
			s := string(f0)
			if i := strings.Index(s, `"num":`); i >= 0 {
				j := i + len(`"num":`)
				k := j
				for k < len(s) && s[k] != '}' && s[k] != ',' {
					k++
				}
				frames[0] = []byte(s[:j] + rapid.SampledFrom(c10HostileNums).Draw(t, "num") + s[k:])
			} else {
				// inject a placeholder into a packet that has none
				ph := fmt.Sprintf(`{"_placeholder":true,"num":%s}`, rapid.SampledFrom(c10HostileNums).Draw(t, "num"))
				if i := strings.LastIndexByte(s, ']'); i >= 0 {
					sep := ","
					if i > 0 && s[i-1] == '[' {
						sep = ""
					}
					frames[0] = []byte(s[:i] + sep + ph + s[i:])
				}
			}
		case 3: // _placeholder flag
			s := string(f0)
			frames[0] = []byte(strings.Replace(s, `"_placeholder":true`, `"_placeholder":`+rapid.SampledFrom([]string{"false", `"yes"`, "1", "null"}).Draw(t, "flag"), 1))
		case 4: // drop a frame
			if len(frames) > 1 {
				i := rapid.IntRange(0, len(frames)-1).Draw(t, "drop")
				frames = append(frames[:i], frames[i+1:]...)
			}
		case 5: // duplicate a frame
			i := rapid.IntRange(0, len(frames)-1).Draw(t, "dup")
			frames = append(frames[:i+1], frames[i:]...)
		case 6: // reorder
			if len(frames) > 1 {
				i := rapid.IntRange(0, len(frames)-2).Draw(t, "swap")
				frames[i], frames[i+1] = frames[i+1], frames[i]
			}
		case 7: // namespace without comma
			if len(f0) > 0 {
				frames[0] = append([]byte{f0[0]}, []byte("/"+rapid.SampledFrom([]string{"abc", "", "a[", "a\"", "1", "a-", "/"}).Draw(t, "nsp"))...)
			}
		case 8: // id overflow
			if len(f0) > 0 {
				frames[0] = append(append([]byte{f0[0]}, rapid.SampledFrom([]string{"18446744073709551616", "99999999999999999999999999", "18446744073709551615", "0000000000000000000000001"}).Draw(t, "id")...), f0[1:]...)
			}
		case 9: // unterminated / odd event name
			if len(f0) > 0 {
				frames[0] = append([]byte{f0[0]}, rapid.SampledFrom([]string{`["a`, `["a\"]`, `["a\`, `[1]`, `[]`, `{}`, `"a"`, `[null]`, `[["a"]]`, `["a",`, `["\ud800"]`, `["a"]]`, `[ "a" ]`, ` ["a"]`}).Draw(t, "ev")...)
			}
		case 10: // overwrite a byte
			if len(f0) > 0 {
				i := rapid.IntRange(0, len(f0)-1).Draw(t, "pos")
				frames[0][i] = rapid.SampledFrom([]byte{'"', '\\', '[', ']', '{', '}', ',', '-', '/', '0', '9', 0, 0xff}).Draw(t, "byte")
			}
		case 11: // type byte
			if len(f0) > 0 {
				frames[0][0] = rapid.SampledFrom([]byte{'0', '1', '2', '3', '4', '5', '6', '7', '9', 'b', 0}).Draw(t, "type")
			}
		}
		if len(frames) == 0 {
			frames = [][]byte{{}}
		}
	}
	c := c10Case{Frames: frames, Origin: origin}
	for i := range frames {
		c.Binary = append(c.Binary, i > 0)
	}
	return c
}

func TestC10_Mutated(t *testing.T) {
	ev := NewEv(t, "C10", c10Check, fmt.Sprintf("rapid: valid packets (C09's generator, real encoder) with 1..3 grammar-aware mutations: truncation, attachment count in {huge, 2^63, 2^64-1, "+
		"non-numeric, empty}, placeholder num in {-1,-5,out of range,2^31,1e300,string,1.5}, _placeholder flag, dropped/duplicated/reordered frames, namespace without comma, "+
		"ack id overflow, odd event names, byte overwrites; each completed packet decoded twice against %d handler signature families; "+
		"non-trivial = input that passes the type byte", len(c10Families)))
	rapidGuard(t, "C10", c10Check)
	runRapid(t, c10Check, tierN(20000, 1000000), func(t *rapid.T) {
		c := genC10Mutated(t)
		f, r := evalC10(c)
		cls := "rejected"
		if r.accepted {
			cls = "accepted"
		}
		ev.Case(c, r.reachedBody, cls)
		if r.reachedBody {
			ev.Sample(cls, sampleOf(map[string]any{"frames": framesAsStrings(c.Frames)}))
		}
		if f != nil {
			FailRapid(t, *f)
		}
	})
}

func framesAsStrings(fs [][]byte) []string {
	out := make([]string, len(fs))
	for i, f := range fs {
		out[i] = string(f)
	}
	return out
}

// ---- (3) native fuzzing ----------------------------------------------------------------------------------------------

func FuzzC10(f *testing.F) {
	seeds := []string{`2["a"]`, `51-["e",{"_placeholder":true,"num":0}]`, `0/abc`, `51-["e",{"_placeholder":true,"num":-5}]`, `518446744073709551615-["e"]`,
		`62-/n,7[{"_placeholder":true,"num":1},{"num":0,"_placeholder":true}]`, `3/a,12["x"]`, `0{"sid":"x"}`, `4{"message":"no"}`, `1/a,`, `52-["a",{"a":[{"_placeholder":true,"num":1}]}]`}
	for _, s := range seeds {
		f.Add([]byte(s), []byte("att"), uint8(1))
	}
	f.Fuzz(func(t *testing.T, first []byte, att []byte, n uint8) {
		c := c10Case{Frames: [][]byte{first}, Binary: []bool{false}, Origin: "fuzz"}
		for i := 0; i < int(n%4); i++ {
			c.Frames = append(c.Frames, att)
			c.Binary = append(c.Binary, true)
		}
		if fl, _ := evalC10(c); fl != nil {
			emitFailure(fl)
			t.Fatal(fl.Detail)
		}
	})
}

func FuzzC09(f *testing.F) {
	f.Fuzz(rapid.MakeFuzz(func(t *rapid.T) {
		c := genC09Case(t)
		if fl := evalC09(c); fl != nil {
			emitFailure(fl)
			t.Fatalf("%s", fl.Detail)
		}
	}))
}

func init() {
	registerReplay(c10Check, func(raw json.RawMessage) *Failure {
		f, _ := evalC10(decodeCase[c10Case](raw))
		return f
	})
}
