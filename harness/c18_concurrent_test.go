//go:build verif

package harness

import (
	"encoding/json"
	"fmt"
	sio "github.com/karagenc/socket.io-go"
	"sync"
	"sync/atomic"
	"testing"
	"time"

	"pgregory.net/rapid"
)

// c18-off-concurrent: an Off call that names handlers, running at the same time as another call on the same registry.
//
// The calls of a round are chosen so that they commute: the Off call names handlers h3..h6, the other goroutine registers, removes
// or consumes h0..h2. Whatever the order in which the registry serves them, the state afterwards is the same, so the reference
// model needs no knowledge of the schedule: "Off removes exactly that handler and no other ... nor disturbs the remaining handlers"
// and "Once at most one occurrence" give one expected count per handler and occurrence.
// The registry is pre-filled with many registrations of one filler handler: an Off call compares what it names against every
// registration, so the call lasts long enough for the other goroutine (started after a generated delay) to fall inside it.

const c18CheckConc = "c18-off-concurrent"

type c18ConcRound struct {
	Named []int  `json:"named"` // handlers the Off call names (from 3..6); h3 is registered, the others are absent
	Other string `json:"other"` // what the second goroutine does: on | once | off | occur-once | occur-on | offall-other-event
	Spins int    `json:"spins"` // busy iterations before the second goroutine's call
}

type c18ConcCase struct {
	Registry string         `json:"registry"`
	Fillers  int            `json:"fillers"`
	Rounds   []c18ConcRound `json:"rounds"`
}

var c18Spin atomic.Int64

func evalC18Conc(c c18ConcCase) *Failure {
	fail := func(clause, detail string) *Failure {
		return &Failure{Property: "C18", Check: c18CheckConc, Clause: clause, Class: c.Registry, Detail: detail, Case: c}
	}
	journal(c18CheckConc, c.Registry, c)
	var res *Failure
	msg := runRig(rigOpts{}, func(r *rig) {
		reg, problem := buildC18(r, c.Registry)
		if reg == nil || reg.fire == nil {
			res = fail("rig", "no registry: "+problem)
			return
		}
		ev := reg.events[0]
		for i := 0; i < c.Fillers; i++ {
			reg.on(ev, 7)
		}
		c18take()
		counts := func() map[int]int {
			m := map[int]int{}
			for _, h := range c18take() {
				m[h]++
			}
			return m
		}
		for ri, rd := range c.Rounds {
			if res != nil {
				return
			}
			tick()
			where := func(s string) string {
				return fmt.Sprintf("round %d (Off(%s, h%v) at the same time as %s, %d other registrations present): %s", ri, ev, rd.Named, rd.Other, c.Fillers, s)
			}
			named3 := false
			for _, h := range rd.Named {
				named3 = named3 || h == 3
			}
			reg.on(ev, 3)
			switch rd.Other {
			case "off":
				reg.on(ev, 0)
			case "occur-once":
				reg.once(ev, 2)
			}
			var wg sync.WaitGroup
			start := make(chan struct{})
			var pm1, pm2 string
			wg.Add(2)
			go func() {
				defer wg.Done()
				<-start
				pm1, _ = catchPanic(func() { reg.off(ev, rd.Named) })
			}()
			go func() {
				defer wg.Done()
				<-start
				for i := 0; i < rd.Spins; i++ {
					c18Spin.Add(1)
				}
				pm2, _ = catchPanic(func() {
					switch rd.Other {
					case "on":
						reg.on(ev, 0)
					case "once":
						reg.once(ev, 1)
					case "off":
						reg.off(ev, []int{0})
					case "occur-once", "occur-on":
						reg.fire(ev)
					}
				})
			}()
			close(start)
			wg.Wait()
			settle(0)
			if pm1 != "" || pm2 != "" {
				res = fail("no-panic", where("panicked: "+pm1+pm2))
				return
			}
			raced := counts()
			if rd.Other == "occur-once" || rd.Other == "occur-on" {
				if raced[7] != c.Fillers {
					res = fail("others-undisturbed", where(fmt.Sprintf("the occurrence ran the On handler that nobody removed %d times, it is registered %d times", raced[7], c.Fillers)))
					return
				}
				if !named3 && raced[3] != 1 || raced[3] > 1 {
					res = fail("others-undisturbed", where(fmt.Sprintf("the occurrence ran the On handler h3 %d times", raced[3])))
					return
				}
				if rd.Other == "occur-once" && raced[2] != 1 {
					res = fail("once-at-most-once", where(fmt.Sprintf("the occurrence ran the Once handler h2, which the Off call does not name, %d times", raced[2])))
					return
				}
			}
			for occ := 0; occ < 2 && res == nil; occ++ {
				if reg.occur(ev, 1) != 1 {
					res = fail("rig", where("no occurrence"))
					return
				}
				got := counts()
				want := map[int]int{7: c.Fillers}
				if !named3 {
					want[3] = 1
				}
				switch rd.Other {
				case "on":
					want[0] = 1
				case "once":
					if occ == 0 {
						want[1] = 1
					}
				}
				for h := 0; h <= 7; h++ {
					if got[h] == want[h] {
						continue
					}
					clause, what := "off-removes-exactly-what-it-names", ""
					switch {
					case h == 7:
						clause, what = "others-undisturbed", "the On handler that nobody removed"
					case h == 3 && named3:
						what = "the On handler h3 that the Off call named"
					case h == 3:
						clause, what = "others-undisturbed", "the On handler h3 that nobody named"
					case h == 0 && rd.Other == "on":
						clause, what = "on-every-time", "the On handler h0 registered by the second goroutine"
					case h == 0 && rd.Other == "off":
						what = "the On handler h0 removed by the second goroutine"
					case h == 1:
						clause, what = "once-at-most-once", "the Once handler h1 registered by the second goroutine"
					case h == 2:
						clause, what = "once-at-most-once", "the Once handler h2 that the racing occurrence had already run"
					default:
						what = fmt.Sprintf("h%d, never registered", h)
					}
					res = fail(clause, where(fmt.Sprintf("occurrence %d after both calls returned ran %s %d times, want %d", occ+1, what, got[h], want[h])))
					break
				}
			}
			reg.off(ev, []int{0, 1, 2, 3, 4, 5, 6})
		}
	})
	if res == nil && msg != "" && !isBubbleDeadlock(msg) {
		res = fail("bubble-panic", "synctest: "+msg)
	}
	return res
}

func TestC18_OffConcurrent(t *testing.T) {
	setT(t)
	defer startWatchdog(t, 90*1e9)()
	ev := NewEv(t, "C18", c18CheckConc, "rounds of two simultaneous calls on one registry (five registries through the public API): Off naming 1..4 handlers (one registered, the others absent) "+
		"against On / Once / Off of another handler / an occurrence with a Once handler pending / an occurrence, the second call delayed by a generated number of busy iterations, "+
		"the registry pre-filled with 300..20000 registrations so that the Off call lasts; the two calls commute, so the oracle is the sequential model: in the racing occurrence and in two "+
		"occurrences afterwards every handler runs exactly as often as it is registered; non-trivial = every case")
	rapidGuard(t, "C18", c18CheckConc)
	runRapid(t, c18CheckConc, tierN(400, 6000), func(t *rapid.T) {
		c := c18ConcCase{
			Registry: rapid.SampledFrom([]string{"namespace-connection", "server-any-connection", "namespace-events", "server-socket-events", "client-socket-events"}).Draw(t, "registry"),
			Fillers:  rapid.SampledFrom([]int{300, 2000, 6000, 20000}).Draw(t, "fillers"),
		}
		n := rapid.IntRange(4, 24).Draw(t, "rounds")
		for i := 0; i < n; i++ {
			rd := c18ConcRound{Other: rapid.SampledFrom([]string{"on", "once", "off", "occur-once", "occur-on"}).Draw(t, "other"),
				Spins: rapid.SampledFrom([]int{0, 50, 200, 1000, 5000, 20000}).Draw(t, "spins")}
			for h := 3; h <= 6; h++ {
				if rapid.Bool().Draw(t, "named") {
					rd.Named = append(rd.Named, h)
				}
			}
			if len(rd.Named) == 0 {
				rd.Named = []int{4, 5, 6}
			}
			c.Rounds = append(c.Rounds, rd)
		}
		ev.Case(c, true, c.Registry)
		ev.Sample(c.Registry, c)
		if f := evalC18Conc(c); f != nil {
			FailRapid(t, *f)
		}
	})
}

func init() {
	registerReplay(c18CheckConc, func(raw json.RawMessage) *Failure { return evalC18Conc(decodeCase[c18ConcCase](raw)) })
}

// ---- removal of all handlers from inside a handler ---------------------------------------------------------------------------------

const c18CheckReent = "c18-off-inside-handler"

type c18ReentCase struct {
	Kind   string `json:"kind"`   // namespace-connection | server-any-connection | client-connect
	Before int    `json:"before"` // On handlers registered before the one that removes
	After  int    `json:"after"`  // On handlers registered after it (still to run when it removes)
	Action string `json:"action"` // off (the Off method without a handler) | offall | replace (Off without a handler, then On(new))
	Occs   int    `json:"occs"`
}

func evalC18Reent(c c18ReentCase) *Failure {
	fail := func(clause, detail string) *Failure {
		return &Failure{Property: "C18", Check: c18CheckReent, Clause: clause, Class: c.Kind, Detail: detail, Case: c}
	}
	journal(c18CheckReent, c.Kind, c)
	var res *Failure
	msg := runRig(rigOpts{}, func(r *rig) {
		nsp := r.Server.Of("/")
		cli := r.manager([]string{"websocket"}, nil).Socket("/", nil)
		// on registers handler number h; remover registers the handler that removes everything when it runs
		var on func(h int)
		var remove func()
		switch c.Kind {
		case "namespace-connection":
			on = func(h int) { nsp.OnConnection(func(sio.ServerSocket) { c18rec(h) }) }
			remove = func() {
				if c.Action == "offall" {
					nsp.OffAll()
				} else {
					nsp.OffConnection()
				}
			}
		case "server-any-connection":
			on = func(h int) { r.Server.OnAnyConnection(func(string, sio.ServerSocket) { c18rec(h) }) }
			remove = func() { r.Server.OffAnyConnection() }
		default:
			on = func(h int) { cli.OnConnect(func() { c18rec(h) }) }
			remove = func() {
				if c.Action == "offall" {
					cli.OffAll()
				} else {
					cli.OffConnect()
				}
			}
		}
		remover := func() {
			c18rec(100)
			if pm, _ := catchPanic(remove); pm != "" {
				c18rec(999)
			}
			if c.Action == "replace" {
				on(50)
			}
		}
		for h := 0; h < c.Before; h++ {
			on(h)
		}
		switch c.Kind {
		case "namespace-connection":
			nsp.OnConnection(func(sio.ServerSocket) { remover() })
		case "server-any-connection":
			r.Server.OnAnyConnection(func(string, sio.ServerSocket) { remover() })
		default:
			cli.OnConnect(remover)
		}
		for h := 0; h < c.After; h++ {
			on(10 + h)
		}
		c18take()
		for occ := 1; occ <= c.Occs && res == nil; occ++ {
			tick()
			if c.Kind == "client-connect" {
				if occ > 1 {
					cli.Disconnect()
					settle(100 * time.Millisecond)
				}
				cli.Connect()
			} else {
				r.manager([]string{"websocket"}, nil).Socket("/", nil).Connect()
			}
			settle(time.Second)
			got := map[int]int{}
			for _, h := range c18take() {
				got[h]++
			}
			if got[999] > 0 {
				res = fail("no-panic", fmt.Sprintf("occurrence %d: the removal of all handlers, called from inside a handler, panicked", occ))
				return
			}
			if occ == 1 {
				// the occurrence during which the removal happens: what ran before it ran once; what was still to run may or may not
				for h := 0; h < c.Before; h++ {
					if got[h] != 1 {
						res = fail("on-every-time", fmt.Sprintf("occurrence 1: handler %d, registered before the removing one, ran %d times (ran %v)", h, got[h], got))
						return
					}
				}
				if got[100] != 1 {
					res = fail("on-every-time", fmt.Sprintf("occurrence 1: the removing handler ran %d times (ran %v)", got[100], got))
					return
				}
				for h, n := range got {
					if n > 1 {
						res = fail("on-every-time", fmt.Sprintf("occurrence 1: handler %d ran %d times (ran %v)", h, n, got))
						return
					}
				}
				continue
			}
			want := map[int]int{}
			if c.Action == "replace" {
				want[50] = 1
			}
			for h := range got {
				if got[h] != want[h] {
					res = fail("off-removes-exactly-what-it-names", fmt.Sprintf("occurrence %d, after all handlers were removed from inside a handler during occurrence 1: ran %v, want %v", occ, got, want))
					return
				}
			}
			if c.Action == "replace" && got[50] != 1 {
				res = fail("on-every-time", fmt.Sprintf("occurrence %d: the handler registered right after the removal ran %d times", occ, got[50]))
				return
			}
		}
	})
	if res == nil && msg != "" && !isBubbleDeadlock(msg) {
		res = fail("bubble-panic", "synctest: "+msg)
	}
	return res
}

func TestC18_OffInsideHandler(t *testing.T) {
	setT(t)
	defer startWatchdog(t, 90*1e9)()
	ev := NewEv(t, "C18", c18CheckReent, "the Off method without a handler / OffAll / Off then On(new), called from inside a handler while the occurrence is being delivered, with 0..2 On handlers "+
		"registered before it and 1..3 after it (still to run), on Namespace.OnConnection, Server.OnAnyConnection and ClientSocket.OnConnect, 2..3 real occurrences; oracle: nothing panics or crashes, what ran before "+
		"the removal ran once, and from the next occurrence on exactly the handlers registered after the removal run; non-trivial = every case")
	rapidGuard(t, "C18", c18CheckReent)
	runRapid(t, c18CheckReent, tierN(300, 4000), func(t *rapid.T) {
		c := c18ReentCase{Kind: rapid.SampledFrom([]string{"namespace-connection", "server-any-connection", "client-connect"}).Draw(t, "kind"),
			Before: rapid.IntRange(0, 2).Draw(t, "before"), After: rapid.IntRange(1, 3).Draw(t, "after"),
			Action: rapid.SampledFrom([]string{"off", "offall", "replace"}).Draw(t, "action"), Occs: rapid.IntRange(2, 3).Draw(t, "occs")}
		ev.Case(c, true, c.Kind)
		ev.Sample(c.Kind, c)
		if f := evalC18Reent(c); f != nil {
			FailRapid(t, *f)
		}
	})
}

func init() {
	registerReplay(c18CheckReent, func(raw json.RawMessage) *Failure { return evalC18Reent(decodeCase[c18ReentCase](raw)) })
}
