//go:build verif

package harness

import (
	"encoding/json"
	"fmt"
	"sync"
	"sync/atomic"
	"testing"

	"pgregory.net/rapid"
)

// c18-off-concurrent: an Off call that names handlers, running at the same time as another call on the same registry.
//
// The calls of a round are chosen so that they commute: the Off call names handlers h3..h6, the other goroutine registers, removes
// or consumes h0..h2. Whatever the order in which the registry serves them, the state afterwards is the same, so the reference
// model needs no knowledge of the schedule: "Off removes exactly that handler and no other ... nor disturbs the remaining handlers"
// and "Once at most one occurrence" give one expected count per handler and occurrence.
// The registry is pre-filled with many registrations of one filler handler: an Off call compares what it names against every
// registration, so the call lasts long enough for the other goroutine (started after a generated delay) to fall inside it.

const c18CheckConc = "c18-off-concurrent"

type c18ConcRound struct {
	Named []int  `json:"named"` // handlers the Off call names (from 3..6); h3 is registered, the others are absent
	Other string `json:"other"` // what the second goroutine does: on | once | off | occur-once | occur-on | offall-other-event
	Spins int    `json:"spins"` // busy iterations before the second goroutine's call
}

type c18ConcCase struct {
	Registry string         `json:"registry"`
	Fillers  int            `json:"fillers"`
	Rounds   []c18ConcRound `json:"rounds"`
}

var c18Spin atomic.Int64

func evalC18Conc(c c18ConcCase) *Failure {
	fail := func(clause, detail string) *Failure {
		return &Failure{Property: "C18", Check: c18CheckConc, Clause: clause, Class: c.Registry, Detail: detail, Case: c}
	}
	journal(c18CheckConc, c.Registry, c)
	var res *Failure
	msg := runRig(rigOpts{}, func(r *rig) {
		reg, problem := buildC18(r, c.Registry)
		if reg == nil || reg.fire == nil {
			res = fail("rig", "no registry: "+problem)
			return
		}
		ev := reg.events[0]
		for i := 0; i < c.Fillers; i++ {
			reg.on(ev, 7)
		}
		c18take()
		counts := func() map[int]int {
			m := map[int]int{}
			for _, h := range c18take() {
				m[h]++
			}
			return m
		}
		for ri, rd := range c.Rounds {
			if res != nil {
				return
			}
			tick()
			where := func(s string) string {
				return fmt.Sprintf("round %d (Off(%s, h%v) at the same time as %s, %d other registrations present): %s", ri, ev, rd.Named, rd.Other, c.Fillers, s)
			}
			named3 := false
			for _, h := range rd.Named {
				named3 = named3 || h == 3
			}
			reg.on(ev, 3)
			switch rd.Other {
			case "off":
				reg.on(ev, 0)
			case "occur-once":
				reg.once(ev, 2)
			}
			var wg sync.WaitGroup
			start := make(chan struct{})
			var pm1, pm2 string
			wg.Add(2)
			go func() {
				defer wg.Done()
				<-start
				pm1, _ = catchPanic(func() { reg.off(ev, rd.Named) })
			}()
			go func() {
				defer wg.Done()
				<-start
				for i := 0; i < rd.Spins; i++ {
					c18Spin.Add(1)
				}
				pm2, _ = catchPanic(func() {
					switch rd.Other {
					case "on":
						reg.on(ev, 0)
					case "once":
						reg.once(ev, 1)
					case "off":
						reg.off(ev, []int{0})
					case "occur-once", "occur-on":
						reg.fire(ev)
					}
				})
			}()
			close(start)
			wg.Wait()
			settle(0)
			if pm1 != "" || pm2 != "" {
				res = fail("no-panic", where("panicked: "+pm1+pm2))
				return
			}
			raced := counts()
			if rd.Other == "occur-once" || rd.Other == "occur-on" {
				if raced[7] != c.Fillers {
					res = fail("others-undisturbed", where(fmt.Sprintf("the occurrence ran the On handler that nobody removed %d times, it is registered %d times", raced[7], c.Fillers)))
					return
				}
				if !named3 && raced[3] != 1 || raced[3] > 1 {
					res = fail("others-undisturbed", where(fmt.Sprintf("the occurrence ran the On handler h3 %d times", raced[3])))
					return
				}
				if rd.Other == "occur-once" && raced[2] != 1 {
					res = fail("once-at-most-once", where(fmt.Sprintf("the occurrence ran the Once handler h2, which the Off call does not name, %d times", raced[2])))
					return
				}
			}
			for occ := 0; occ < 2 && res == nil; occ++ {
				if reg.occur(ev, 1) != 1 {
					res = fail("rig", where("no occurrence"))
					return
				}
				got := counts()
				want := map[int]int{7: c.Fillers}
				if !named3 {
					want[3] = 1
				}
				switch rd.Other {
				case "on":
					want[0] = 1
				case "once":
					if occ == 0 {
						want[1] = 1
					}
				}
				for h := 0; h <= 7; h++ {
					if got[h] == want[h] {
						continue
					}
					clause, what := "off-removes-exactly-what-it-names", ""
					switch {
					case h == 7:
						clause, what = "others-undisturbed", "the On handler that nobody removed"
					case h == 3 && named3:
						what = "the On handler h3 that the Off call named"
					case h == 3:
						clause, what = "others-undisturbed", "the On handler h3 that nobody named"
					case h == 0 && rd.Other == "on":
						clause, what = "on-every-time", "the On handler h0 registered by the second goroutine"
					case h == 0 && rd.Other == "off":
						what = "the On handler h0 removed by the second goroutine"
					case h == 1:
						clause, what = "once-at-most-once", "the Once handler h1 registered by the second goroutine"
					case h == 2:
						clause, what = "once-at-most-once", "the Once handler h2 that the racing occurrence had already run"
					default:
						what = fmt.Sprintf("h%d, never registered", h)
					}
					res = fail(clause, where(fmt.Sprintf("occurrence %d after both calls returned ran %s %d times, want %d", occ+1, what, got[h], want[h])))
					break
				}
			}
			reg.off(ev, []int{0, 1, 2, 3, 4, 5, 6})
		}
	})
	if res == nil && msg != "" && !isBubbleDeadlock(msg) {
		res = fail("bubble-panic", "synctest: "+msg)
	}
	return res
}

func TestC18_OffConcurrent(t *testing.T) {
	setT(t)
	defer startWatchdog(t, 90*1e9)()
	ev := NewEv(t, "C18", c18CheckConc, "rounds of two simultaneous calls on one registry (five registries through the public API): Off naming 1..4 handlers (one registered, the others absent) "+
		"against On / Once / Off of another handler / an occurrence with a Once handler pending / an occurrence, the second call delayed by a generated number of busy iterations, "+
		"the registry pre-filled with 300..20000 registrations so that the Off call lasts; the two calls commute, so the oracle is the sequential model: in the racing occurrence and in two "+
		"occurrences afterwards every handler runs exactly as often as it is registered; non-trivial = every case")
	rapidGuard(t, "C18", c18CheckConc)
	runRapid(t, c18CheckConc, tierN(400, 6000), func(t *rapid.T) {
		c := c18ConcCase{
			Registry: rapid.SampledFrom([]string{"namespace-connection", "server-any-connection", "namespace-events", "server-socket-events", "client-socket-events"}).Draw(t, "registry"),
			Fillers:  rapid.SampledFrom([]int{300, 2000, 6000, 20000}).Draw(t, "fillers"),
		}
		n := rapid.IntRange(4, 24).Draw(t, "rounds")
		for i := 0; i < n; i++ {
			rd := c18ConcRound{Other: rapid.SampledFrom([]string{"on", "once", "off", "occur-once", "occur-on"}).Draw(t, "other"),
				Spins: rapid.SampledFrom([]int{0, 50, 200, 1000, 5000, 20000}).Draw(t, "spins")}
			for h := 3; h <= 6; h++ {
				if rapid.Bool().Draw(t, "named") {
					rd.Named = append(rd.Named, h)
				}
			}
			if len(rd.Named) == 0 {
				rd.Named = []int{4, 5, 6}
			}
			c.Rounds = append(c.Rounds, rd)
		}
		ev.Case(c, true, c.Registry)
		ev.Sample(c.Registry, c)
		if f := evalC18Conc(c); f != nil {
			FailRapid(t, *f)
		}
	})
}

func init() {
	registerReplay(c18CheckConc, func(raw json.RawMessage) *Failure { return evalC18Conc(decodeCase[c18ConcCase](raw)) })
}
