package harness

// C01 — every event emitted on a connected socket reaches the peer exactly once, intact. DESIGN.md §3 C01.
// Real server and 1..3 real clients over memnet in a bubble; events of ~20 schemas (event name + Go handler signature)
// in both directions from 1..4 concurrently emitting goroutines per side; oracle after quiescence and after two
// heartbeat periods of virtual time: per (receiver, event) the multiset of tokens received == emitted, arguments equal.

import (
	"encoding/json"
	"fmt"
	"reflect"
	"sort"
	"strings"
	"sync"
	"testing"
	"time"

	sio "github.com/karagenc/socket.io-go"
	"pgregory.net/rapid"

	"verif/harness/refcodec"
)

const c01Check = "c01-delivery"

// A schema is an event name with the handler signature registered for it on the receiving side. Every handler takes the
// emission token (int64) first.
type c01Schema struct {
	Event  string
	Shapes []string
}

var c01Schemas = []c01Schema{
	{"s", []string{"string"}}, {"i", []string{"int64"}}, {"u", []string{"uint64"}}, {"f", []string{"float64"}}, {"b", []string{"bool"}},
	{"bin", []string{"binary"}}, {"multi", []string{"int64", "string", "ints", "binary", "sliceany"}}, {"none", nil},
	{"st", []string{"pouter"}}, {"inner", []string{"inner"}}, {"pinner", []string{"pinner"}}, {"mapbin", []string{"mapbin"}}, {"mapany", []string{"mapany"}},
	{"a", []string{"string"}}, {"a ", []string{"string"}}, {"A", []string{"string"}}, {"ab", []string{"int64"}}, {"é", []string{"string"}},
	{"q\"\\", []string{"string"}}, {"bins", []string{"bins"}}, {"any", []string{"any"}}, {"strs", []string{"strs", "string"}}, {"two-bin", []string{"binary", "binary", "bool"}},
	{"big", []string{"binary"}}, {"bigs", []string{"string"}},
	{"loose", []string{"loose"}}, {"ploose", []string{"ploose", "int64"}},
}

func (s c01Schema) lastParamString() bool {
	return len(s.Shapes) > 0 && s.Shapes[len(s.Shapes)-1] == "string"
}

type c01Emit struct {
	Dir     string   `json:"dir"` // c2s | s2c
	Client  int      `json:"client"`
	Schema  int      `json:"schema"`
	Args    []valArg `json:"args"`
	Emitter int      `json:"emitter"` // goroutine (per side and client) that performs this emit
	Token   int64    `json:"token"`
}

type c01Case struct {
	Transport string    `json:"transport"` // polling | websocket | upgrade
	Recovery  bool      `json:"recovery"`
	MaxBuffer int64     `json:"max_buffer"` // 0 = default (1e6)
	Clients   int       `json:"clients"`
	DelayMs   int       `json:"delay_ms"` // virtual delay between connect and the first emit (lets emits fall into the upgrade)
	Gzip      bool      `json:"gzip"`     // the server sits behind a compression middleware (the polling client asks for gzip itself)
	Emits     []c01Emit `json:"emits"`
}

type c01Recv struct {
	event string
	token int64
	args  []refcodec.Tree
}

type c01Recorder struct {
	mu   sync.Mutex
	recv map[string][]c01Recv // receiver ("srv<i>" / "cli<i>") -> deliveries
	errs []string
}

func (r *c01Recorder) add(who string, v c01Recv) {
	r.mu.Lock()
	r.recv[who] = append(r.recv[who], v)
	r.mu.Unlock()
}

func (r *c01Recorder) err(s string) {
	r.mu.Lock()
	r.errs = append(r.errs, s)
	r.mu.Unlock()
}

var int64Type = reflect.TypeOf(int64(0))

// c01Handler builds func(tok int64, shapes...) recording the delivery.
func c01Handler(rec *c01Recorder, who string, sc c01Schema) any {
	in := []reflect.Type{int64Type}
	for _, s := range sc.Shapes {
		in = append(in, shapeByName(s).Type)
	}
	ft := reflect.FuncOf(in, nil, false)
	return reflect.MakeFunc(ft, func(args []reflect.Value) []reflect.Value {
		d := c01Recv{event: sc.Event, token: args[0].Int()}
		for _, a := range args[1:] {
			d.args = append(d.args, valueTree(a))
		}
		rec.add(who, d)
		return nil
	}).Interface()
}

func c01Transports(kind string) []string {
	switch kind {
	case "polling":
		return []string{"polling"}
	case "websocket":
		return []string{"websocket"}
	}
	return []string{"polling", "websocket"}
}

func (c c01Case) class() string {
	cls := c.Transport
	if c.Gzip {
		cls += ",gzip"
	}
	if c.Recovery {
		cls += ",recovery"
		for _, e := range c.Emits {
			if e.Dir == "s2c" && c01Schemas[e.Schema].lastParamString() {
				return "recovery,s2c-handler-last-param-string" // KF-C01-1
			}
		}
	}
	return cls
}

// c01FrameSize estimates the largest encoded Engine.IO frame of an emit on the given transport.
func c01BinMax(args []valArg) (maxBin, maxStr int) {
	var walk func(t refcodec.Tree)
	walk = func(t refcodec.Tree) {
		switch t.Kind {
		case "bin":
			maxBin = max(maxBin, len(t.Bin))
		case "str":
			maxStr = max(maxStr, len(t.Str))
		case "arr":
			for _, e := range t.Arr {
				walk(e)
			}
		case "obj":
			for _, e := range t.Obj {
				walk(e)
			}
		}
	}
	for _, a := range args {
		walk(a.Tree)
	}
	return
}

func evalC01(c c01Case) (f *Failure, nontrivial bool) {
	class := c.class()
	fail := func(clause, detail string) *Failure {
		return &Failure{Property: "C01", Check: c01Check, Clause: clause, Class: class, Detail: detail, Case: c}
	}
	journal(c01Check, class, c)
	var res *Failure
	rec := &c01Recorder{recv: map[string][]c01Recv{}}
	msg := runRig(rigOpts{Recovery: c.Recovery, MaxBuffer: c.MaxBuffer, Gzip: c.Gzip}, func(r *rig) {
		var mu sync.Mutex
		srvSockets := map[int]sio.ServerSocket{}
		serverDisconnects := []string{}
		r.Server.OnConnection(func(s sio.ServerSocket) {
			// the client announces its index first; handlers are registered before anything else can arrive
			who := make(chan int, 1)
			s.OnEvent("hello", func(i int) {
				mu.Lock()
				srvSockets[i] = s
				mu.Unlock()
				select {
				case who <- i:
				default:
				}
			})
			s.OnError(func(err error) { rec.err("server socket error: " + err.Error()) })
			s.OnDisconnect(func(reason sio.Reason) {
				mu.Lock()
				serverDisconnects = append(serverDisconnects, string(reason))
				mu.Unlock()
			})
			// receiver name is resolved lazily through the socket id
			id := s.ID()
			for _, sc := range c01Schemas {
				s.OnEvent(sc.Event, c01Handler(rec, "srv:"+string(id), sc))
			}
			// Connection handlers run concurrently with packet dispatch: only now can the client's events find their handlers.
			s.Emit("ready")
		})
		clients := make([]sio.ClientSocket, c.Clients)
		readySeen := map[int]int{}
		diag := map[string]int{}
		clientDisconnects := 0
		for i := range clients {
			i := i
			m := r.manager(c01Transports(c.Transport), nil)
			m.OnError(func(err error) { rec.err(fmt.Sprintf("client %d manager error: %v", i, err)) })
			m.OnOpen(func() { mu.Lock(); diag[fmt.Sprintf("mgr%d-open", i)]++; mu.Unlock() })
			m.OnClose(func(reason sio.Reason, err error) { mu.Lock(); diag[fmt.Sprintf("mgr%d-close:%s", i, reason)]++; mu.Unlock() })
			s := m.Socket("/", nil)
			for _, sc := range c01Schemas {
				s.OnEvent(sc.Event, c01Handler(rec, fmt.Sprintf("cli%d", i), sc))
			}
			s.OnDisconnect(func(sio.Reason) { mu.Lock(); clientDisconnects++; mu.Unlock() })
			s.OnConnect(func() { mu.Lock(); diag[fmt.Sprintf("cli%d-connect", i)]++; mu.Unlock() })
			s.OnConnectError(func(err any) { mu.Lock(); diag[fmt.Sprintf("cli%d-connect-error:%v", i, err)]++; mu.Unlock() })
			s.OnEvent("ready", func() { mu.Lock(); readySeen[i]++; mu.Unlock(); s.Emit("hello", i) })
			clients[i] = s
			s.Connect()
		}
		settle(0)
		if c.DelayMs > 0 {
			settle(time.Duration(c.DelayMs) * time.Millisecond)
		}
		mu.Lock()
		ready := len(srvSockets) == c.Clients
		socks := map[int]sio.ServerSocket{}
		for k, v := range srvSockets {
			socks[k] = v
		}
		mu.Unlock()
		connectedAtQ := make([]bool, len(clients))
		for i, s := range clients {
			connectedAtQ[i] = s.Connected()
			if !connectedAtQ[i] {
				ready = false
			}
		}
		if !ready {
			// The connect phase itself consists of events: the server emits "ready" from its connection handler (after registering its
			// handlers), the client answers "hello". Losing one of them on a connection that is up is a violation like any other loss.
			settle(90 * time.Second)
			mu.Lock()
			defer mu.Unlock()
			for i, s := range clients {
				if !s.Connected() {
					clause, what := "rig-connect", "did not connect"
					if diag[fmt.Sprintf("cli%d-connect", i)] > 0 {
						clause, what = "connection-stays-up", "connected and its connection was closed during the connect phase (events \"ready\"/\"hello\" emitted from the connection handlers)"
					}
					res = fail(clause, fmt.Sprintf("client %d %s (errors %v; client-side events %v; connected at first quiescence %v; server saw hello from %d, server disconnect reasons %v)",
						i, what, rec.errs, diag, connectedAtQ, len(srvSockets), serverDisconnects))
					return
				}
			}
			for i := range clients {
				if readySeen[i] == 0 {
					res = fail("nothing-lost", fmt.Sprintf("the event \"ready\" emitted by the server from its connection handler never reached the handler of connected client %d (errors %v)", i, rec.errs))
					return
				}
				if srvSockets[i] == nil {
					res = fail("nothing-lost", fmt.Sprintf("the event \"hello\" emitted by connected client %d from its \"ready\" handler never reached the server's handler (errors %v)", i, rec.errs))
					return
				}
			}
			res = fail("rig-connect", "connect phase incomplete for an unknown reason")
			return
		}
		// group emits by (dir, client, emitter): each group is one goroutine emitting in order
		groups := map[string][]c01Emit{}
		var order []string
		for _, e := range c.Emits {
			k := fmt.Sprintf("%s/%d/%d", e.Dir, e.Client, e.Emitter)
			if _, ok := groups[k]; !ok {
				order = append(order, k)
			}
			groups[k] = append(groups[k], e)
		}
		var wg sync.WaitGroup
		startGate := make(chan struct{})
		for _, k := range order {
			wg.Add(1)
			go func(es []c01Emit) {
				defer wg.Done()
				<-startGate
				for _, e := range es {
					tick()
					sc := c01Schemas[e.Schema]
					args := make([]any, 0, len(e.Args)+1)
					args = append(args, e.Token)
					for _, a := range e.Args {
						args = append(args, a.value())
					}
					var em sio.Socket = clients[e.Client]
					if e.Dir == "s2c" {
						em = socks[e.Client]
					}
					if pm, _ := catchPanic(func() { em.Emit(sc.Event, args...) }); pm != "" {
						rec.err(fmt.Sprintf("Emit(%q) panicked: %s", sc.Event, pm))
					}
				}
			}(groups[k])
		}
		close(startGate)
		wg.Wait()
		settle(0)
		// two heartbeat periods: a delayed packet (C19's subject) is not a lost one
		settle(2 * (25 + 20) * time.Second)

		// ---- oracle
		rec.mu.Lock()
		defer rec.mu.Unlock()
		mu.Lock()
		defer mu.Unlock()
		if len(rec.errs) > 0 {
			res = fail("no-error", fmt.Sprintf("%d error(s) were reported while only valid events within the limits were emitted: %s", len(rec.errs), strings.Join(rec.errs[:min(3, len(rec.errs))], " | ")))
			return
		}
		if len(serverDisconnects) > 0 || clientDisconnects > 0 {
			res = fail("connection-stays-up", fmt.Sprintf("a connection closed during the run (server-side reasons %v, client disconnects %d)", serverDisconnects, clientDisconnects))
			return
		}
		type key struct {
			who   string
			event string
		}
		want := map[key]map[int64]c01Emit{}
		for _, e := range c.Emits {
			who := fmt.Sprintf("cli%d", e.Client)
			if e.Dir == "c2s" {
				who = "srv:" + string(socks[e.Client].ID())
			}
			k := key{who, c01Schemas[e.Schema].Event}
			if want[k] == nil {
				want[k] = map[int64]c01Emit{}
			}
			want[k][e.Token] = e
		}
		seen := map[int64]int{}
		for who, ds := range rec.recv {
			for _, d := range ds {
				seen[d.token]++
				e, ok := want[key{who, d.event}][d.token]
				if !ok {
					res = fail("right-handler", fmt.Sprintf("receiver %s got token %d in the handler of event %q, where it was never emitted", who, d.token, d.event))
					return
				}
				if len(d.args) != len(e.Args) {
					res = fail("intact", fmt.Sprintf("token %d (%q): %d arguments received, %d emitted", d.token, d.event, len(d.args), len(e.Args)))
					return
				}
				for i := range d.args {
					if df := treeDiff(e.Args[i].Tree, d.args[i], fmt.Sprintf("$arg%d", i)); df != "" {
						res = fail("intact", fmt.Sprintf("token %d (event %q, %s): received argument differs from the emitted one at %s", d.token, d.event, e.Dir, df))
						return
					}
				}
			}
		}
		var lost, dup []string
		for _, e := range c.Emits {
			switch n := seen[e.Token]; {
			case n == 0:
				lost = append(lost, fmt.Sprintf("%d(%s %q)", e.Token, e.Dir, c01Schemas[e.Schema].Event))
			case n > 1:
				dup = append(dup, fmt.Sprintf("%d(%s %q x%d)", e.Token, e.Dir, c01Schemas[e.Schema].Event, n))
			}
		}
		sort.Strings(lost)
		if len(dup) > 0 {
			res = fail("exactly-once", fmt.Sprintf("%d event(s) delivered more than once: %v", len(dup), dup[:min(5, len(dup))]))
			return
		}
		if len(lost) > 0 {
			res = fail("nothing-lost", fmt.Sprintf("%d of %d event(s) never reached a handler: %v", len(lost), len(c.Emits), lost[:min(8, len(lost))]))
			return
		}
	})
	if res == nil && msg != "" && !isBubbleDeadlock(msg) {
		res = fail("bubble-panic", "synctest: "+msg)
	}
	// non-trivial: >= 1 attachment, or a frame >= 32 KiB, or >= 2 concurrent emitters on one connection
	emitters := map[string]map[int]bool{}
	for _, e := range c.Emits {
		k := fmt.Sprintf("%s/%d", e.Dir, e.Client)
		if emitters[k] == nil {
			emitters[k] = map[int]bool{}
		}
		emitters[k][e.Emitter] = true
		b, s := c01BinMax(e.Args)
		for _, a := range e.Args {
			if a.Tree.CountBin() > 0 {
				nontrivial = true
			}
		}
		if b >= 32768 || s >= 32768 {
			nontrivial = true
		}
	}
	for _, m := range emitters {
		if len(m) >= 2 {
			nontrivial = true
		}
	}
	return res, nontrivial
}

// ---- generator -----------------------------------------------------------------------------------------------------

var c01BigSizes = []int{0, 1, 125, 126, 4096, 32767, 32768, 32769, 40000, 65535, 65536, 65537, 100000, 200000, 700000}

// KF-C01-1: with recovery on, the Go client strips the last argument of a server->client event when it is a string.
func c01KF1Active() bool {
	return kfActive("KF-C01-1", func() (bool, string) {
		f, _ := evalC01(c01Case{Transport: "websocket", Recovery: true, Clients: 1, Emits: []c01Emit{{Dir: "s2c", Client: 0, Schema: 0, Token: 1,
			Args: []valArg{{Shape: "string", Tree: refcodec.Tree{Kind: "str", Str: "x"}}}}}})
		if f != nil {
			return true, f.Detail
		}
		return false, ""
	})
}

func genC01Case(t *rapid.T, kf1 bool, excluded *int64) c01Case {
	c := c01Case{
		Transport: rapid.SampledFrom([]string{"polling", "websocket", "upgrade"}).Draw(t, "transport"),
		Recovery:  rapid.IntRange(0, 3).Draw(t, "recovery") == 0,
		MaxBuffer: rapid.SampledFrom([]int64{0, 0, 65536, 262144}).Draw(t, "maxbuffer"),
		Clients:   rapid.IntRange(1, 3).Draw(t, "clients"),
		Gzip:      rapid.IntRange(0, 3).Draw(t, "gzip") == 0,
	}
	if c.Transport == "upgrade" {
		c.DelayMs = rapid.SampledFrom([]int{0, 0, 1, 5, 1000}).Draw(t, "delay")
	}
	limit := c.MaxBuffer
	if limit == 0 {
		limit = 1000000
	}
	n := rapid.IntRange(1, 24).Draw(t, "emits")
	emittersPerSide := rapid.IntRange(1, 4).Draw(t, "emitters")
	for i := 0; i < n; i++ {
		e := c01Emit{Dir: rapid.SampledFrom([]string{"c2s", "s2c"}).Draw(t, "dir"), Client: rapid.IntRange(0, c.Clients-1).Draw(t, "client"),
			Schema: rapid.IntRange(0, len(c01Schemas)-1).Draw(t, "schema"), Emitter: rapid.IntRange(0, emittersPerSide-1).Draw(t, "emitter"), Token: int64(i + 1)}
		sc := c01Schemas[e.Schema]
		if kf1 && c.Recovery && e.Dir == "s2c" && sc.lastParamString() {
			*excluded++
			e.Schema = 1 // "i": excluded by construction while KF-C01-1 is open
			sc = c01Schemas[e.Schema]
		}
		g := &valGen{maxBin: 64, allowBin: true, maxBins: 5}
		for _, shName := range sc.Shapes {
			sh := shapeByName(shName)
			var v any
			switch sc.Event {
			case "big":
				// one attachment of a boundary-biased size, kept within the announced limit on every transport (base64 on polling)
				sz := rapid.SampledFrom(c01BigSizes).Draw(t, "bigsize")
				if int64(sz)*4/3+64 > limit {
					sz = int((limit - 64) * 3 / 4)
				}
				pat := rapid.SliceOfN(rapid.Byte(), 1, 5).Draw(t, "pattern")
				b := make(Bin, sz)
				for k := range b {
					b[k] = pat[k%len(pat)]
				}
				v = b
			case "bigs":
				// sz is the ENCODED size aimed at (a quote or a backslash takes two bytes in JSON, é two bytes in UTF-8)
				sz := rapid.SampledFrom(c01BigSizes).Draw(t, "bigsize")
				if int64(sz)+64 > limit {
					sz = int(limit - 64)
				}
				ch := rapid.SampledFrom([]string{"a", "é", "\"", "\\"}).Draw(t, "bigchar")
				per := 2
				if ch == "a" {
					per = 1
				}
				v = strings.Repeat(ch, sz/per)
			default:
				v = sh.Gen(t, g)
			}
			e.Args = append(e.Args, valArg{Shape: shName, Tree: toTree(v)})
		}
		c.Emits = append(c.Emits, e)
	}
	return c
}

func isValidUTF8(s string) bool {
	for _, r := range s {
		if r == 0xFFFD {
			return false
		}
	}
	return true
}

func TestC01_Delivery(t *testing.T) {
	setT(t)
	defer startWatchdog(t, 90*time.Second)()
	ev := NewEv(t, "C01", c01Check, "rapid scenarios on the virtual-time rig: transport {polling, websocket, polling->websocket upgrade with emits falling into it}, recovery off/on, MaxBufferSize "+
		"{64 KiB, 256 KiB, default}, 1..3 clients, 1..24 events of 25 schemas (event name + Go handler signature: scalars, Binary, structs/pointers, maps, []any, any, look-alike names, "+
		"attachments and strings of boundary sizes 0..700000 around 32 KiB / 64 KiB) in both directions from 1..4 concurrent goroutines per side; oracle after quiescence + 2 heartbeat periods: "+
		"per (receiver socket, event) multiset of tokens == emitted, arguments tree-equal, no error handler fired, no connection closed; "+
		"non-trivial = >= 1 attachment, or a frame >= 32 KiB, or >= 2 concurrent emitters on one connection")
	rapidGuard(t, "C01", c01Check)
	kf1 := c01KF1Active()
	var excluded int64
	runRapid(t, c01Check, tierN(12000, 160000), func(t *rapid.T) {
		c := genC01Case(t, kf1, &excluded)
		f, nt := evalC01(c)
		ev.Case(c, nt, c.class(), fmt.Sprintf("clients=%d", c.Clients))
		if nt {
			ev.Sample(c.class(), sampleOf(c))
		}
		if f != nil {
			FailRapid(t, *f)
		}
	})
	for i := int64(0); i < excluded; i++ {
		ev.Excluded("KF-C01-1")
	}
}

func init() {
	registerReplay(c01Check, func(raw json.RawMessage) *Failure {
		f, _ := evalC01(decodeCase[c01Case](raw))
		return f
	})
}
