package harness

// C15 (order across a reconnection) — what one goroutine emits while the connection is lost and coming back is delivered in the order
// it was emitted: the offline backlog first, then what is emitted after the reconnection, with nothing overtaking. The peer is a
// hand-written Engine.IO endpoint that records the order in which EVENT packets arrive (the real server dispatches every packet on its
// own goroutine, which hides wire order). The producer keeps emitting in small chunks right through the moment at which the client
// flushes its backlog, so that the flush and an Emit really run in parallel.

import (
	"encoding/json"
	"fmt"
	"net/http"
	"regexp"
	"strconv"
	"strings"
	"sync"
	"testing"
	"time"

	sio "github.com/karagenc/socket.io-go"
	eio "github.com/karagenc/socket.io-go/engine.io"
	eioparser "github.com/karagenc/socket.io-go/engine.io/parser"
	"nhooyr.io/websocket"
	"pgregory.net/rapid"

	"verif/harness/memnet"
)

const c15sCheck = "c15-stream-order"

type c15sCase struct {
	Transport string `json:"transport"`
	DelayMs   int    `json:"delay_ms"`  // reconnection delay
	Chunk     int    `json:"chunk"`     // emits per chunk (back to back)
	PauseUs   int    `json:"pause_us"`  // virtual pause between chunks
	Chunks    int    `json:"chunks"`    // number of chunks; the producer starts 5 ms before the loss
	Producers int    `json:"producers"` // goroutines, each with its own sequence
}

var c15sTokRe = regexp.MustCompile(`^2\["s",(\d+),(\d+)\]$`)

func evalC15s(c c15sCase) (f *Failure, nontrivial bool) {
	class := c.Transport
	fail := func(clause, detail string) *Failure {
		return &Failure{Property: "C15", Check: c15sCheck, Clause: clause, Class: class, Detail: detail, Case: c}
	}
	journal(c15sCheck, class, c)
	var res *Failure
	overlapped := false
	body := func() {
		var mu sync.Mutex
		net := memnet.New()
		var socks []eio.ServerSocket
		type arrival struct{ prod, seq, conn int }
		var arrivals []arrival
		server := eio.NewServer(func(s eio.ServerSocket) *eio.Callbacks {
			mu.Lock()
			socks = append(socks, s)
			conn := len(socks)
			mu.Unlock()
			return &eio.Callbacks{OnPacket: func(ps ...*eioparser.Packet) {
				for _, p := range ps {
					if p.Type != eioparser.PacketTypeMessage {
						continue
					}
					d := string(p.Data)
					if d == "0" || strings.HasPrefix(d, "0{") {
						rp, _ := eioparser.NewPacket(eioparser.PacketTypeMessage, false, []byte(fmt.Sprintf(`0{"sid":"raw-%d"}`, conn)))
						s.Send(rp)
						continue
					}
					if m := c15sTokRe.FindStringSubmatch(d); m != nil {
						pr, _ := strconv.Atoi(m[1])
						sq, _ := strconv.Atoi(m[2])
						mu.Lock()
						arrivals = append(arrivals, arrival{pr, sq, conn})
						mu.Unlock()
					}
				}
			}}
		}, &eio.ServerConfig{})
		_ = server.Run()
		hs := &http.Server{Handler: server}
		go hs.Serve(net)
		tr := &http.Transport{DialContext: net.Dial, MaxIdleConnsPerHost: 8}
		d := time.Duration(c.DelayMs) * time.Millisecond
		var zero float32
		m := sio.NewManager("http://x/engine.io", &sio.ManagerConfig{ReconnectionDelay: &d, ReconnectionDelayMax: &d, RandomizationFactor: &zero,
			EIO: eio.ClientConfig{Transports: c01Transports(c.Transport), HTTPTransport: tr, WebSocketDialOptions: &websocket.DialOptions{HTTPClient: &http.Client{Transport: tr}}}})
		sock := m.Socket("/", nil)
		connects := 0
		var flushAt, lastEmitAt time.Time
		sock.OnConnect(func() {
			mu.Lock()
			connects++
			if connects == 2 {
				flushAt = time.Now()
			}
			mu.Unlock()
		})
		sock.Connect()
		settle(time.Second)
		teardown := func() {
			m.Close()
			server.Close()
			hs.Close()
			net.Close()
			net.CutAll()
			tr.CloseIdleConnections()
			if !realClock {
				time.Sleep(10 * time.Minute)
				net.CutAll()
				time.Sleep(time.Minute)
			}
		}
		defer teardown()
		mu.Lock()
		ok := connects == 1 && len(socks) == 1
		mu.Unlock()
		if !ok {
			res = fail("rig-connect", "the client did not connect to the hand-written endpoint")
			return
		}
		var wg sync.WaitGroup
		for p := 0; p < c.Producers; p++ {
			wg.Add(1)
			go func() {
				defer wg.Done()
				seq := 0
				for ch := 0; ch < c.Chunks; ch++ {
					for i := 0; i < c.Chunk; i++ {
						sock.Emit("s", p, seq)
						seq++
					}
					mu.Lock()
					lastEmitAt = time.Now()
					mu.Unlock()
					time.Sleep(time.Duration(c.PauseUs) * time.Microsecond)
				}
			}()
		}
		time.Sleep(5 * time.Millisecond)
		mu.Lock()
		first := socks[0]
		mu.Unlock()
		go first.Close() // the session ends (a cut alone would not end a long-polling session); the client reconnects after DelayMs
		wg.Wait()
		settle(5 * time.Second)
		mu.Lock()
		defer mu.Unlock()
		if connects != 2 {
			res = fail("rig-connect", fmt.Sprintf("the client connected %d times (one reconnection expected)", connects))
			return
		}
		overlapped = !flushAt.IsZero() && lastEmitAt.After(flushAt)
		// per producer, on the second connection: strictly increasing sequence numbers, nothing twice
		last := map[int]int{}
		seen := map[[2]int]int{}
		for _, a := range arrivals {
			seen[[2]int{a.prod, a.seq}]++
			if a.conn != 2 {
				continue
			}
			if prev, ok := last[a.prod]; ok && a.seq < prev {
				res = fail("emission-order-across-reconnect", fmt.Sprintf("producer %d: event %d arrived after event %d on the new connection (%d events arrived there in all)", a.prod, a.seq, prev, len(arrivals)))
				return
			}
			last[a.prod] = a.seq
		}
		for k, n := range seen {
			if n > 1 {
				res = fail("exactly-once", fmt.Sprintf("producer %d: event %d arrived %d times", k[0], k[1], n))
				return
			}
		}
		// everything emitted after the loss was noticed arrives (what was in flight on the dying connection may be lost with it)
		total := c.Chunks * c.Chunk
		for p := 0; p < c.Producers; p++ {
			first := -1
			for _, a := range arrivals {
				if a.conn == 2 && a.prod == p && (first < 0 || a.seq < first) {
					first = a.seq
				}
			}
			if first < 0 {
				continue
			}
			for sq := first; sq < total; sq++ {
				if seen[[2]int{p, sq}] == 0 {
					res = fail("offline-emit-delivered-once", fmt.Sprintf("producer %d: event %d was emitted after event %d (which arrived on the new connection) and never arrived", p, sq, first))
					return
				}
			}
		}
	}
	var msg string
	withHooks(hookSet{}, func() { msg = inBubble(curT, body) })
	if res == nil && msg != "" && !isBubbleDeadlock(msg) {
		res = fail("bubble-panic", "synctest: "+msg)
	}
	return res, overlapped
}

func TestC15_StreamOrder(t *testing.T) {
	setT(t)
	defer startWatchdog(t, 90*time.Second)()
	ev := NewEv(t, "C15", c15sCheck, "rapid: the real client against a hand-written Engine.IO endpoint that records arrival order; 1..3 producer goroutines emit numbered events in chunks of 20..400 back to back with "+
		"virtual pauses of 50..2000 us, starting 5 ms before the server ends the session and continuing through the reconnection (delay 10..60 ms), so that the flush of the offline backlog and an Emit run in parallel; "+
		"oracle on the new connection: per producer strictly increasing sequence numbers, nothing twice, everything emitted after the first event that arrived there arrives; non-trivial = a producer was still "+
		"emitting after the socket had reconnected")
	rapidGuard(t, "C15", c15sCheck)
	runRapid(t, c15sCheck, tierN(320, 8000), func(t *rapid.T) {
		c := c15sCase{Transport: rapid.SampledFrom([]string{"polling", "websocket"}).Draw(t, "transport"), DelayMs: rapid.SampledFrom([]int{10, 20, 60}).Draw(t, "delay"),
			Chunk: rapid.SampledFrom([]int{20, 100, 400}).Draw(t, "chunk"), PauseUs: rapid.SampledFrom([]int{50, 200, 1000, 2000}).Draw(t, "pause"), Producers: rapid.IntRange(1, 3).Draw(t, "producers")}
		// enough chunks to span the outage and the reconnection
		c.Chunks = (c.DelayMs+20)*1000/c.PauseUs + 5
		if c.Chunks*c.Chunk > 60000 {
			c.Chunks = 60000 / c.Chunk
		}
		f, nt := evalC15s(c)
		ev.Case(c, nt, c.Transport)
		if nt {
			ev.Sample(c.Transport, c)
		}
		if f != nil {
			FailRapid(t, *f)
		}
	})
}

func init() {
	registerReplay(c15sCheck, func(raw json.RawMessage) *Failure {
		f, _ := evalC15s(decodeCase[c15sCase](raw))
		return f
	})
}
