//go:build !race

package harness

const raceEnabled = false

func raceErrors() int { return 0 }
