// Package memnet is an in-memory network for running net/http clients and servers
// inside a testing/synctest bubble: buffered byte pipes with deadlines (durably blocking),
// plus fault injection (cut, black-hole, latency) and recording.
package memnet

import (
	"context"
	"errors"
	"io"
	"net"
	"os"
	"sync"
	"sync/atomic"
	"time"
)

type addr string

func (a addr) Network() string { return "mem" }
func (a addr) String() string  { return string(a) }

// half is one direction of a connection: an unbounded byte queue.
type half struct {
	mu       sync.Mutex
	cond     *sync.Cond // signalled on any state change
	buf      []byte
	wclosed  bool // writer closed: reader gets EOF after draining
	reset    bool // connection reset: reader and writer get errors
	blackout bool // writes are accepted and dropped
	latency  time.Duration
	total    int64 // bytes accepted from the writer so far
	consumed int64 // bytes the reader has actually taken (a reset discards what was delivered but not yet read)
	cutAt    int64 // if >=0: when total reaches cutAt, the whole conn is reset
	onCut    func()
	record   *[]byte
	onFirst  func(data []byte)
	pending  []pendingItem // in-flight bytes (latency), strictly FIFO
	pumping  bool

	rdeadline time.Time
	rtimer    *time.Timer

	lastDelivered time.Time // when bytes were last made available to the reader of this half
	delivered     int64
}

type pendingItem struct {
	data []byte
	at   time.Time
}

// enqueue schedules data for in-order delivery at now+lat (never before earlier data).
func (h *half) enqueue(data []byte, lat time.Duration) {
	h.mu.Lock()
	at := time.Now().Add(lat)
	if n := len(h.pending); n > 0 && h.pending[n-1].at.After(at) {
		at = h.pending[n-1].at
	}
	h.pending = append(h.pending, pendingItem{data, at})
	start := !h.pumping
	h.pumping = true
	h.mu.Unlock()
	if start {
		go h.pump()
	}
}

func (h *half) pump() {
	for {
		h.mu.Lock()
		if len(h.pending) == 0 || h.reset {
			h.pumping = false
			h.pending = nil
			h.mu.Unlock()
			return
		}
		it := h.pending[0]
		h.mu.Unlock()
		if d := time.Until(it.at); d > 0 {
			time.Sleep(d)
		}
		h.mu.Lock()
		if len(h.pending) > 0 {
			h.pending = h.pending[1:]
		}
		if !h.reset {
			h.buf = append(h.buf, it.data...)
			h.lastDelivered = time.Now()
			h.delivered += int64(len(it.data))
		}
		h.cond.Broadcast()
		h.mu.Unlock()
	}
}

func newHalf() *half {
	h := &half{cutAt: -1}
	h.cond = sync.NewCond(&h.mu)
	return h
}

func (h *half) write(p []byte) (int, error) {
	h.mu.Lock()
	if h.reset {
		h.mu.Unlock()
		return 0, io.ErrClosedPipe
	}
	if h.wclosed {
		h.mu.Unlock()
		return 0, io.ErrClosedPipe
	}
	if h.total == 0 && h.onFirst != nil && len(p) > 0 {
		f := h.onFirst
		h.onFirst = nil
		h.mu.Unlock()
		f(p)
		h.mu.Lock()
	}
	n := len(p)
	cut := false
	if h.cutAt >= 0 && h.total+int64(n) >= h.cutAt {
		n = int(h.cutAt - h.total)
		cut = true
	}
	data := append([]byte(nil), p[:n]...)
	h.total += int64(n)
	if h.record != nil {
		*h.record = append(*h.record, data...)
	}
	drop := h.blackout
	lat := h.latency
	onCut := h.onCut
	h.mu.Unlock()

	if !drop && len(data) > 0 {
		h.mu.Lock()
		inflight := h.pumping
		h.mu.Unlock()
		if lat > 0 || inflight {
			h.enqueue(data, lat)
		} else {
			h.deliver(data)
		}
	}
	if cut {
		if onCut != nil {
			onCut()
		}
		return n, io.ErrClosedPipe
	}
	return len(p), nil
}

func (h *half) deliver(data []byte) {
	h.mu.Lock()
	if !h.reset {
		h.buf = append(h.buf, data...)
		h.lastDelivered = time.Now()
		h.delivered += int64(len(data))
	}
	h.cond.Broadcast()
	h.mu.Unlock()
}

func (h *half) read(p []byte) (int, error) {
	h.mu.Lock()
	defer h.mu.Unlock()
	for {
		if h.reset {
			return 0, errors.New("memnet: connection reset")
		}
		if len(h.buf) > 0 {
			n := copy(p, h.buf)
			h.buf = h.buf[n:]
			h.consumed += int64(n)
			return n, nil
		}
		if h.wclosed {
			return 0, io.EOF
		}
		if !h.rdeadline.IsZero() && !time.Now().Before(h.rdeadline) {
			return 0, os.ErrDeadlineExceeded
		}
		h.cond.Wait()
	}
}

func (h *half) setReadDeadline(t time.Time) {
	h.mu.Lock()
	defer h.mu.Unlock()
	h.rdeadline = t
	if h.rtimer != nil {
		h.rtimer.Stop()
		h.rtimer = nil
	}
	if !t.IsZero() {
		d := time.Until(t)
		if d <= 0 {
			h.cond.Broadcast()
		} else {
			h.rtimer = time.AfterFunc(d, func() {
				h.mu.Lock()
				h.cond.Broadcast()
				h.mu.Unlock()
			})
		}
	}
}

func (h *half) closeWrite() {
	h.mu.Lock()
	h.wclosed = true
	h.cond.Broadcast()
	h.mu.Unlock()
}

func (h *half) doReset() {
	h.mu.Lock()
	h.reset = true
	if h.rtimer != nil {
		h.rtimer.Stop()
		h.rtimer = nil
	}
	h.cond.Broadcast()
	h.mu.Unlock()
}

// Conn is one end of an in-memory connection.
type Conn struct {
	in, out *half // we read from in, write to out
	link    *Link
	local   addr
	remote  addr
	once    sync.Once
}

// Link is the harness's handle on a connection (both ends).
type Link struct {
	ID       int
	C2S, S2C *half
	RecC2S   []byte
	RecS2C   []byte
	Client   *Conn
	Server   *Conn
	cutFired atomic.Bool
}

func (l *Link) Cut()                       { l.cutFired.Store(true); l.C2S.doReset(); l.S2C.doReset() }
func (l *Link) Blackhole(c2s, s2c bool)    { setBH(l.C2S, c2s); setBH(l.S2C, s2c) }
func (l *Link) SetLatency(d time.Duration) { setLat(l.C2S, d); setLat(l.S2C, d) }

// CutAfterDrain is CutAfter with the bytes that got through still readable: the reading end drains them and then sees the end of the
// stream (as when the peer's kernel, or a proxy, closes in the middle of a transfer), the opposite direction is reset.
func (l *Link) CutAfterDrain(c2s bool, n int64) {
	h, other := l.S2C, l.C2S
	if c2s {
		h, other = l.C2S, l.S2C
	}
	h.mu.Lock()
	h.cutAt = n
	h.onCut = func() { l.cutFired.Store(true); h.closeWrite(); other.doReset() }
	h.mu.Unlock()
}

func (l *Link) CutAfter(c2s bool, n int64) {
	h := l.S2C
	if c2s {
		h = l.C2S
	}
	h.mu.Lock()
	h.cutAt = n
	h.onCut = l.Cut
	h.mu.Unlock()
}
func setBH(h *half, v bool)           { h.mu.Lock(); h.blackout = v; h.mu.Unlock() }
func setLat(h *half, d time.Duration) { h.mu.Lock(); h.latency = d; h.mu.Unlock() }

func (c *Conn) Read(p []byte) (int, error)  { return c.in.read(p) }
func (c *Conn) Write(p []byte) (int, error) { return c.out.write(p) }
func (c *Conn) Close() error {
	c.once.Do(func() {
		c.out.closeWrite()
		// our own reads fail from now on
		c.in.doReset()
	})
	return nil
}
func (c *Conn) LocalAddr() net.Addr                { return c.local }
func (c *Conn) RemoteAddr() net.Addr               { return c.remote }
func (c *Conn) SetDeadline(t time.Time) error      { c.in.setReadDeadline(t); return nil }
func (c *Conn) SetReadDeadline(t time.Time) error  { c.in.setReadDeadline(t); return nil }
func (c *Conn) SetWriteDeadline(t time.Time) error { return nil } // writes never block

// Net is a listener plus a dialer.
type Net struct {
	mu           sync.Mutex
	ch           chan net.Conn
	closed       chan struct{}
	once         sync.Once
	links        []*Link
	OnDial       func(l *Link) error // fault plan hook: configure or refuse a new link
	OnFirstWrite func(l *Link, data []byte)
	refuse       bool
}

func New() *Net { return &Net{ch: make(chan net.Conn), closed: make(chan struct{})} }

func (n *Net) Accept() (net.Conn, error) {
	select {
	case c := <-n.ch:
		return c, nil
	case <-n.closed:
		return nil, net.ErrClosed
	}
}
func (n *Net) Close() error   { n.once.Do(func() { close(n.closed) }); return nil }
func (n *Net) Addr() net.Addr { return addr("server") }

func (n *Net) Links() []*Link {
	n.mu.Lock()
	defer n.mu.Unlock()
	return append([]*Link(nil), n.links...)
}

// SetOnDial / SetOnFirstWrite install the fault-plan hooks (read by Dial under the same lock).
func (n *Net) SetOnDial(f func(l *Link) error) { n.mu.Lock(); n.OnDial = f; n.mu.Unlock() }
func (n *Net) GetOnDial() func(l *Link) error  { n.mu.Lock(); defer n.mu.Unlock(); return n.OnDial }
func (n *Net) SetOnFirstWrite(f func(l *Link, data []byte)) {
	n.mu.Lock()
	n.OnFirstWrite = f
	n.mu.Unlock()
}

// SetRefuse makes every dial from now on fail ("connection refused") or succeed again.
func (n *Net) SetRefuse(b bool) { n.mu.Lock(); n.refuse = b; n.mu.Unlock() }

func (n *Net) CutAll() {
	for _, l := range n.Links() {
		l.Cut()
	}
}

func (n *Net) Dial(ctx context.Context, network, address string) (net.Conn, error) {
	n.mu.Lock()
	refuse := n.refuse
	l := &Link{ID: len(n.links), C2S: newHalf(), S2C: newHalf()}
	l.C2S.record = &l.RecC2S
	l.S2C.record = &l.RecS2C
	l.Client = &Conn{in: l.S2C, out: l.C2S, link: l, local: addr("client"), remote: addr("server")}
	l.Server = &Conn{in: l.C2S, out: l.S2C, link: l, local: addr("server"), remote: addr("client")}
	onDial := n.OnDial
	if ofw := n.OnFirstWrite; ofw != nil {
		l.C2S.onFirst = func(data []byte) { ofw(l, data) }
	}
	if !refuse {
		n.links = append(n.links, l)
	}
	n.mu.Unlock()
	if refuse {
		return nil, errors.New("memnet: connection refused")
	}
	if onDial != nil {
		if err := onDial(l); err != nil {
			return nil, err
		}
	}
	select {
	case n.ch <- l.Server:
		return l.Client, nil
	case <-n.closed:
		return nil, errors.New("memnet: connection refused (listener closed)")
	case <-ctx.Done():
		return nil, ctx.Err()
	}
}

// WasCut reports whether the link has been cut by a fault (Cut, CutAll or an armed CutAfter), as opposed to closed by an endpoint.
func (l *Link) WasCut() bool { return l.cutFired.Load() }

// Consumed returns how many bytes the reading end has actually read in the given direction.
func (l *Link) Consumed(c2s bool) int64 {
	h := l.S2C
	if c2s {
		h = l.C2S
	}
	h.mu.Lock()
	defer h.mu.Unlock()
	return h.consumed
}

// LastWritten returns how many bytes have been written so far in the given direction (what CutAfter counts).
func (l *Link) LastWritten(c2s bool) (time.Time, int64) {
	h := l.S2C
	if c2s {
		h = l.C2S
	}
	h.mu.Lock()
	defer h.mu.Unlock()
	return h.lastDelivered, h.total
}

// LastDelivered returns the instant at which bytes were last delivered in the given direction (zero if never) and how many so far.
func (l *Link) LastDelivered(c2s bool) (time.Time, int64) {
	h := l.S2C
	if c2s {
		h = l.C2S
	}
	h.mu.Lock()
	defer h.mu.Unlock()
	return h.lastDelivered, h.delivered
}

// BlackholeAll black-holes every existing link in the given directions and every link dialed from now on.
func (n *Net) BlackholeAll(c2s, s2c bool) {
	n.mu.Lock()
	prev := n.OnDial
	n.OnDial = func(l *Link) error {
		l.Blackhole(c2s, s2c)
		if prev != nil {
			return prev(l)
		}
		return nil
	}
	links := append([]*Link(nil), n.links...)
	n.mu.Unlock()
	for _, l := range links {
		l.Blackhole(c2s, s2c)
	}
}

// LastHeard returns the latest instant at which any link delivered bytes in the given direction.
func (n *Net) LastHeard(c2s bool) time.Time {
	var t time.Time
	for _, l := range n.Links() {
		if d, _ := l.LastDelivered(c2s); d.After(t) {
			t = d
		}
	}
	return t
}

// DisarmCuts removes every armed CutAfter that has not fired yet.
func (n *Net) DisarmCuts() {
	for _, l := range n.Links() {
		for _, h := range []*half{l.C2S, l.S2C} {
			h.mu.Lock()
			h.cutAt = -1
			h.mu.Unlock()
		}
	}
}
