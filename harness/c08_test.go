package harness

// C08 — state recovery replays exactly the missed packets, or falls back cleanly (adapter level, virtual time).
// DESIGN.md §3 C08. The real session-aware adapter (hook constructor: window + cleaner period) runs on the recording
// SocketStore of C04 inside a synctest bubble; histories of joins, broadcasts, disconnects, time and restores are checked
// against a reference log.

import (
	"encoding/json"
	"fmt"
	"sort"
	"strings"
	"sync"
	"testing"
	"time"

	"github.com/karagenc/socket.io-go/adapter"
	"github.com/karagenc/socket.io-go/parser"
	jsonparser "github.com/karagenc/socket.io-go/parser/json"
	"github.com/karagenc/socket.io-go/parser/json/serializer/stdjson"
	"pgregory.net/rapid"

	"verif/harness/refcodec"
)

const c08Check = "c08-adapter-history"

type c08Op struct {
	Op     string   `json:"op"` // join leave broadcast direct disconnect advance restore
	Sock   string   `json:"sock,omitempty"`
	Rooms  []string `json:"rooms,omitempty"`
	T      []string `json:"to,omitempty"`
	E      []string `json:"except,omitempty"`
	Binary bool     `json:"binary,omitempty"`
	DeltaP int      `json:"delta_permille,omitempty"` // advance: permille of the window
	Offset string   `json:"offset,omitempty"`         // restore: last | unknown | empty | first
	PID    string   `json:"pid,omitempty"`            // restore: own | unknown
}

type c08Case struct {
	WindowMs  int     `json:"window_ms"`
	CleanerPm int     `json:"cleaner_permille"` // cleaner period in permille of the window; 0 = cleaner off
	Ops       []c08Op `json:"ops"`
}

type c08Logged struct {
	id     string
	at     time.Duration
	T, E   []string
	token  string
	binary bool
}

type c08Session struct {
	pid    string
	sid    string
	rooms  map[string]bool
	at     time.Duration // disconnect time
	offset string        // id of the last packet delivered to it ("" = none)
	logLen int           // number of packets logged when it disconnected
	joined map[string]time.Duration // room -> when it was joined (to recognise packets older than the membership)
}

// c08Recorder is the SocketStore: it records, per socket, the offset ids of what was delivered.
type c08Recorder struct {
	*c04Store
	mu        sync.Mutex
	delivered map[adapter.SocketID][]string
}

func (r *c08Recorder) SendBuffers(sid adapter.SocketID, buffers [][]byte) bool {
	ok := r.c04Store.SendBuffers(sid, buffers)
	if ok {
		if p, err := refcodec.DecodeSIOPacket(buffers); err == nil && p.Payload != nil && len(p.Payload.Arr) > 0 {
			last := p.Payload.Arr[len(p.Payload.Arr)-1]
			if last.Kind == "str" {
				r.mu.Lock()
				r.delivered[sid] = append(r.delivered[sid], last.Str)
				r.mu.Unlock()
			}
		}
	}
	return ok
}

var (
	c08mu           sync.Mutex
	c08TolerateKF1  bool
	c08ToleratedKF1 int64
)

// KF-C08-1 probe: r1 is addressed before s0 joins it; s0 then joins r1, disconnects and recovers.
func c08KF1Active() bool {
	return kfActive("KF-C08-1", func() (bool, string) {
		saved := c08TolerateKF1
		c08TolerateKF1 = false
		defer func() { c08TolerateKF1 = saved }()
		f, _ := evalC08(c08Case{WindowMs: 2000, Ops: []c08Op{{Op: "direct", Sock: "s0"}, {Op: "broadcast", T: []string{"r1"}}, {Op: "join", Sock: "s0", Rooms: []string{"r1"}},
			{Op: "disconnect", Sock: "s0"}, {Op: "restore", Sock: "s0", Offset: "last", PID: "own"}}})
		if f != nil && f.Class == "packet-older-than-membership" {
			return true, f.Detail
		}
		return false, ""
	})
}

func evalC08(c c08Case) (f *Failure, nontrivial bool) {
	class := fmt.Sprintf("cleaner=%d", c.CleanerPm)
	fail := func(clause, detail string) *Failure {
		return &Failure{Property: "C08", Check: c08Check, Clause: clause, Class: class, Detail: detail, Case: c}
	}
	var res *Failure
	W := time.Duration(c.WindowMs) * time.Millisecond
	P := W * time.Duration(c.CleanerPm) / 1000
	closing := false
	var closingMu sync.Mutex
	body := func() {
		start := time.Now()
		rec := &c08Recorder{c04Store: newC04Store(), delivered: map[adapter.SocketID][]string{}}
		pc := jsonparser.NewCreator(0, stdjson.New())
		ad := adapter.VerifNewSessionAwareAdapterCreator(W, P)(rec, pc)
		rec.adapter = ad
		model := map[string]map[string]bool{}           // connected socket -> rooms
		joinedAt := map[string]map[string]time.Duration{} // connected socket -> room -> join time
		sessions := map[string]*c08Session{}             // socket name -> persisted session
		dead := map[string]bool{}
		var log []c08Logged
		cleanerPasses := 0
		lastPassCount := func() int {
			if P == 0 {
				return 0
			}
			return int(time.Since(start) / P)
		}
		token := 0
		names := []string{"s0", "s1", "s2", "s3"}
		for _, s := range names[:3] {
			rec.connect(adapter.SocketID(s))
			model[s] = map[string]bool{s: true}
			joinedAt[s] = map[string]time.Duration{s: 0}
		}

		emit := func(T, E []string, binary bool) {
			token++
			tok := fmt.Sprintf("tok%d", token)
			o := adapter.NewBroadcastOptions()
			o.Rooms, o.Except = roomSet(T), roomSet(E)
			v := make([]any, 0, 5)
			v = append(v, "ev", tok)
			if binary {
				v = append(v, Bin("bin-"+tok))
			}
			before, _ := adapter.VerifLogIDs(ad)
			ad.Broadcast(&parser.PacketHeader{Type: parser.PacketTypeEvent, Namespace: "/"}, v, o)
			after, _ := adapter.VerifLogIDs(ad)
			if len(after) != len(before)+1 {
				res = fail("logged", fmt.Sprintf("a broadcast changed the log length from %d to %d", len(before), len(after)))
				return
			}
			log = append(log, c08Logged{id: after[len(after)-1], at: time.Since(start), T: T, E: E, token: tok, binary: binary})
		}

		for i, op := range c.Ops {
			if res != nil {
				break
			}
			switch op.Op {
			case "join":
				if model[op.Sock] == nil {
					continue
				}
				rs := make([]adapter.Room, len(op.Rooms))
				for k, r := range op.Rooms {
					rs[k] = adapter.Room(r)
					model[op.Sock][r] = true
					if _, ok := joinedAt[op.Sock][r]; !ok {
						joinedAt[op.Sock][r] = time.Since(start)
					}
				}
				ad.AddAll(adapter.SocketID(op.Sock), rs)
			case "leave":
				if model[op.Sock] == nil {
					continue
				}
				ad.Delete(adapter.SocketID(op.Sock), adapter.Room(op.Rooms[0]))
				delete(model[op.Sock], op.Rooms[0])
				delete(joinedAt[op.Sock], op.Rooms[0])
			case "broadcast":
				emit(op.T, op.E, op.Binary)
			case "direct":
				emit([]string{op.Sock}, nil, op.Binary)
			case "disconnect":
				if model[op.Sock] == nil {
					continue
				}
				rooms, _ := ad.SocketRooms(adapter.SocketID(op.Sock))
				var rs []adapter.Room
				if rooms != nil {
					rs = rooms.ToSlice()
				}
				ad.PersistSession(&adapter.SessionToPersist{SID: adapter.SocketID(op.Sock), PID: adapter.PrivateSessionID("pid-" + op.Sock), Rooms: rs})
				ad.DeleteAll(adapter.SocketID(op.Sock))
				rec.Remove(adapter.SocketID(op.Sock))
				rec.mu.Lock()
				d := rec.delivered[adapter.SocketID(op.Sock)]
				rec.mu.Unlock()
				sess := &c08Session{pid: "pid-" + op.Sock, sid: op.Sock, rooms: model[op.Sock], at: time.Since(start), joined: joinedAt[op.Sock], logLen: len(log)}
				if len(d) > 0 {
					sess.offset = d[len(d)-1]
				}
				sessions[op.Sock] = sess
				delete(model, op.Sock)
			case "advance":
				time.Sleep(W * time.Duration(op.DeltaP) / 1000)
				// let the cleaner goroutine run if its timer fired
				time.Sleep(time.Microsecond)
				cleanerPasses = lastPassCount()
			case "restore":
				sess := sessions[op.Sock]
				if sess == nil || dead[op.Sock] || model[op.Sock] != nil {
					continue
				}
				pid, offset := sess.pid, sess.offset
				offsetKnown := offset != ""
				switch op.Offset {
				case "unknown":
					offset, offsetKnown = "zzzzzzz", false
				case "empty":
					offset, offsetKnown = "", false
				case "first":
					if len(log) > 0 {
						offset = log[0].id
					}
				}
				if op.PID == "unknown" {
					pid = "pid-nobody"
				}
				var got *adapter.SessionToPersist
				var ok bool
				if pm, _ := catchPanic(func() { got, ok = ad.RestoreSession(adapter.PrivateSessionID(pid), offset) }); pm != "" {
					res = fail("no-panic", fmt.Sprintf("step %d RestoreSession panicked: %s", i, pm))
					continue
				}
				age := time.Since(start) - sess.at
				if op.PID == "unknown" || !offsetKnown || op.Offset == "first" {
					if op.Offset == "first" && op.PID != "unknown" {
						// a valid, older offset: handled below like any known offset (replay from there)
					} else {
						if ok {
							res = fail("fallback-when-unknown", fmt.Sprintf("step %d: RestoreSession(pid %q, offset %q) recovered a session although the pid or offset is unknown", i, pid, offset))
						}
						continue
					}
				}
				if age > W {
					if ok {
						res = fail("fallback-when-expired", fmt.Sprintf("step %d: session of %s disconnected %v ago (window %v) was still recovered", i, op.Sock, age, W))
					}
					dead[op.Sock] = true
					continue
				}
				// Within the window with a known pid and an offset that names a logged packet.
				idx := -1
				for k, p := range log {
					if p.id == offset {
						idx = k
					}
				}
				if idx < 0 {
					continue
				}
				offsetAge := time.Since(start) - log[idx].at
				if !ok {
					if offsetAge > W {
						continue // the offset packet itself is older than the window: it may legitimately have been expired from the log
					}
					res = fail("recovers-within-window", fmt.Sprintf("step %d: session of %s (disconnected %v ago, window %v, offset packet %v old) was not recovered", i, op.Sock, age, W, offsetAge))
					continue
				}
				if string(got.SID) != sess.sid || string(got.PID) != sess.pid {
					res = fail("same-identity", fmt.Sprintf("step %d: recovered sid/pid %q/%q, want %q/%q", i, got.SID, got.PID, sess.sid, sess.pid))
					continue
				}
				var gotRooms []string
				for _, r := range got.Rooms {
					gotRooms = append(gotRooms, string(r))
				}
				sort.Strings(gotRooms)
				if fmt.Sprint(gotRooms) != fmt.Sprint(keys(sess.rooms)) {
					res = fail("same-rooms", fmt.Sprintf("step %d: recovered rooms %v, the socket had %v when it disconnected", i, gotRooms, keys(sess.rooms)))
					continue
				}
				// Missed packets: logged after the offset, addressed to the session's rooms. A packet that was emitted while the socket was
				// still connected and was not delivered to it then (all deliveries are <= offset) was never addressed to it; the
				// implementation nevertheless replays it when the socket's rooms AT DISCONNECT select it (it joined the room, or left an
				// excepted room, after the packet): "loose" reading, known finding KF-C08-1.
				var want, loose []c08Logged
				for k, p := range log[idx+1:] {
					if selected(sess.rooms, p.T, p.E) {
						loose = append(loose, p)
						if idx+1+k >= sess.logLen {
							want = append(want, p)
						}
					}
				}
				var gotIDs, wantIDs, looseIDs []string
				for _, p := range got.MissedPackets {
					gotIDs = append(gotIDs, p.ID)
				}
				for _, p := range want {
					wantIDs = append(wantIDs, p.id)
				}
				for _, p := range loose {
					looseIDs = append(looseIDs, p.id)
				}
				if fmt.Sprint(gotIDs) != fmt.Sprint(wantIDs) && fmt.Sprint(gotIDs) == fmt.Sprint(looseIDs) {
					if c08TolerateKF1 {
						c08mu.Lock()
						c08ToleratedKF1++
						c08mu.Unlock()
						want, wantIDs = loose, looseIDs
					} else {
						f := fail("exact-missed-packets", fmt.Sprintf("step %d: session of %s recovered with missed packets %v, but %d of them were emitted while the socket was connected and not a member of the "+
							"addressed rooms (never addressed to it); packets emitted after its disconnect and addressed to its rooms: %v", i, op.Sock, gotIDs, len(looseIDs)-len(wantIDs), wantIDs))
						f.Class = "packet-older-than-membership"
						res = f
						continue
					}
				}
				if fmt.Sprint(gotIDs) != fmt.Sprint(wantIDs) {
					cl := "exact-missed-packets"
					f := fail(cl, fmt.Sprintf("step %d: session of %s recovered (offset %s, %d cleaner passes so far) with missed packets %v; the log after that offset addressed to its rooms %v is %v",
						i, op.Sock, offset, cleanerPasses, gotIDs, keys(sess.rooms), wantIDs))
					res = f
					continue
				}
				kinds := map[string]bool{}
				for _, p := range want {
					kinds[fmt.Sprint(len(p.T) == 0, p.binary, len(p.T) == 1 && strings.HasPrefix(p.T[0], "s"))] = true
				}
				if len(want) >= 2 && len(kinds) >= 2 && cleanerPasses >= 1 {
					nontrivial = true
				}
				// replay: re-encode the missed packets the way newServerSocket does and compare with what was emitted
				for k, mp := range got.MissedPackets {
					var frames [][]byte
					var err error
					if pm, _ := catchPanic(func() { frames, err = pc().Encode(mp.Header, &mp.Data) }); pm != "" || err != nil {
						res = fail("replay-intact", fmt.Sprintf("step %d: re-encoding missed packet %s failed: %v %s", i, mp.ID, err, pm))
						break
					}
					pkt, derr := refcodec.DecodeSIOPacket(frames)
					if derr != nil {
						res = fail("replay-intact", fmt.Sprintf("step %d: replayed packet %s (binary %v) is not a valid Socket.IO packet: %v; text frame %q", i, mp.ID, want[k].binary, derr, trunc(frames[0], 100)))
						break
					}
					wantTree := refcodec.Tree{Kind: "arr", Arr: []refcodec.Tree{{Kind: "str", Str: "ev"}, {Kind: "str", Str: want[k].token}}}
					if want[k].binary {
						wantTree.Arr = append(wantTree.Arr, refcodec.Tree{Kind: "bin", Bin: []byte("bin-" + want[k].token)})
					}
					wantTree.Arr = append(wantTree.Arr, refcodec.Tree{Kind: "str", Str: want[k].id})
					if pkt.Payload == nil || treeDiff(wantTree, *pkt.Payload, "$") != "" {
						res = fail("replay-intact", fmt.Sprintf("step %d: replayed packet %s differs from what was emitted: %v vs %v", i, mp.ID, pkt.Payload, wantTree))
						break
					}
				}
				if res != nil {
					continue
				}
				// the socket is back: same id, same rooms; its offset is now the last replayed packet
				rec.mu.Lock()
				for _, id := range gotIDs {
					rec.delivered[adapter.SocketID(op.Sock)] = append(rec.delivered[adapter.SocketID(op.Sock)], id)
				}
				rec.mu.Unlock()
				so := &c04Socket{id: adapter.SocketID(op.Sock), store: rec.c04Store}
				rec.c04Store.mu.Lock()
				rec.c04Store.sockets[so.id] = so
				rec.c04Store.mu.Unlock()
				ad.AddAll(so.id, got.Rooms)
				model[op.Sock] = map[string]bool{}
				joinedAt[op.Sock] = map[string]time.Duration{}
				for r := range sess.rooms {
					model[op.Sock][r] = true
					joinedAt[op.Sock][r] = time.Since(start)
				}
			}
		}
		closingMu.Lock()
		closing = true
		closingMu.Unlock()
		if P > 0 {
			time.Sleep(P + time.Second)
		}
	}
	var msg string
	withHooks(hookSet{stop: func(site string) bool {
		closingMu.Lock()
		defer closingMu.Unlock()
		return closing
	}}, func() { msg = inBubble(curT, body) })
	if res == nil && msg != "" {
		res = fail("bubble-panic", "synctest: "+msg)
	}
	return res, nontrivial
}

func genC08Case(t *rapid.T) c08Case {
	c := c08Case{WindowMs: rapid.SampledFrom([]int{2000, 10000}).Draw(t, "window"), CleanerPm: rapid.SampledFrom([]int{0, 250, 250, 1000, 3000}).Draw(t, "cleaner")}
	sock := rapid.SampledFrom([]string{"s0", "s1", "s2"})
	room := rapid.SampledFrom([]string{"r0", "r1", "r2"})
	n := rapid.IntRange(4, 28).Draw(t, "ops")
	for i := 0; i < n; i++ {
		var op c08Op
		// Episodes make the interesting shape likely: a socket disconnects, several packets of different kinds are addressed to it,
		// time passes (cleaner passes) within or beyond the window, it restores.
		if rapid.IntRange(0, 5).Draw(t, "episode") == 0 {
			victim := sock.Draw(t, "victim")
			c.Ops = append(c.Ops, c08Op{Op: "join", Sock: victim, Rooms: []string{room.Draw(t, "vroom")}}, c08Op{Op: "direct", Sock: victim}, c08Op{Op: "disconnect", Sock: victim})
			for k, m := 0, rapid.IntRange(1, 5).Draw(t, "missed"); k < m; k++ {
				switch rapid.IntRange(0, 3).Draw(t, "kind") {
				case 0:
					c.Ops = append(c.Ops, c08Op{Op: "broadcast", Binary: rapid.Bool().Draw(t, "bin")})
				case 1:
					c.Ops = append(c.Ops, c08Op{Op: "direct", Sock: victim, Binary: rapid.Bool().Draw(t, "bin")})
				case 2:
					c.Ops = append(c.Ops, c08Op{Op: "broadcast", T: rapid.SliceOfN(room, 1, 2).Draw(t, "T"), Binary: rapid.Bool().Draw(t, "bin")})
				default:
					c.Ops = append(c.Ops, c08Op{Op: "advance", DeltaP: rapid.IntRange(50, 450).Draw(t, "smalldelta")})
				}
			}
			c.Ops = append(c.Ops, c08Op{Op: "advance", DeltaP: rapid.OneOf(rapid.IntRange(100, 800), rapid.IntRange(100, 800), rapid.IntRange(1100, 2500)).Draw(t, "gap")},
				c08Op{Op: "restore", Sock: victim, Offset: "last", PID: "own"})
			continue
		}
		switch rapid.IntRange(0, 13).Draw(t, "op") {
		case 0, 1:
			op = c08Op{Op: "join", Sock: sock.Draw(t, "sock"), Rooms: rapid.SliceOfN(room, 1, 2).Draw(t, "rooms")}
		case 2:
			op = c08Op{Op: "leave", Sock: sock.Draw(t, "sock"), Rooms: []string{room.Draw(t, "room")}}
		case 3, 4, 5:
			op = c08Op{Op: "broadcast", Binary: rapid.Bool().Draw(t, "bin")}
			if rapid.Bool().Draw(t, "rooms") {
				op.T = rapid.SliceOfN(room, 1, 2).Draw(t, "T")
			}
			if rapid.IntRange(0, 2).Draw(t, "exc") == 0 {
				op.E = []string{rapid.SampledFrom([]string{"r0", "r1", "r2", "s0", "s1"}).Draw(t, "E")}
			}
		case 6, 7:
			op = c08Op{Op: "direct", Sock: sock.Draw(t, "sock"), Binary: rapid.Bool().Draw(t, "bin")}
		case 8, 9:
			op = c08Op{Op: "disconnect", Sock: sock.Draw(t, "sock")}
		case 10:
			op = c08Op{Op: "advance", DeltaP: rapid.OneOf(rapid.IntRange(0, 900), rapid.IntRange(1100, 3000), rapid.IntRange(100, 400)).Draw(t, "delta")}
		default:
			op = c08Op{Op: "restore", Sock: sock.Draw(t, "sock"), Offset: rapid.SampledFrom([]string{"last", "last", "last", "last", "unknown", "empty"}).Draw(t, "offset"),
				PID: rapid.SampledFrom([]string{"own", "own", "own", "own", "unknown"}).Draw(t, "pid")}
		}
		c.Ops = append(c.Ops, op)
	}
	return c
}

func TestC08_AdapterHistory(t *testing.T) {
	setT(t)
	ev := NewEv(t, "C08", c08Check, "rapid histories in virtual time on the real session-aware adapter (window 2 s / 10 s, cleaner off / W/4 / W / 3W): joins, leaves, namespace / room(+except) / direct "+
		"broadcasts (text and binary), disconnect at any point (PersistSession with the rooms, offset = last id the recording store delivered), time advancing on both sides of the window, "+
		"RestoreSession with own/unknown pid and last/older/unknown/empty offset, repeated and for several sessions; oracle: recovered => same sid, same rooms, missed packets == reference log "+
		"after the offset filtered by the session's rooms (same ids, same order), each replayed packet re-encodes to what was emitted; expired or unknown => not recovered; within the window => recovered; "+
		"non-trivial = >= 2 missed packets of different kinds with >= 1 cleaner pass before the restore")
	rapidGuard(t, "C08", c08Check)
	c08TolerateKF1 = c08KF1Active()
	defer func() {
		for i := int64(0); i < c08ToleratedKF1; i++ {
			ev.Excluded("KF-C08-1")
		}
	}()
	runRapid(t, c08Check, tierN(20000, 600000), func(t *rapid.T) {
		c := genC08Case(t)
		f, nt := evalC08(c)
		ev.Case(c, nt, fmt.Sprintf("cleaner=%d", c.CleanerPm))
		if nt {
			ev.Sample(fmt.Sprint(c.CleanerPm), c)
		}
		if f != nil {
			FailRapid(t, *f)
		}
	})
}

func init() {
	registerReplay(c08Check, func(raw json.RawMessage) *Failure {
		f, _ := evalC08(decodeCase[c08Case](raw))
		return f
	})
}
