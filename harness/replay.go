package harness

import (
	"encoding/json"
	"fmt"
	"os"
	"sync"
)

// Replay registry: every check registers how to re-execute one stored case, bypassing the generators.

var (
	replayMu  sync.Mutex
	replayers = map[string]func(raw json.RawMessage) *Failure{}
)

func registerReplay(check string, fn func(raw json.RawMessage) *Failure) {
	replayMu.Lock()
	defer replayMu.Unlock()
	if _, dup := replayers[check]; dup {
		panic("duplicate replay registration: " + check)
	}
	replayers[check] = fn
}

func decodeCase[T any](raw json.RawMessage) T {
	var v T
	if err := json.Unmarshal(raw, &v); err != nil {
		panic(fmt.Errorf("replay: cannot decode case: %w", err))
	}
	return v
}

type replayFile struct {
	Property string          `json:"property"`
	Check    string          `json:"check"`
	Clause   string          `json:"clause"`
	Class    string          `json:"class"`
	Detail   string          `json:"detail"`
	Case     json.RawMessage `json:"case"`
}

func loadReplay(path string) (*replayFile, error) {
	b, err := os.ReadFile(path)
	if err != nil {
		return nil, err
	}
	var rf replayFile
	if err := json.Unmarshal(b, &rf); err != nil {
		return nil, err
	}
	return &rf, nil
}

func trunc(b []byte, n int) []byte {
	if len(b) > n {
		return b[:n]
	}
	return b
}

// sampleOf converts a case into something small enough for the evidence file: the JSON form with long strings cut.
func sampleOf(v any) any {
	b, err := json.Marshal(v)
	if err != nil {
		return fmt.Sprintf("%+v", v)
	}
	var x any
	if json.Unmarshal(b, &x) != nil {
		return string(trunc(b, 400))
	}
	return shorten(x)
}

func shorten(x any) any {
	switch v := x.(type) {
	case string:
		if len(v) > 96 {
			return fmt.Sprintf("%s…(%d chars)", v[:96], len(v))
		}
		return v
	case []any:
		if len(v) > 24 {
			out := make([]any, 0, 25)
			for _, e := range v[:24] {
				out = append(out, shorten(e))
			}
			return append(out, fmt.Sprintf("…(%d items)", len(v)))
		}
		for i := range v {
			v[i] = shorten(v[i])
		}
		return v
	case map[string]any:
		for k := range v {
			v[k] = shorten(v[k])
		}
		return v
	}
	return x
}
