package harness

// C03/C01 at the moment of connection: the server emits from its connection handler (events with and without acks) while the
// client is still processing the CONNECT reply, and the client has emits of its own waiting in its offline buffer. Packets are
// dispatched on their own goroutines, so an event can overtake the CONNECT reply inside the client and is then kept in the
// client's receive buffer until the socket is connected. DESIGN.md §3 C03. (The other rigs emit only after a ready/hello handshake.)

import (
	"encoding/json"
	"fmt"
	"sync"
	"testing"
	"time"

	sio "github.com/karagenc/socket.io-go"
	"pgregory.net/rapid"
)

const c03eCheck = "c03-at-connect"

type c03eCase struct {
	Transport   string   `json:"transport"`
	ServerEmits []string `json:"server_emits"` // per emit from the connection handler: ack | plain | ack-async (client handler acks 1 ms later)
	Buffered    int      `json:"buffered"`     // client emits made before Connect (0..4), half of them with an ack
	HoldHit     int      `json:"hold_hit"`     // hold the n-th asynchronous dispatch for 1 ms (0 = none): shuffles which packet the client handles first
	Where       string   `json:"where"`        // connection-handler | middleware-after-return (emit from a goroutine started in the middleware, 1 ms later)
}

func evalC03e(c c03eCase) (f *Failure, nontrivial bool) {
	class := c.Transport + "," + c.Where
	fail := func(clause, detail string) *Failure {
		return &Failure{Property: "C03", Check: c03eCheck, Clause: clause, Class: class, Detail: detail, Case: c}
	}
	journal(c03eCheck, class, c)
	var res *Failure
	msg := runRig(rigOpts{}, func(r *rig) {
		var mu sync.Mutex
		srvAcks := map[int][]string{} // server emit index -> replies its callback got
		srvGot := map[int]int{}       // client token -> times the server's handler ran
		cliGot := map[int]int{}       // server emit index -> times the client's handler ran
		cliAcks := map[int]int{}      // client token -> times its ack callback ran
		emitAll := func(s sio.ServerSocket) {
			for i, kind := range c.ServerEmits {
				i := i
				if kind == "plain" {
					s.Emit("p", i)
				} else {
					ev := "a"
					if kind == "ack-async" {
						ev = "aa"
					}
					s.Timeout(5*time.Second).Emit(ev, i, func(err error, back string) {
						mu.Lock()
						if err != nil {
							back = "ERR:" + err.Error()
						}
						srvAcks[i] = append(srvAcks[i], back)
						mu.Unlock()
					})
				}
			}
		}
		r.Server.Use(func(s sio.ServerSocket, _ *sio.Handshake) any {
			s.OnEvent("c", func(tok int) { mu.Lock(); srvGot[tok]++; mu.Unlock() })
			s.OnEvent("ca", func(tok int, ack func(int)) { mu.Lock(); srvGot[tok]++; mu.Unlock(); ack(tok) })
			if c.Where == "middleware-after-return" {
				go func() { time.Sleep(time.Millisecond); emitAll(s) }()
			}
			return nil
		})
		if c.Where == "connection-handler" {
			r.Server.OnConnection(emitAll)
		}
		if c.HoldHit > 0 {
			n := 0
			r.setPoint(func(site string) {
				if site == "handlerStore.forEach:async" {
					mu.Lock()
					n++
					hit := n == c.HoldHit
					mu.Unlock()
					if hit {
						time.Sleep(time.Millisecond)
					}
				}
			})
		}
		cli := r.manager(c01Transports(c.Transport), nil).Socket("/", nil)
		cli.OnEvent("p", func(i int) { mu.Lock(); cliGot[i]++; mu.Unlock() })
		cli.OnEvent("a", func(i int, ack func(string)) { mu.Lock(); cliGot[i]++; mu.Unlock(); ack(fmt.Sprint("r", i)) })
		cli.OnEvent("aa", func(i int, ack func(string)) {
			mu.Lock()
			cliGot[i]++
			mu.Unlock()
			go func() { time.Sleep(time.Millisecond); ack(fmt.Sprint("r", i)) }()
		})
		for k := 0; k < c.Buffered; k++ {
			k := k
			if k%2 == 0 {
				cli.Emit("c", 100+k)
			} else {
				cli.Emit("ca", 100+k, func(back int) { mu.Lock(); cliAcks[100+k]++; mu.Unlock() })
			}
		}
		cli.Connect()
		settle(10 * time.Second)
		// one more round trip each way afterwards: the socket is usable
		after := false
		cli.Emit("ca", 999, func(back int) { mu.Lock(); after = back == 999; mu.Unlock() })
		settle(2 * time.Second)
		mu.Lock()
		defer mu.Unlock()
		if !cli.Connected() {
			res = fail("rig-connect", "client did not connect")
			return
		}
		for i, kind := range c.ServerEmits {
			if cliGot[i] != 1 {
				res = fail("delivered-exactly-once", fmt.Sprintf("server emit %d (%s) made from the %s ran the client's handler %d times (client handlers ran %v, server acks %v)", i, kind, c.Where, cliGot[i], cliGot, srvAcks))
				return
			}
			if kind != "plain" && (len(srvAcks[i]) != 1 || srvAcks[i][0] != fmt.Sprint("r", i)) {
				res = fail("ack-exactly-once-right-reply", fmt.Sprintf("server emit %d (%s) made from the %s: its callback got %v, want exactly [r%d]", i, kind, c.Where, srvAcks[i], i))
				return
			}
		}
		for k := 0; k < c.Buffered; k++ {
			if srvGot[100+k] != 1 {
				res = fail("offline-emit-delivered-once", fmt.Sprintf("client emit %d, made before Connect, reached the server %d times (server got %v; server emits %v)", 100+k, srvGot[100+k], srvGot, c.ServerEmits))
				return
			}
			if k%2 == 1 && cliAcks[100+k] != 1 {
				res = fail("ack-exactly-once-right-reply", fmt.Sprintf("client emit %d, made before Connect: its ack callback ran %d times", 100+k, cliAcks[100+k]))
				return
			}
		}
		if !after {
			res = fail("remains-usable", "after the connection an ack round trip from the client did not complete")
		}
	})
	if res == nil && msg != "" && !isBubbleDeadlock(msg) {
		res = fail("bubble-panic", "synctest: "+msg)
	}
	acks := 0
	for _, k := range c.ServerEmits {
		if k != "plain" {
			acks++
		}
	}
	return res, acks >= 1 && len(c.ServerEmits) >= 2
}

func TestC03_AtConnect(t *testing.T) {
	setT(t)
	defer startWatchdog(t, 60*time.Second)()
	ev := NewEv(t, "C03", c03eCheck, "rapid on the virtual-time rig: the server emits 1..5 events (plain / with an ack answered synchronously / with an ack answered 1 ms later) from its connection handler or from a "+
		"goroutine started in the namespace middleware, i.e. while the client is still processing the CONNECT reply; the client has 0..4 emits (half with acks) waiting in its offline buffer; optionally one "+
		"asynchronous dispatch held for 1 ms; oracle: every server emit runs the client's handler exactly once, every ack callback (both directions) runs exactly once with the right reply, every buffered client "+
		"emit reaches the server exactly once, a further round trip works; non-trivial = >= 2 server emits of which >= 1 carries an ack")
	rapidGuard(t, "C03", c03eCheck)
	runRapid(t, c03eCheck, tierN(6000, 80000), func(t *rapid.T) {
		c := c03eCase{Transport: rapid.SampledFrom([]string{"polling", "websocket"}).Draw(t, "transport"), Buffered: rapid.IntRange(0, 4).Draw(t, "buffered"),
			HoldHit: rapid.SampledFrom([]int{0, 0, 1, 2, 3, 4, 5, 6}).Draw(t, "hold"), Where: rapid.SampledFrom([]string{"connection-handler", "middleware-after-return"}).Draw(t, "where")}
		for i, n := 0, rapid.IntRange(1, 5).Draw(t, "emits"); i < n; i++ {
			c.ServerEmits = append(c.ServerEmits, rapid.SampledFrom([]string{"ack", "ack", "plain", "ack-async"}).Draw(t, "kind"))
		}
		f, nt := evalC03e(c)
		ev.Case(c, nt, c.Transport+","+c.Where)
		if nt {
			ev.Sample(c.Where, c)
		}
		if f != nil {
			FailRapid(t, *f)
		}
	})
}

func init() {
	registerReplay(c03eCheck, func(raw json.RawMessage) *Failure {
		f, _ := evalC03e(decodeCase[c03eCase](raw))
		return f
	})
}
