package harness

// C13 — size limits (client batcher part: exhaustive/valid splitting). See DESIGN.md §3 C13.

import (
	"encoding/json"
	"fmt"
	"testing"

	eio "github.com/karagenc/socket.io-go/engine.io"
	"github.com/karagenc/socket.io-go/engine.io/parser"
	"pgregory.net/rapid"
)

const c13CheckBatch = "c13-batcher"

type c13BatchCase struct {
	Sizes      []int  `json:"sizes"`  // data length of each packet
	Binary     []bool `json:"binary"` // whether packet i is a binary message
	MaxPayload int64  `json:"max_payload"`
	Transport  string `json:"transport"`
}

func (c c13BatchCase) packets() []*parser.Packet {
	ps := make([]*parser.Packet, len(c.Sizes))
	for i, n := range c.Sizes {
		d := make([]byte, n)
		for j := range d {
			d[j] = 'a' + byte(i)
		}
		ps[i] = &parser.Packet{Type: parser.PacketTypeMessage, IsBinary: i < len(c.Binary) && c.Binary[i], Data: d}
	}
	return ps
}

// evalC13Batch checks the validity predicate of the batching (not one expected output).
func evalC13Batch(c c13BatchCase) (f *Failure, splits int) {
	class := "text"
	for i := range c.Sizes {
		if i < len(c.Binary) && c.Binary[i] {
			class = "mixed"
		}
	}
	for _, n := range c.Sizes {
		if n == 0 {
			class += ",empty-packet"
			break
		}
	}
	fail := func(clause, detail string) *Failure {
		return &Failure{Property: "C13", Check: c13CheckBatch, Clause: clause, Class: class, Detail: detail, Case: c}
	}
	in := c.packets()
	var out [][]*parser.Packet
	if msg, _ := catchPanic(func() { out = eio.VerifBatch(c.Transport, c.MaxPayload, in) }); msg != "" {
		return fail("no-panic", "batcher panicked: "+msg), 0
	}
	// concatenation == input (same packets, same order)
	k := 0
	for bi, b := range out {
		if len(b) == 0 {
			return fail("no-empty-batch", fmt.Sprintf("batch %d is empty", bi)), 0
		}
		for _, p := range b {
			if k >= len(in) || p != in[k] {
				return fail("sequence-preserved", fmt.Sprintf("batches %v do not concatenate to the input (mismatch at output position %d)", batchSizes(out), k)), 0
			}
			k++
		}
	}
	if k != len(in) {
		return fail("sequence-preserved", fmt.Sprintf("%d of %d packets were handed to the transport (batches %v)", k, len(in), batchSizes(out))), 0
	}
	if c.Transport == "polling" && c.MaxPayload > 0 {
		for bi, b := range out {
			if len(b) >= 2 {
				if l := parser.EncodedPayloadsLen(b...); int64(l) > c.MaxPayload {
					return fail("batch-within-maxpayload", fmt.Sprintf("batch %d of %d packets encodes to %d bytes > maxPayload %d (batches %v)", bi, len(b), l, c.MaxPayload, batchSizes(out))), 0
				}
			}
		}
	}
	return nil, len(out) - 1
}

func batchSizes(out [][]*parser.Packet) [][]int {
	r := make([][]int, len(out))
	for i, b := range out {
		for _, p := range b {
			r[i] = append(r[i], len(p.Data))
		}
	}
	return r
}

func TestC13_BatcherExhaustive(t *testing.T) {
	maxN, maxSize, maxMP := tierV(5, 6), tierV(4, 6), tierV(30, 50)
	ev := NewEv(t, "C13", c13CheckBatch+"-enum", fmt.Sprintf("exhaustive: every vector of <= %d text packets with data sizes 0..%d x every maxPayload 1..%d on the polling transport, plus the same vectors with "+
		"every second packet binary; validity predicate: batches concatenate to the input, none empty, every batch of >= 2 packets encodes to <= maxPayload; "+
		"non-trivial = the vector needs >= 2 splits", maxN, maxSize, maxMP))
	ev.Exhaustive()
	reported := map[string]bool{}
	idx := 0
	var rec func(sizes []int)
	rec = func(sizes []int) {
		idx++
		if mine(idx) {
			for mp := 1; mp <= maxMP; mp++ {
				for variant := 0; variant < 2; variant++ {
					c := c13BatchCase{Sizes: append([]int{}, sizes...), MaxPayload: int64(mp), Transport: "polling"}
					if variant == 1 {
						if len(sizes) < 2 {
							continue
						}
						c.Binary = make([]bool, len(sizes))
						for i := range c.Binary {
							c.Binary[i] = i%2 == 1
						}
					}
					f, splits := evalC13Batch(c)
					ev.Case(c, splits >= 2, fmt.Sprintf("splits=%d", min(splits, 3)))
					if splits >= 2 {
						ev.Sample(fmt.Sprint(len(sizes), variant), c)
					}
					if f != nil && !reported[f.Sig()] {
						reported[f.Sig()] = true
						Report(t, *f)
					}
				}
			}
		}
		if len(sizes) == maxN {
			return
		}
		for s := 0; s <= maxSize; s++ {
			rec(append(sizes, s))
		}
	}
	rec(nil)
}

func TestC13_BatcherRapid(t *testing.T) {
	ev := NewEv(t, "C13", c13CheckBatch, "rapid: vectors of 0..12 packets with realistic sizes (0..2000, and around 1e6), text/binary mixes, maxPayload in {0 (none), tiny, 1e6±}, transports polling/websocket; "+
		"same validity predicate; non-trivial = >= 2 splits")
	rapidGuard(t, "C13", c13CheckBatch)
	runRapid(t, c13CheckBatch, tierN(20000, 400000), func(t *rapid.T) {
		n := rapid.IntRange(0, 12).Draw(t, "n")
		c := c13BatchCase{Transport: rapid.SampledFrom([]string{"polling", "polling", "polling", "websocket"}).Draw(t, "transport")}
		big := rapid.IntRange(0, 9).Draw(t, "big") == 0
		for i := 0; i < n; i++ {
			var s int
			if big {
				s = rapid.SampledFrom([]int{0, 1, 1000, 333331, 333332, 333333, 499998, 499999, 500000, 999998, 999999, 1000000, 1000001}).Draw(t, "bigsize")
			} else {
				s = rapid.IntRange(0, 40).Draw(t, "size")
			}
			c.Sizes = append(c.Sizes, s)
			c.Binary = append(c.Binary, rapid.IntRange(0, 3).Draw(t, "bin") == 0)
		}
		if big {
			c.MaxPayload = rapid.SampledFrom([]int64{0, 999999, 1000000, 1000001, 2000000}).Draw(t, "mp")
		} else {
			c.MaxPayload = int64(rapid.IntRange(0, 120).Draw(t, "mp"))
		}
		f, splits := evalC13Batch(c)
		ev.Case(c, splits >= 2, c.Transport)
		if splits >= 2 {
			ev.Sample(fmt.Sprint(big), c)
		}
		if f != nil {
			FailRapid(t, *f)
		}
	})
}

func init() {
	registerReplay(c13CheckBatch, func(raw json.RawMessage) *Failure {
		f, _ := evalC13Batch(decodeCase[c13BatchCase](raw))
		return f
	})
}
