package harness

// C17 — invalid Engine.IO requests get the protocol's error and create no session; ids unique; Close closes everything.
// See DESIGN.md §3 C17. The request matrix is driven through Server.ServeHTTP directly (recorder, no network); the live
// WebSocket session of the fixture runs over the in-memory network.

import (
	"bytes"
	"encoding/json"
	"fmt"
	"net/http"
	"net/http/httptest"
	"net/url"
	"runtime"
	"strings"
	"sync"
	"testing"
	"time"

	eio "github.com/karagenc/socket.io-go/engine.io"
	"github.com/karagenc/socket.io-go/engine.io/parser"
	"nhooyr.io/websocket"
	"pgregory.net/rapid"

	"verif/harness/memnet"
)

const c17CheckMatrix = "c17-matrix"

type c17Req struct {
	Method    string `json:"method"`
	EIO       string `json:"eio"`       // "-" = parameter absent
	Transport string `json:"transport"` // "-" = absent
	SID       string `json:"sid"`       // "-" absent | unknown | live-polling | live-websocket | closed
	B64       bool   `json:"b64"`
	JSONP     bool   `json:"jsonp"`
	HTTP2     bool   `json:"http2"` // the request arrives over HTTP/2 (ProtoMajor 2), as behind TLS; the rules are the same
	// POST only: the request carries a form-encoded body that names a supported version, the polling transport and the live polling session
	// (EIO=4&transport=polling&sid=<live>&d=6). The parameters of Engine.IO travel in the query string: the body changes nothing.
	FormBody bool `json:"form_body"`
}

// c17Fixture is a server with one live polling session, one live WebSocket session and one closed session.
type c17Fixture struct {
	server   *eio.Server
	hs       *http.Server
	net      *memnet.Net
	mu       sync.Mutex
	created  []string       // sids for which NewSocketCallback ran, in order
	closedCb map[string]int // sid -> close callbacks
	packets  map[string]int // sid -> packets received
	sockets  map[string]eio.ServerSocket
	pollSID  string
	wsSID    string
	deadSID  string
	wsClient eio.ClientSocket
}

func newC17Fixture() (*c17Fixture, error) {
	fx := &c17Fixture{closedCb: map[string]int{}, packets: map[string]int{}, sockets: map[string]eio.ServerSocket{}}
	fx.server = eio.NewServer(func(s eio.ServerSocket) *eio.Callbacks {
		fx.mu.Lock()
		fx.created = append(fx.created, s.ID())
		fx.sockets[s.ID()] = s
		fx.mu.Unlock()
		id := s.ID()
		return &eio.Callbacks{
			OnPacket: func(ps ...*parser.Packet) { fx.mu.Lock(); fx.packets[id] += len(ps); fx.mu.Unlock() },
			OnClose:  func(eio.Reason, error) { fx.mu.Lock(); fx.closedCb[id]++; fx.mu.Unlock() },
		}
	}, &eio.ServerConfig{PingInterval: 300 * time.Second, PingTimeout: 200 * time.Second})
	if err := fx.server.Run(); err != nil {
		return nil, err
	}
	fx.net = memnet.New()
	fx.hs = &http.Server{Handler: fx.server}
	go fx.hs.Serve(fx.net)

	open := func() (string, error) {
		rec := httptest.NewRecorder()
		fx.server.ServeHTTP(rec, httptest.NewRequest("GET", "/engine.io/?EIO=4&transport=polling", nil))
		if rec.Code != 200 || !strings.HasPrefix(rec.Body.String(), "0{") {
			return "", fmt.Errorf("fixture handshake failed: %d %q", rec.Code, rec.Body.String())
		}
		var hr parser.HandshakeResponse
		if err := json.Unmarshal(rec.Body.Bytes()[1:], &hr); err != nil {
			return "", err
		}
		return hr.SID, nil
	}
	var err error
	if fx.pollSID, err = open(); err != nil {
		return nil, err
	}
	if fx.deadSID, err = open(); err != nil {
		return nil, err
	}
	fx.mu.Lock()
	dead := fx.sockets[fx.deadSID]
	fx.mu.Unlock()
	dead.Close()
	tr := &http.Transport{DialContext: fx.net.Dial}
	fx.wsClient, err = eio.Dial("http://x/engine.io", nil, &eio.ClientConfig{Transports: []string{"websocket"}, HTTPTransport: tr,
		WebSocketDialOptions: &websocket.DialOptions{HTTPClient: &http.Client{Transport: tr}}})
	if err != nil {
		return nil, fmt.Errorf("fixture websocket dial: %w", err)
	}
	fx.wsSID = fx.wsClient.ID()
	// wait until the close callback of the dead session has run (it is asynchronous for nothing here, but be safe)
	for i := 0; i < 200; i++ {
		fx.mu.Lock()
		n := fx.closedCb[fx.deadSID]
		fx.mu.Unlock()
		if n > 0 {
			break
		}
		time.Sleep(time.Millisecond)
	}
	return fx, nil
}

func (fx *c17Fixture) close() {
	fx.wsClient.Close()
	fx.server.Close()
	fx.hs.Close()
	fx.net.Close()
	fx.net.CutAll()
}

func (fx *c17Fixture) snapshot() (created int, closed map[string]int) {
	fx.mu.Lock()
	defer fx.mu.Unlock()
	closed = map[string]int{}
	for k, v := range fx.closedCb {
		closed[k] = v
	}
	return len(fx.created), closed
}

// live reports whether the polling session still serves a POST and the WebSocket session still takes a message.
func (fx *c17Fixture) sessionsStillWork() string {
	rec := httptest.NewRecorder()
	fx.server.ServeHTTP(rec, httptest.NewRequest("POST", "/engine.io/?EIO=4&transport=polling&sid="+fx.pollSID, strings.NewReader("4hi")))
	if rec.Code != 200 || rec.Body.String() != "ok" {
		return fmt.Sprintf("the live polling session no longer accepts a POST: %d %q", rec.Code, rec.Body.String())
	}
	fx.mu.Lock()
	before := fx.packets[fx.wsSID]
	fx.mu.Unlock()
	p, _ := parser.NewPacket(parser.PacketTypeMessage, false, []byte("hi"))
	fx.wsClient.Send(p)
	for i := 0; i < 2000; i++ {
		fx.mu.Lock()
		n := fx.packets[fx.wsSID]
		fx.mu.Unlock()
		if n > before {
			return ""
		}
		time.Sleep(time.Millisecond)
	}
	return "the live WebSocket session no longer delivers a message"
}

func (r c17Req) url(fx *c17Fixture) string {
	q := url.Values{}
	if r.EIO != "-" {
		q.Set("EIO", r.EIO)
	}
	if r.Transport != "-" {
		q.Set("transport", r.Transport)
	}
	switch r.SID {
	case "unknown":
		q.Set("sid", "AAAAunknownAAAAAAAAA")
	case "live-polling":
		q.Set("sid", fx.pollSID)
	case "live-websocket":
		q.Set("sid", fx.wsSID)
	case "closed":
		q.Set("sid", fx.deadSID)
	}
	if r.B64 {
		q.Set("b64", "1")
	}
	if r.JSONP {
		q.Set("j", "0")
	}
	return "/engine.io/?" + q.Encode()
}

// invalidCodes returns the protocol error codes of the invalid aspects of the request (empty = nothing invalid).
func (r c17Req) invalidCodes() (codes map[int]string) {
	codes = map[int]string{}
	if r.EIO != "4" {
		codes[5] = "unsupported protocol version"
	}
	switch r.SID {
	case "-":
		if r.Method != "GET" {
			codes[2] = "bad handshake method"
		}
		if r.Transport != "polling" && r.Transport != "websocket" {
			codes[0] = "transport unknown"
		}
	case "unknown", "closed":
		codes[1] = "session id unknown"
	case "live-polling":
		if r.Transport != "polling" {
			codes[3] = "bad request (transport does not match the session)"
		}
	case "live-websocket":
		if r.Transport != "websocket" {
			codes[3] = "bad request (transport does not match the session)"
		}
	}
	return
}

// validTraffic: requests that are ordinary traffic of a live session (their outcome depends on the body / blocks for a poll).
func (r c17Req) validTraffic() bool {
	return r.EIO == "4" && r.SID == "live-polling" && r.Transport == "polling" && (r.Method == "GET" || r.Method == "POST")
}

func evalC17(fx *c17Fixture, r c17Req) *Failure {
	codes := r.invalidCodes()
	class := fmt.Sprintf("invalid=%d", len(codes))
	fail := func(clause, detail string) *Failure {
		return &Failure{Property: "C17", Check: c17CheckMatrix, Clause: clause, Class: class, Detail: detail, Case: r}
	}
	createdBefore, closedBefore := fx.snapshot()
	rec := httptest.NewRecorder()
	req := httptest.NewRequest(r.Method, r.url(fx), bytes.NewReader(nil))
	if r.FormBody {
		req = httptest.NewRequest(r.Method, r.url(fx), strings.NewReader("EIO=4&transport=polling&sid="+fx.pollSID+"&d=6"))
		req.Header.Set("Content-Type", "application/x-www-form-urlencoded")
	}
	if r.HTTP2 {
		req.Proto, req.ProtoMajor, req.ProtoMinor = "HTTP/2.0", 2, 0
	}
	done := make(chan string, 1)
	go func() {
		msg, _ := catchPanic(func() { fx.server.ServeHTTP(rec, req) })
		done <- msg
	}()
	select {
	case msg := <-done:
		if msg != "" {
			return fail("no-panic", "ServeHTTP panicked: "+msg)
		}
	case <-time.After(20 * time.Second):
		return fail("answers", "ServeHTTP did not return within 20 s of real time")
	}
	createdAfter, closedAfter := fx.snapshot()
	body := rec.Body.String()
	if len(codes) > 0 {
		// A mismatching transport on a live session with transport=websocket is an upgrade attempt: the WebSocket library answers
		// its own 4xx (no upgrade headers), which is as good as the protocol's "bad request".
		wsAttempt := r.EIO == "4" && r.SID == "live-polling" && r.Transport == "websocket"
		if wsAttempt {
			if rec.Code < 400 || rec.Code > 499 {
				return fail("error-status", fmt.Sprintf("upgrade request without upgrade headers answered %d %q", rec.Code, body))
			}
		} else {
			if rec.Code != 400 {
				return fail("error-status", fmt.Sprintf("invalid request (%v) answered with status %d %q, want 400", codes, rec.Code, body))
			}
			var se struct {
				Code    *int   `json:"code"`
				Message string `json:"message"`
			}
			if err := json.Unmarshal([]byte(body), &se); err != nil || se.Code == nil {
				return fail("error-body", fmt.Sprintf("invalid request (%v) answered 400 with body %q, want the protocol's JSON error", codes, body))
			}
			if _, ok := codes[*se.Code]; !ok {
				return fail("error-code", fmt.Sprintf("invalid request answered with code %d (%q); the invalid aspects are %v", *se.Code, se.Message, codes))
			}
			if want, _ := eio.GetServerError(*se.Code); want.Message != se.Message {
				return fail("error-body", fmt.Sprintf("code %d carries message %q, the protocol says %q", *se.Code, se.Message, want.Message))
			}
		}
		if createdAfter != createdBefore {
			return fail("no-session-created", fmt.Sprintf("an invalid request (%v) invoked NewSocketCallback", codes))
		}
	} else {
		switch {
		case r.SID == "-" && r.Transport == "polling":
			if rec.Code != 200 {
				return fail("valid-handshake", fmt.Sprintf("valid polling handshake answered %d %q", rec.Code, body))
			}
			payload := body
			if r.JSONP {
				if !strings.HasPrefix(body, `___eio[0]("`) {
					return fail("valid-handshake", fmt.Sprintf("JSONP handshake answered %q", body))
				}
			} else {
				if !strings.HasPrefix(payload, "0{") {
					return fail("valid-handshake", fmt.Sprintf("handshake answered %q, want an OPEN packet", body))
				}
				var hr parser.HandshakeResponse
				if err := json.Unmarshal([]byte(payload[1:]), &hr); err != nil || hr.SID == "" {
					return fail("valid-handshake", fmt.Sprintf("OPEN packet %q does not parse: %v", payload, err))
				}
			}
			if createdAfter != createdBefore+1 {
				return fail("valid-handshake", fmt.Sprintf("NewSocketCallback ran %d times for one handshake", createdAfter-createdBefore))
			}
			fx.mu.Lock()
			sid := fx.created[len(fx.created)-1]
			seen := 0
			for _, s := range fx.created {
				if s == sid {
					seen++
				}
			}
			fx.mu.Unlock()
			if seen != 1 {
				return fail("sid-unique", "a handshake returned a session id that was handed out before: "+sid)
			}
		case r.SID == "-" && r.Transport == "websocket":
			// No upgrade headers on a recorder: the WebSocket library rejects it; no session may appear.
			if rec.Code < 400 || createdAfter != createdBefore {
				return fail("no-session-created", fmt.Sprintf("websocket handshake without upgrade headers: status %d, sessions created %d", rec.Code, createdAfter-createdBefore))
			}
		default:
			// other methods / plain requests on a live session: the protocol names no code; only side effects are checked
			if createdAfter != createdBefore {
				return fail("no-session-created", "a request on a live session created another session")
			}
		}
	}
	for sid, n := range closedAfter {
		if n != closedBefore[sid] {
			return fail("no-session-altered", fmt.Sprintf("the request closed session %s", sid))
		}
	}
	if msg := fx.sessionsStillWork(); msg != "" {
		return fail("no-session-altered", msg)
	}
	return nil
}

func c17Matrix() []c17Req {
	var out []c17Req
	for _, m := range []string{"GET", "POST", "PUT", "DELETE", "OPTIONS"} {
		for _, v := range []string{"-", "3", "4", "5", "x4", ""} {
			for _, tr := range []string{"-", "polling", "websocket", "junk"} {
				for _, sid := range []string{"-", "unknown", "live-polling", "live-websocket", "closed"} {
					for _, b64 := range []bool{false, true} {
						for _, j := range []bool{false, true} {
							out = append(out, c17Req{Method: m, EIO: v, Transport: tr, SID: sid, B64: b64, JSONP: j})
							if r := (c17Req{Method: m, EIO: v, Transport: tr, SID: sid, B64: b64, JSONP: j, FormBody: true}); m == "POST" && !r.validTraffic() {
								out = append(out, r)
							}
							if tr != "websocket" { // (a WebSocket upgrade is an HTTP/1.1 matter)
								out = append(out, c17Req{Method: m, EIO: v, Transport: tr, SID: sid, B64: b64, JSONP: j, HTTP2: true})
							}
						}
					}
				}
			}
		}
	}
	return out
}

func TestC17_Matrix(t *testing.T) {
	ev := NewEv(t, "C17", c17CheckMatrix, "exhaustive request matrix: method {GET,POST,PUT,DELETE,OPTIONS} x EIO {absent,3,4,5,x4,empty} x transport {absent,polling,websocket,junk} x "+
		"sid {absent,unknown,live polling,live websocket,closed} x b64 x jsonp x {HTTP/1.1, HTTP/2 (non-WebSocket)} (+ POSTs with a form-encoded body naming valid parameters) = 4676 requests through Server.ServeHTTP against a fixture with live sessions (valid poll/post traffic excluded); "+
		"oracle: 400 + protocol JSON error whose code belongs to the invalid aspects, NewSocketCallback not invoked, no session closed, both live sessions still work afterwards; "+
		"non-trivial = >= 2 invalid aspects at once")
	ev.Exhaustive()
	fx, err := newC17Fixture()
	if err != nil {
		t.Fatalf("fixture: %v", err)
	}
	defer fx.close()
	reported := map[string]bool{}
	for i, r := range c17Matrix() {
		if !mine(i) {
			continue
		}
		if r.validTraffic() {
			ev.Class("excluded-valid-traffic", 1)
			continue
		}
		n := len(r.invalidCodes())
		ev.Case(r, n >= 2, fmt.Sprintf("invalid=%d", n))
		if n >= 2 {
			ev.Sample(fmt.Sprint(n, r.SID), r)
		}
		if f := evalC17(fx, r); f != nil && !reported[f.Sig()+f.Detail[:min(40, len(f.Detail))]] {
			reported[f.Sig()+f.Detail[:min(40, len(f.Detail))]] = true
			Report(t, *f)
		}
	}
}

// ---- session ids ----------------------------------------------------------------------------------------------------

const c17CheckIDs = "c17-ids"

func TestC17_IDs(t *testing.T) {
	n := tierN(100000, 1000000)
	ev := NewEv(t, "C17", c17CheckIDs, "ids from GenerateBase64ID drawn concurrently from 16 goroutines plus real handshakes, sequential and in rounds of 64 simultaneous ones (every client is told the id of the session created for it, no two the same): "+
		"pairwise distinct, well-formed (URL-safe base64 of 15 bytes); "+
		"non-trivial = every id (each is compared with all others)")
	var mu sync.Mutex
	seen := make(map[string]struct{}, n)
	var wg sync.WaitGroup
	var firstErr string
	per := n / 16
	for g := 0; g < 16; g++ {
		wg.Add(1)
		go func() {
			defer wg.Done()
			local := make([]string, 0, per)
			for i := 0; i < per; i++ {
				id, err := eio.GenerateBase64ID(eio.Base64IDSize)
				if err != nil {
					mu.Lock()
					firstErr = "GenerateBase64ID failed: " + err.Error()
					mu.Unlock()
					return
				}
				local = append(local, id)
			}
			mu.Lock()
			for _, id := range local {
				if _, dup := seen[id]; dup && firstErr == "" {
					firstErr = "duplicate id " + id
				}
				if len(id) != 20 || strings.ContainsAny(id, "+/= ") {
					firstErr = "malformed id " + id
				}
				seen[id] = struct{}{}
			}
			mu.Unlock()
		}()
	}
	wg.Wait()
	for id := range seen {
		ev.Case(id, true)
		if len(seen) > 0 {
			ev.Sample("id", id)
		}
	}
	if firstErr != "" {
		Fail(t, Failure{Property: "C17", Check: c17CheckIDs, Clause: "sid-unique", Class: "generated", Detail: firstErr})
	}
	// real handshakes
	srv := eio.NewServer(nil, nil)
	sids := map[string]bool{}
	hn := tierV(2000, 10000) / envShards
	for i := 0; i < hn; i++ {
		rec := httptest.NewRecorder()
		srv.ServeHTTP(rec, httptest.NewRequest("GET", "/engine.io/?EIO=4&transport=polling", nil))
		var hr parser.HandshakeResponse
		if rec.Code != 200 || json.Unmarshal(rec.Body.Bytes()[1:], &hr) != nil {
			Fail(t, Failure{Property: "C17", Check: c17CheckIDs, Clause: "valid-handshake", Class: "handshake", Detail: fmt.Sprintf("handshake %d answered %d %q", i, rec.Code, rec.Body.String())})
		}
		if sids[hr.SID] {
			Fail(t, Failure{Property: "C17", Check: c17CheckIDs, Clause: "sid-unique", Class: "handshake", Detail: "two live sessions share the id " + hr.SID})
		}
		sids[hr.SID] = true
		ev.Case("hs"+hr.SID, true, "handshake")
	}
	srv.Close()
	// simultaneous handshakes: every client is told the id of the session that was created for it, and no two clients the same one
	var cmu sync.Mutex
	created := map[string]bool{}
	srv2 := eio.NewServer(func(s eio.ServerSocket) *eio.Callbacks {
		cmu.Lock()
		created[s.ID()] = true
		cmu.Unlock()
		return nil
	}, nil)
	rounds := tierV(40, 400) / max(envShards/4, 1)
	for round := 0; round < rounds; round++ {
		const par = 64
		answered := make([]string, par)
		var wg2 sync.WaitGroup
		gate := make(chan struct{})
		for g := 0; g < par; g++ {
			wg2.Add(1)
			go func() {
				defer wg2.Done()
				<-gate
				rec := httptest.NewRecorder()
				srv2.ServeHTTP(rec, httptest.NewRequest("GET", "/engine.io/?EIO=4&transport=polling", nil))
				var hr parser.HandshakeResponse
				if rec.Code == 200 && rec.Body.Len() > 1 && json.Unmarshal(rec.Body.Bytes()[1:], &hr) == nil {
					answered[g] = hr.SID
				} else {
					answered[g] = fmt.Sprintf("!%d %q", rec.Code, rec.Body.String())
				}
			}()
		}
		close(gate)
		wg2.Wait()
		told := map[string]int{}
		cmu.Lock()
		for g, sid := range answered {
			told[sid]++
			ev.Case("par"+sid+fmt.Sprint(round, g), true, "simultaneous-handshake")
			if strings.HasPrefix(sid, "!") {
				cmu.Unlock()
				Fail(t, Failure{Property: "C17", Check: c17CheckIDs, Clause: "valid-handshake", Class: "simultaneous", Detail: "a simultaneous handshake was answered " + sid})
			}
			if !created[sid] {
				cmu.Unlock()
				Fail(t, Failure{Property: "C17", Check: c17CheckIDs, Clause: "sid-unique", Class: "simultaneous", Detail: fmt.Sprintf("round %d: a client was told the session id %q, but no session with that id was created (%d simultaneous handshakes)", round, sid, par)})
			}
		}
		cmu.Unlock()
		for sid, n := range told {
			if n > 1 {
				Fail(t, Failure{Property: "C17", Check: c17CheckIDs, Clause: "sid-unique", Class: "simultaneous", Detail: fmt.Sprintf("round %d: %d of %d simultaneous handshakes were told the same session id %q", round, n, par, sid)})
			}
		}
	}
	srv2.Close()
}

// ---- requests racing Close --------------------------------------------------------------------------------------------

// Run with VERIF_AS=C06 the same check reports under C06: a session created while Server.Close is busy and never closed is a connection whose
// end is never reported and that is left behind.
var c17CloseProp, c17CheckClose = func() (string, string) {
	if envStr("VERIF_AS", "") == "C06" {
		return "C06", "c06-engine-close-race"
	}
	return "C17", "c17-close"
}()

type c17CloseCase struct {
	Handshakers     int  `json:"handshakers"`
	PerG            int  `json:"per_goroutine"`
	CloseAfter      int  `json:"close_after"`       // Close is called once this many handshakes have started
	Yield           bool `json:"yield"`             // park handshakes at the hook before store.set while Close runs
	SlowCloseYields int  `json:"slow_close_yields"` // every session's close callback yields the processor that often, so Close is still busy while handshakes arrive
}

func evalC17Close(c c17CloseCase) (*Failure, bool) {
	fail := func(clause, detail string) *Failure {
		return &Failure{Property: c17CloseProp, Check: c17CheckClose, Clause: clause, Class: fmt.Sprintf("yield=%v", c.Yield), Detail: detail, Case: c}
	}
	var res *Failure
	raced := false
	body := func() {
		var mu sync.Mutex
		created := map[string]eio.ServerSocket{}
		closed := map[string]int{}
		srv := eio.NewServer(func(s eio.ServerSocket) *eio.Callbacks {
			id := s.ID()
			mu.Lock()
			created[id] = s
			mu.Unlock()
			return &eio.Callbacks{OnClose: func(eio.Reason, error) {
				mu.Lock()
				closed[id]++
				mu.Unlock()
				for i := 0; i < c.SlowCloseYields; i++ {
					runtime.Gosched() // the application's close handler takes a while (no virtual time: a sleeping handler would freeze the bubble's clock, DESIGN.md §2.2): Close lasts, handshakes keep arriving
				}
			}}
		}, nil)
		_ = srv.Run()
		started := 0
		closeCalled := make(chan struct{})
		closeReturned := false
		var once sync.Once
		doClose := func() {
			once.Do(func() {
				close(closeCalled)
				srv.Close()
				mu.Lock()
				closeReturned = true
				mu.Unlock()
			})
		}
		hook := func(site string) {
			if site != "eio.Server.newSocket:before-store" || !c.Yield {
				return
			}
			select {
			case <-closeCalled:
			default:
				mu.Lock()
				n := started
				mu.Unlock()
				if n >= c.CloseAfter {
					// this handshake passed the closed check; let Close run to completion before it registers its session
					raced = true
					go doClose()
					time.Sleep(time.Nanosecond)
				}
			}
		}
		var wg sync.WaitGroup
		var lateAccepted []string
		withHooks(hookSet{point: hook}, func() {
			for g := 0; g < c.Handshakers; g++ {
				wg.Add(1)
				go func() {
					defer wg.Done()
					for i := 0; i < c.PerG; i++ {
						mu.Lock()
						started++
						n := started
						afterClose := closeReturned
						mu.Unlock()
						if n == c.CloseAfter && !c.Yield {
							go doClose()
						}
						rec := httptest.NewRecorder()
						srv.ServeHTTP(rec, httptest.NewRequest("GET", "/engine.io/?EIO=4&transport=polling", nil))
						if afterClose && rec.Code == 200 {
							mu.Lock()
							lateAccepted = append(lateAccepted, rec.Body.String())
							mu.Unlock()
						}
					}
				}()
			}
			wg.Wait()
			doClose()
			time.Sleep(time.Second)
		})
		mu.Lock()
		defer mu.Unlock()
		if len(lateAccepted) > 0 {
			res = fail("closed-admits-none", fmt.Sprintf("%d handshakes that started after Close returned were accepted", len(lateAccepted)))
			return
		}
		for id := range created {
			if closed[id] != 1 {
				res = fail("close-closes-all", fmt.Sprintf("session %s was created (NewSocketCallback ran) but its close callback ran %d times after Server.Close returned; %d sessions created, %d closed",
					id, closed[id], len(created), len(closed)))
				return
			}
		}
		// old sids answer with an error (503: closed server, or unknown sid)
		for id := range created {
			rec := httptest.NewRecorder()
			srv.ServeHTTP(rec, httptest.NewRequest("GET", "/engine.io/?EIO=4&transport=polling&sid="+id, nil))
			if rec.Code == 200 {
				res = fail("closed-admits-none", "a poll on a session of the closed server answered 200")
			}
			break
		}
		time.Sleep(10 * time.Minute)
	}
	if msg := inBubble(curT, body); msg != "" && res == nil {
		res = fail("bubble-panic", "synctest: "+msg)
	}
	return res, raced
}

func TestC17_CloseRace(t *testing.T) {
	setT(t)
	ev := NewEv(t, c17CloseProp, c17CheckClose, "rapid (virtual time): 1..8 goroutines x 1..6 handshakes while Server.Close runs after the k-th handshake started, the sessions' close callbacks optionally busy for 200 / 5000 scheduler yields; with the yield hook a handshake that "+
		"passed the closed check is parked before store.set until Close has finished; oracle: every created session gets exactly one close callback, nothing is admitted after Close returned; "+
		"non-trivial = a handshake was parked across Close")
	rapidGuard(t, c17CloseProp, c17CheckClose)
	runRapid(t, c17CheckClose, tierN(1200, 20000), func(t *rapid.T) {
		c := c17CloseCase{Handshakers: rapid.IntRange(1, 8).Draw(t, "g"), PerG: rapid.IntRange(1, 6).Draw(t, "per"), Yield: rapid.Bool().Draw(t, "yield"),
			SlowCloseYields: rapid.SampledFrom([]int{0, 0, 200, 5000}).Draw(t, "slowClose")}
		c.CloseAfter = rapid.IntRange(1, c.Handshakers*c.PerG).Draw(t, "closeAfter")
		f, raced := evalC17Close(c)
		ev.Case(c, raced, fmt.Sprintf("yield=%v", c.Yield))
		if raced {
			ev.Sample("raced", c)
		}
		if f != nil {
			FailRapid(t, *f)
		}
	})
}

func init() {
	registerReplay(c17CheckMatrix, func(raw json.RawMessage) *Failure {
		fx, err := newC17Fixture()
		if err != nil {
			return &Failure{Property: "C17", Check: c17CheckMatrix, Clause: "fixture", Class: "-", Detail: err.Error()}
		}
		defer fx.close()
		return evalC17(fx, decodeCase[c17Req](raw))
	})
	registerReplay(c17CheckClose, func(raw json.RawMessage) *Failure {
		f, _ := evalC17Close(decodeCase[c17CloseCase](raw))
		return f
	})
}
