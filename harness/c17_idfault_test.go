package harness

// C17 — "every accepted handshake yields a session id unique among live sessions", under an injected fault of the entropy
// source. An id is 11 random bytes + 1 random byte that overwrites the top byte of the sequence number + the low 24 bits of a
// process-wide sequence number. With a healthy crypto/rand two ids never meet in any run one can afford, so the part of the
// mechanism that the statement names - "retried against the store" - is never exercised by c17-ids. Here the fault is generated:
// crypto/rand.Reader is replaced by a reader that repeats a short generated pattern, and the sequence number is moved (hook
// VerifSetBase64IDSeq: a wrap of the 24 effective bits without drawing 2^24 ids) onto, or shortly before, the number a live
// session was created with. Oracle (model: the set of live ids): a handshake is either answered 200 with an id that no live session
// has and for which a session was created, or refused (5xx) without creating or closing anything; live sessions are never closed
// by somebody else's handshake.

import (
	"crypto/rand"
	"encoding/json"
	"fmt"
	"io"
	"net/http/httptest"
	"sync"
	"testing"

	eio "github.com/karagenc/socket.io-go/engine.io"
	"github.com/karagenc/socket.io-go/engine.io/parser"
	"pgregory.net/rapid"
)

const c17CheckIDFault = "c17-id-entropy-fault"

type c17IDFaultOp struct {
	Op string `json:"op"` // handshake | close | rewind
	// close: index into the live sessions (mod their number). rewind: index of the live session whose sequence number is targeted.
	Index int `json:"index"`
	// rewind: the next id gets the sequence number of that session minus Back (0 = the very same number), plus Wraps<<24
	// (the top byte does not reach the id).
	Back  int `json:"back"`
	Wraps int `json:"wraps"`
}

type c17IDFaultCase struct {
	Pattern []byte         `json:"pattern"` // the faulty entropy source repeats these bytes for ever
	Start   uint32         `json:"start"`   // sequence number at the start
	Ops     []c17IDFaultOp `json:"ops"`
}

type patternReader struct {
	mu  sync.Mutex
	pat []byte
	i   int
}

func (r *patternReader) Read(p []byte) (int, error) {
	r.mu.Lock()
	defer r.mu.Unlock()
	for k := range p {
		p[k] = r.pat[r.i%len(r.pat)]
		r.i++
	}
	return len(p), nil
}

var c17RandMu sync.Mutex

func evalC17IDFault(c c17IDFaultCase) (f *Failure, collisions int, refused int) {
	fail := func(clause, class, detail string) *Failure {
		return &Failure{Property: "C17", Check: c17CheckIDFault, Clause: clause, Class: class, Detail: detail, Case: c}
	}
	if len(c.Pattern) == 0 {
		c.Pattern = []byte{0x5a}
	}
	c17RandMu.Lock()
	defer c17RandMu.Unlock()
	savedReader, savedSeq := rand.Reader, eio.VerifBase64IDSeq()
	var maxSeq uint32 = savedSeq
	defer func() {
		rand.Reader = savedReader
		eio.VerifSetBase64IDSeq(maxSeq + 1<<20) // later checks of this process start far from everything drawn here
	}()
	rand.Reader = io.Reader(&patternReader{pat: c.Pattern})
	eio.VerifSetBase64IDSeq(c.Start)

	type live struct {
		sid  string
		seq  uint32 // the sequence number the id was drawn with (the last draw of its handshake)
		sock eio.ServerSocket
	}
	var (
		mu       sync.Mutex
		created  = map[string]eio.ServerSocket{}
		nCreated int
		closedCb = map[string]int{}
	)
	srv := eio.NewServer(func(s eio.ServerSocket) *eio.Callbacks {
		mu.Lock()
		created[s.ID()] = s
		nCreated++
		mu.Unlock()
		id := s.ID()
		return &eio.Callbacks{OnClose: func(eio.Reason, error) {
			mu.Lock()
			closedCb[id]++
			mu.Unlock()
		}}
	}, nil)
	defer srv.Close()
	var lives []live
	liveBy := map[string]int{}
	reindex := func() {
		liveBy = map[string]int{}
		for i, l := range lives {
			liveBy[l.sid] = i
		}
	}
	weClosed := 0
	for i, op := range c.Ops {
		switch op.Op {
		case "close":
			if len(lives) == 0 {
				continue
			}
			k := op.Index % len(lives)
			l := lives[k]
			lives = append(lives[:k], lives[k+1:]...)
			reindex()
			weClosed++
			l.sock.Close()
		case "rewind":
			if len(lives) == 0 {
				continue
			}
			l := lives[op.Index%len(lives)]
			eio.VerifSetBase64IDSeq(l.seq - uint32(op.Back) + uint32(op.Wraps)<<24)
		case "handshake":
			before := eio.VerifBase64IDSeq()
			mu.Lock()
			createdBefore := nCreated
			mu.Unlock()
			rec := httptest.NewRecorder()
			srv.ServeHTTP(rec, httptest.NewRequest("GET", "/engine.io/?EIO=4&transport=polling", nil))
			after := eio.VerifBase64IDSeq()
			if after > maxSeq {
				maxSeq = after
			}
			draws := int(after - before)
			if draws > 1 {
				collisions++
			}
			mu.Lock()
			createdNow := nCreated - createdBefore
			mu.Unlock()
			var hr parser.HandshakeResponse
			told := rec.Code == 200 && rec.Body.Len() > 1 && rec.Body.Bytes()[0] == '0' && json.Unmarshal(rec.Body.Bytes()[1:], &hr) == nil
			if told {
				if k, dup := liveBy[hr.SID]; dup {
					return fail("sid-unique", "entropy-fault", fmt.Sprintf("op %d: the handshake was answered 200 with the session id %q, which the live session created by an earlier handshake (sequence number %d) has; %d id(s) drawn for this handshake starting at sequence number %d, sessions created by it: %d",
						i, hr.SID, lives[k].seq, draws, before, createdNow)), collisions, refused
				}
				mu.Lock()
				sock := created[hr.SID]
				mu.Unlock()
				if sock == nil || createdNow != 1 {
					return fail("sid-unique", "told-without-session", fmt.Sprintf("op %d: the handshake was answered 200 with the session id %q but %d sessions were created by it (callback for that id: %v)", i, hr.SID, createdNow, sock != nil)), collisions, refused
				}
				lives = append(lives, live{sid: hr.SID, seq: after - 1, sock: sock})
				reindex()
			} else {
				refused++
				if rec.Code < 500 {
					return fail("valid-handshake", "entropy-fault", fmt.Sprintf("op %d: a valid handshake was answered %d %q (%d ids drawn)", i, rec.Code, rec.Body.String(), draws)), collisions, refused
				}
				if createdNow != 0 {
					return fail("no-side-effect", "refused-but-created", fmt.Sprintf("op %d: the handshake was refused with %d, yet %d session(s) were created by it", i, rec.Code, createdNow)), collisions, refused
				}
			}
		}
		// nobody else's session is ever closed, and every live session is still in the store (a poll on it is not "unknown sid")
		mu.Lock()
		nClosed := 0
		for _, n := range closedCb {
			nClosed += n
		}
		mu.Unlock()
		if nClosed != weClosed {
			return fail("no-side-effect", "session-closed", fmt.Sprintf("after op %d (%s): %d close callbacks ran, the case closed %d sessions itself", i, op.Op, nClosed, weClosed)), collisions, refused
		}
	}
	// every live session is still known to the server under its id, as itself
	for _, l := range lives {
		rec := httptest.NewRecorder()
		srv.ServeHTTP(rec, httptest.NewRequest("POST", "/engine.io/?EIO=4&transport=polling&sid="+l.sid, nil))
		if rec.Code == 400 && rec.Body.Len() > 0 {
			var e struct {
				Code int `json:"code"`
			}
			if json.Unmarshal(rec.Body.Bytes(), &e) == nil && e.Code == 1 {
				return fail("no-side-effect", "live-session-unknown", fmt.Sprintf("the live session %q is unknown to the server at the end of the case: %s", l.sid, rec.Body.String())), collisions, refused
			}
		}
	}
	return nil, collisions, refused
}

func TestC17_IDFault(t *testing.T) {
	setT(t)
	ev := NewEv(t, "C17", c17CheckIDFault, "rapid, fault injection: crypto/rand.Reader replaced by a reader repeating a generated pattern of 1..24 bytes (1 byte = stuck source; 12 = every id has the same random part), the "+
		"sequence number moved by the hook onto or up to 12 before the number a live session's id was drawn with (plus k<<24: a wrap of the 24 bits that reach the id); sequences of 2..40 handshake / close / rewind operations; "+
		"oracle: model of the live ids - a handshake is answered 200 with an id no live session has and exactly one session created for it, or refused with 5xx and nothing created; no session is closed by another handshake; every live session still known at the end; "+
		"non-trivial = at least one handshake drew more than one id (an id met a live one and was retried) or was refused")
	rapidGuard(t, "C17", c17CheckIDFault)
	ev.Assume("the entropy fault is process-wide for the duration of a case (crypto/rand.Reader is a global); nothing else in this test process draws random bytes meanwhile (tests of the group run one after another)")
	// the shrunk failure of seed C17r3-2 and two relatives, as plain cases that bypass the library
	hs, rw := c17IDFaultOp{Op: "handshake"}, func(back, wraps int) c17IDFaultOp { return c17IDFaultOp{Op: "rewind", Back: back, Wraps: wraps} }
	for _, c := range []c17IDFaultCase{
		{Pattern: []byte{0}, Start: 0, Ops: []c17IDFaultOp{hs, rw(0, 0), hs}},
		{Pattern: []byte{0x5a}, Start: 1<<24 - 1, Ops: []c17IDFaultOp{hs, hs, hs, rw(2, 1), hs, hs}},
		{Pattern: []byte("0123456789ab"), Start: 5, Ops: []c17IDFaultOp{hs, hs, hs, hs, hs, hs, hs, hs, hs, hs, hs, hs, rw(11, 255), hs, hs}},
	} {
		f, collisions, refused := evalC17IDFault(c)
		ev.Case(c, collisions > 0 || refused > 0, "regression")
		if f != nil {
			Fail(t, *f)
		}
	}
	runRapid(t, c17CheckIDFault, tierN(1500, 600000), func(t *rapid.T) {
		c := c17IDFaultCase{}
		switch rapid.IntRange(0, 3).Draw(t, "patternKind") {
		case 0:
			c.Pattern = []byte{rapid.Byte().Draw(t, "stuck")}
		case 1:
			c.Pattern = rapid.SliceOfN(rapid.Byte(), 12, 12).Draw(t, "pattern12")
		default:
			c.Pattern = rapid.SliceOfN(rapid.Byte(), 1, 24).Draw(t, "pattern")
		}
		c.Start = rapid.SampledFrom([]uint32{0, 1, 1<<24 - 3, 1<<24 - 1, 1 << 24, 1<<32 - 2, 77777}).Draw(t, "start")
		n := rapid.IntRange(2, 40).Draw(t, "n")
		for i := 0; i < n; i++ {
			switch rapid.IntRange(0, 9).Draw(t, "kind") {
			case 0, 1, 2, 3, 4:
				c.Ops = append(c.Ops, c17IDFaultOp{Op: "handshake"})
			case 5:
				c.Ops = append(c.Ops, c17IDFaultOp{Op: "close", Index: rapid.IntRange(0, 40).Draw(t, "index")})
			default:
				c.Ops = append(c.Ops, c17IDFaultOp{Op: "rewind", Index: rapid.IntRange(0, 40).Draw(t, "index"),
					Back: rapid.SampledFrom([]int{0, 0, 0, 1, 2, 5, 11, 12}).Draw(t, "back"), Wraps: rapid.SampledFrom([]int{0, 0, 1, 255}).Draw(t, "wraps")})
			}
		}
		f, collisions, refused := evalC17IDFault(c)
		classes := []string{fmt.Sprintf("pattern-len=%d", min(len(c.Pattern), 13))}
		if collisions > 0 {
			classes = append(classes, "retried")
		}
		if refused > 0 {
			classes = append(classes, "refused-max-try")
		}
		ev.Case(c, collisions > 0 || refused > 0, classes...)
		if collisions > 0 {
			ev.Sample("retried", c)
		}
		if refused > 0 {
			ev.Sample("refused", c)
		}
		if f != nil {
			FailRapid(t, *f)
		}
	})
}

func init() {
	registerReplay(c17CheckIDFault, func(raw json.RawMessage) *Failure {
		f, _, _ := evalC17IDFault(decodeCase[c17IDFaultCase](raw))
		return f
	})
}
