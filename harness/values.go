package harness

// A small library of Go argument shapes for Socket.IO events (C01, C09, C10): generators (rapid), an independent
// value-to-tree walker, and a deep copy. Trees (refcodec.Tree) are the canonical form in which emitted, encoded and
// received values are compared.

import (
	"fmt"
	"math"
	"reflect"
	"strconv"

	sio "github.com/karagenc/socket.io-go"
	"pgregory.net/rapid"

	"verif/harness/refcodec"
)

type Bin = sio.Binary

type vInner struct {
	Name string `json:"name"`
	Bin  Bin    `json:"bin"`
	N    int64  `json:"n"`
}

type vOuter struct {
	ID    uint64         `json:"id"`
	Title string         `json:"title"`
	Data  Bin            `json:"data"`
	In    vInner         `json:"in"`
	Ptr   *vInner        `json:"ptr"`
	List  []vInner       `json:"list"`
	PList []*vInner      `json:"plist"`
	Bins  map[string]Bin `json:"bins"`
	Any   any            `json:"any"`
	F     float64
	OK    bool     `json:"ok"`
	Tags  []string `json:"tags"`
}

// vLoose has no field of type Binary: whether a value of it carries attachments depends on the value (a slice, a map, an interface-typed
// field), not on the type.
type vLoose struct {
	Title string         `json:"title"`
	Parts []Bin          `json:"parts"`
	Bins  map[string]Bin `json:"bins"`
	Any   any            `json:"any"`
	Items []vLooseItem   `json:"items"`
}

type vLooseItem struct {
	K    string `json:"k"`
	Blob []Bin  `json:"blob"`
}

func genLoose(t *rapid.T, g *valGen) vLoose {
	o := vLoose{Title: genString(t, g)}
	if rapid.Bool().Draw(t, g.l("plain")) {
		return o // the same type without any attachment
	}
	for i, n := 0, rapid.IntRange(0, 2).Draw(t, g.l("parts")); i < n; i++ {
		if b := genBin(t, g); b != nil {
			o.Parts = append(o.Parts, b)
		}
	}
	if rapid.Bool().Draw(t, g.l("bins")) {
		o.Bins = map[string]Bin{}
		if b := genBin(t, g); b != nil {
			o.Bins[rapid.SampledFrom([]string{"x", "y"}).Draw(t, g.l("bk"))] = b
		}
	}
	if rapid.Bool().Draw(t, g.l("any")) {
		o.Any = []any{genDyn(t, g, 2, true)}
	}
	for i, n := 0, rapid.IntRange(0, 2).Draw(t, g.l("items")); i < n; i++ {
		it := vLooseItem{K: genString(t, g)}
		if b := genBin(t, g); b != nil {
			it.Blob = []Bin{b}
		}
		o.Items = append(o.Items, it)
	}
	return o
}

var (
	binType   = reflect.TypeOf(Bin(nil))
	bytesType = reflect.TypeOf([]byte(nil))
)

// shape describes one argument type an event handler may declare.
type shape struct {
	Name string
	Type reflect.Type
	Gen  func(t *rapid.T, g *valGen) any
	// Dynamic shapes are decoded into interface-typed targets (any, []any, map[string]any).
	Dynamic bool
}

// valGen carries the size policy for one generated packet.
type valGen struct {
	maxBin   int  // upper bound for the size of one attachment
	allowBin bool // generate Binary leaves at all
	binCount int
	maxBins  int
	label    int
}

func (g *valGen) l(s string) string { g.label++; return fmt.Sprintf("%s#%d", s, g.label) }

var hostileStrings = []string{"", "a", "a\\", "\\", "\"", "a\"b", "\\\"", "\\\\", "é", "日本", " ", "<>&", "a b", "a\nb", "\x00", "\t", "[", "{\"_placeholder\":true,\"num\":0}",
	"/", ",", "0", "12-", "a,b", "𝄞", "\u007f", "'"}

func genString(t *rapid.T, g *valGen) string {
	switch rapid.IntRange(0, 3).Draw(t, g.l("strkind")) {
	case 0:
		return rapid.SampledFrom(hostileStrings).Draw(t, g.l("hostile"))
	case 1:
		return rapid.StringN(0, 12, -1).Draw(t, g.l("unicode"))
	default:
		return rapid.StringMatching(`[a-zA-Z0-9 _\-]{0,10}`).Draw(t, g.l("ascii"))
	}
}

func genBin(t *rapid.T, g *valGen) Bin {
	if !g.allowBin || g.binCount >= g.maxBins {
		return nil
	}
	g.binCount++
	var n int
	switch rapid.IntRange(0, 5).Draw(t, g.l("binkind")) {
	case 0:
		return Bin{} // empty, non-nil
	case 1:
		n = rapid.IntRange(1, 8).Draw(t, g.l("binlen"))
	case 2:
		n = rapid.IntRange(1, 64).Draw(t, g.l("binlen"))
	default:
		n = rapid.IntRange(1, max(1, min(g.maxBin, 40))).Draw(t, g.l("binlen"))
	}
	return Bin(rapid.SliceOfN(rapid.Byte(), n, n).Draw(t, g.l("bin")))
}

func genInt64(t *rapid.T, g *valGen) int64 {
	if rapid.Bool().Draw(t, g.l("i64edge")) {
		return rapid.SampledFrom([]int64{0, 1, -1, math.MaxInt64, math.MinInt64, 1 << 53, 1<<53 + 1, -(1 << 53) - 1, 1 << 31}).Draw(t, g.l("i64"))
	}
	return rapid.Int64().Draw(t, g.l("i64"))
}

func genUint64(t *rapid.T, g *valGen) uint64 {
	if rapid.Bool().Draw(t, g.l("u64edge")) {
		return rapid.SampledFrom([]uint64{0, 1, math.MaxUint64, 1 << 63, 1<<63 - 1, 1 << 53, 1<<53 + 1}).Draw(t, g.l("u64"))
	}
	return rapid.Uint64().Draw(t, g.l("u64"))
}

func genFloat(t *rapid.T, g *valGen) float64 {
	if rapid.Bool().Draw(t, g.l("fedge")) {
		return rapid.SampledFrom([]float64{0, 1, -1, 0.5, 1e21, 1e-7, math.MaxFloat64, math.SmallestNonzeroFloat64, 123456.789, -2.5e10}).Draw(t, g.l("f"))
	}
	f := rapid.Float64().Draw(t, g.l("f"))
	if math.IsNaN(f) || math.IsInf(f, 0) {
		return 0
	}
	return f
}

func genInner(t *rapid.T, g *valGen) vInner {
	return vInner{Name: genString(t, g), Bin: genBin(t, g), N: genInt64(t, g)}
}

func genPInner(t *rapid.T, g *valGen) *vInner {
	if rapid.IntRange(0, 3).Draw(t, g.l("nilptr")) == 0 {
		return nil
	}
	v := genInner(t, g)
	return &v
}

// genDyn generates a dynamically typed JSON-like value: nil, bool, float64 (integers up to 2^53), string, []any,
// map[string]any; Binary leaves only as map values or top level when allowBinLeaf.
func genDyn(t *rapid.T, g *valGen, depth int, binOK bool) any {
	k := rapid.IntRange(0, 7).Draw(t, g.l("dynkind"))
	if depth >= 3 && k >= 5 {
		k = 3
	}
	switch k {
	case 0:
		return nil
	case 1:
		return rapid.Bool().Draw(t, g.l("b"))
	case 2:
		return float64(rapid.Int64Range(-(1 << 53), 1<<53).Draw(t, g.l("dynint")))
	case 3:
		return genString(t, g)
	case 4:
		if binOK {
			if b := genBin(t, g); b != nil {
				return b
			}
		}
		return rapid.SampledFrom([]float64{0.5, -1.25, 1e10, 3.0}).Draw(t, g.l("dynf"))
	case 5, 6:
		n := rapid.IntRange(0, 3).Draw(t, g.l("maplen"))
		m := map[string]any{}
		for i := 0; i < n; i++ {
			key := rapid.SampledFrom([]string{"a", "b", "num", "_placeholder", "k\"q", "é", ""}).Draw(t, g.l("key"))
			m[key] = genDyn(t, g, depth+1, true)
		}
		if _, both := m["num"]; both {
			// An object that is exactly {"_placeholder":…,"num":…} cannot be told from a real placeholder on the wire (protocol ambiguity,
			// shared with the reference implementation): not generated as user data.
			delete(m, "_placeholder")
		}
		return m
	default:
		n := rapid.IntRange(0, 3).Draw(t, g.l("arrlen"))
		a := make([]any, n)
		for i := range a {
			a[i] = genDyn(t, g, depth+1, true)
		}
		return a
	}
}

var shapes = []shape{
	{Name: "string", Type: reflect.TypeOf(""), Gen: func(t *rapid.T, g *valGen) any { return genString(t, g) }},
	{Name: "int64", Type: reflect.TypeOf(int64(0)), Gen: func(t *rapid.T, g *valGen) any { return genInt64(t, g) }},
	{Name: "uint64", Type: reflect.TypeOf(uint64(0)), Gen: func(t *rapid.T, g *valGen) any { return genUint64(t, g) }},
	{Name: "float64", Type: reflect.TypeOf(float64(0)), Gen: func(t *rapid.T, g *valGen) any { return genFloat(t, g) }},
	{Name: "bool", Type: reflect.TypeOf(false), Gen: func(t *rapid.T, g *valGen) any { return rapid.Bool().Draw(t, g.l("bool")) }},
	{Name: "binary", Type: binType, Gen: func(t *rapid.T, g *valGen) any { return genBin(t, g) }},
	{Name: "ints", Type: reflect.TypeOf([]int64(nil)), Gen: func(t *rapid.T, g *valGen) any {
		n := rapid.IntRange(0, 4).Draw(t, g.l("n"))
		out := make([]int64, n)
		for i := range out {
			out[i] = genInt64(t, g)
		}
		return out
	}},
	{Name: "strs", Type: reflect.TypeOf([]string(nil)), Gen: func(t *rapid.T, g *valGen) any {
		n := rapid.IntRange(0, 4).Draw(t, g.l("n"))
		out := make([]string, n)
		for i := range out {
			out[i] = genString(t, g)
		}
		return out
	}},
	{Name: "bins", Type: reflect.TypeOf([]Bin(nil)), Gen: func(t *rapid.T, g *valGen) any {
		n := rapid.IntRange(0, 3).Draw(t, g.l("n"))
		out := make([]Bin, n)
		for i := range out {
			out[i] = genBin(t, g)
		}
		return out
	}},
	{Name: "inner", Type: reflect.TypeOf(vInner{}), Gen: func(t *rapid.T, g *valGen) any { return genInner(t, g) }},
	{Name: "pinner", Type: reflect.TypeOf(&vInner{}), Gen: func(t *rapid.T, g *valGen) any {
		v := genInner(t, g)
		return &v
	}},
	{Name: "pouter", Type: reflect.TypeOf(&vOuter{}), Gen: func(t *rapid.T, g *valGen) any {
		o := &vOuter{ID: genUint64(t, g), Title: genString(t, g), Data: genBin(t, g), In: genInner(t, g), Ptr: genPInner(t, g),
			F: genFloat(t, g), OK: rapid.Bool().Draw(t, g.l("ok"))}
		for i, n := 0, rapid.IntRange(0, 2).Draw(t, g.l("list")); i < n; i++ {
			o.List = append(o.List, genInner(t, g))
		}
		for i, n := 0, rapid.IntRange(0, 2).Draw(t, g.l("plist")); i < n; i++ {
			o.PList = append(o.PList, genPInner(t, g))
		}
		if rapid.Bool().Draw(t, g.l("bins")) {
			o.Bins = map[string]Bin{}
			for i, n := 0, rapid.IntRange(0, 2).Draw(t, g.l("nbins")); i < n; i++ {
				o.Bins[rapid.SampledFrom([]string{"x", "y", "z z"}).Draw(t, g.l("bk"))] = genBin(t, g)
			}
		}
		if rapid.Bool().Draw(t, g.l("any")) {
			// A Binary stored directly in an interface-typed struct field is rejected by Encode with an explicit
			// error ("non-settable value"), i.e. it is not a shape the API accepts; containers holding binaries are.
			o.Any = genDyn(t, g, 1, false)
		}
		for i, n := 0, rapid.IntRange(0, 2).Draw(t, g.l("tags")); i < n; i++ {
			o.Tags = append(o.Tags, genString(t, g))
		}
		return o
	}},
	{Name: "loose", Type: reflect.TypeOf(vLoose{}), Gen: func(t *rapid.T, g *valGen) any { return genLoose(t, g) }},
	{Name: "ploose", Type: reflect.TypeOf(&vLoose{}), Gen: func(t *rapid.T, g *valGen) any {
		v := genLoose(t, g)
		return &v
	}},
	{Name: "mapbin", Type: reflect.TypeOf(map[string]Bin(nil)), Gen: func(t *rapid.T, g *valGen) any {
		m := map[string]Bin{}
		for i, n := 0, rapid.IntRange(0, 3).Draw(t, g.l("n")); i < n; i++ {
			m[rapid.SampledFrom([]string{"a", "b", "c", "ü"}).Draw(t, g.l("k"))] = genBin(t, g)
		}
		return m
	}},
	{Name: "mapany", Type: reflect.TypeOf(map[string]any(nil)), Dynamic: true, Gen: func(t *rapid.T, g *valGen) any {
		m := map[string]any{}
		for i, n := 0, rapid.IntRange(0, 4).Draw(t, g.l("n")); i < n; i++ {
			m[rapid.SampledFrom([]string{"a", "b", "c", "num", "ü"}).Draw(t, g.l("k"))] = genDyn(t, g, 1, true)
		}
		return m
	}},
	{Name: "sliceany", Type: reflect.TypeOf([]any(nil)), Dynamic: true, Gen: func(t *rapid.T, g *valGen) any {
		n := rapid.IntRange(0, 4).Draw(t, g.l("n"))
		a := make([]any, n)
		for i := range a {
			a[i] = genDyn(t, g, 1, true)
		}
		return a
	}},
	{Name: "any", Type: reflect.TypeOf((*any)(nil)).Elem(), Dynamic: true, Gen: func(t *rapid.T, g *valGen) any { return genDyn(t, g, 0, true) }},
}

func shapeByName(name string) *shape {
	for i := range shapes {
		if shapes[i].Name == name {
			return &shapes[i]
		}
	}
	return nil
}

// ---- value -> tree (independent of the repository and of encoding/json) ---------------------------------

func jsonFieldName(f reflect.StructField) string {
	tag := f.Tag.Get("json")
	if tag == "" {
		return f.Name
	}
	for i := 0; i < len(tag); i++ {
		if tag[i] == ',' {
			tag = tag[:i]
			break
		}
	}
	if tag == "" {
		return f.Name
	}
	return tag
}

// toTree converts a Go value of the shape library into its canonical tree. Binary (and []byte, which is how binary
// leaves arrive inside dynamically typed containers) becomes a bin leaf; nil pointers, maps, slices, interfaces → null.
func toTree(v any) refcodec.Tree { return valueTree(reflect.ValueOf(v)) }

func valueTree(rv reflect.Value) refcodec.Tree {
	if !rv.IsValid() {
		return refcodec.Tree{Kind: "null"}
	}
	switch rv.Kind() {
	case reflect.Interface, reflect.Ptr:
		if rv.IsNil() {
			return refcodec.Tree{Kind: "null"}
		}
		return valueTree(rv.Elem())
	case reflect.Bool:
		return refcodec.Tree{Kind: "bool", Bool: rv.Bool()}
	case reflect.Int, reflect.Int8, reflect.Int16, reflect.Int32, reflect.Int64:
		return refcodec.Tree{Kind: "num", Num: strconv.FormatInt(rv.Int(), 10)}
	case reflect.Uint, reflect.Uint8, reflect.Uint16, reflect.Uint32, reflect.Uint64:
		return refcodec.Tree{Kind: "num", Num: strconv.FormatUint(rv.Uint(), 10)}
	case reflect.Float32, reflect.Float64:
		return refcodec.Tree{Kind: "num", Num: strconv.FormatFloat(rv.Float(), 'g', -1, 64)}
	case reflect.String:
		return refcodec.Tree{Kind: "str", Str: rv.String()}
	case reflect.Slice:
		if rv.Type() == binType || rv.Type() == bytesType || rv.Type().Elem().Kind() == reflect.Uint8 {
			if rv.IsNil() {
				return refcodec.Tree{Kind: "bin"}
			}
			return refcodec.Tree{Kind: "bin", Bin: append([]byte{}, rv.Bytes()...)}
		}
		if rv.IsNil() {
			return refcodec.Tree{Kind: "null"}
		}
		t := refcodec.Tree{Kind: "arr", Arr: make([]refcodec.Tree, rv.Len())}
		for i := range t.Arr {
			t.Arr[i] = valueTree(rv.Index(i))
		}
		return t
	case reflect.Map:
		if rv.IsNil() {
			return refcodec.Tree{Kind: "null"}
		}
		t := refcodec.Tree{Kind: "obj", Obj: map[string]refcodec.Tree{}}
		it := rv.MapRange()
		for it.Next() {
			t.Obj[it.Key().String()] = valueTree(it.Value())
		}
		return t
	case reflect.Struct:
		t := refcodec.Tree{Kind: "obj", Obj: map[string]refcodec.Tree{}}
		for i := 0; i < rv.NumField(); i++ {
			f := rv.Type().Field(i)
			if !f.IsExported() {
				continue
			}
			t.Obj[jsonFieldName(f)] = valueTree(rv.Field(i))
		}
		return t
	}
	return refcodec.Tree{Kind: "?" + rv.Kind().String()}
}

// treeLooseEqual compares trees treating an empty binary leaf and null alike (a nil Binary may travel either way).
func treeDiff(a, b refcodec.Tree, path string) string {
	if (a.Kind == "null" && b.Kind == "bin" && len(b.Bin) == 0) || (b.Kind == "null" && a.Kind == "bin" && len(a.Bin) == 0) {
		return ""
	}
	if a.Kind != b.Kind {
		return a.Diff(b, path)
	}
	switch a.Kind {
	case "arr":
		if len(a.Arr) != len(b.Arr) {
			return a.Diff(b, path)
		}
		for i := range a.Arr {
			if d := treeDiff(a.Arr[i], b.Arr[i], fmt.Sprintf("%s[%d]", path, i)); d != "" {
				return d
			}
		}
		return ""
	case "obj":
		if len(a.Obj) != len(b.Obj) {
			return a.Diff(b, path)
		}
		for k, av := range a.Obj {
			bv, ok := b.Obj[k]
			if !ok {
				return a.Diff(b, path)
			}
			if d := treeDiff(av, bv, path+"."+k); d != "" {
				return d
			}
		}
		return ""
	}
	return a.Diff(b, path)
}

// ---- deep copy -------------------------------------------------------------------------------------------

func deepCopy(v any) any {
	if v == nil {
		return nil
	}
	return copyValue(reflect.ValueOf(v)).Interface()
}

func copyValue(rv reflect.Value) reflect.Value {
	switch rv.Kind() {
	case reflect.Ptr:
		if rv.IsNil() {
			return reflect.Zero(rv.Type())
		}
		n := reflect.New(rv.Type().Elem())
		n.Elem().Set(copyValue(rv.Elem()))
		return n
	case reflect.Interface:
		if rv.IsNil() {
			return reflect.Zero(rv.Type())
		}
		n := reflect.New(rv.Type()).Elem()
		n.Set(copyValue(rv.Elem()))
		return n
	case reflect.Slice:
		if rv.IsNil() {
			return reflect.Zero(rv.Type())
		}
		n := reflect.MakeSlice(rv.Type(), rv.Len(), rv.Len())
		for i := 0; i < rv.Len(); i++ {
			n.Index(i).Set(copyValue(rv.Index(i)))
		}
		return n
	case reflect.Map:
		if rv.IsNil() {
			return reflect.Zero(rv.Type())
		}
		n := reflect.MakeMapWithSize(rv.Type(), rv.Len())
		it := rv.MapRange()
		for it.Next() {
			n.SetMapIndex(it.Key(), copyValue(it.Value()))
		}
		return n
	case reflect.Struct:
		n := reflect.New(rv.Type()).Elem()
		for i := 0; i < rv.NumField(); i++ {
			if rv.Type().Field(i).IsExported() {
				n.Field(i).Set(copyValue(rv.Field(i)))
			}
		}
		return n
	}
	return rv
}

// ---- tree -> value (used to rebuild stored cases) -----------------------------------------------------------

// materialize builds a Go value of static type typ from a tree produced by toTree on a value of that type.
func materialize(t refcodec.Tree, typ reflect.Type) reflect.Value {
	switch typ.Kind() {
	case reflect.Interface:
		v := reflect.New(typ).Elem()
		if d := materializeDyn(t); d != nil {
			v.Set(reflect.ValueOf(d))
		}
		return v
	case reflect.Ptr:
		if t.Kind == "null" {
			return reflect.Zero(typ)
		}
		p := reflect.New(typ.Elem())
		p.Elem().Set(materialize(t, typ.Elem()))
		return p
	case reflect.Bool:
		return reflect.ValueOf(t.Bool).Convert(typ)
	case reflect.Int, reflect.Int8, reflect.Int16, reflect.Int32, reflect.Int64:
		n, _ := strconv.ParseInt(t.Num, 10, 64)
		return reflect.ValueOf(n).Convert(typ)
	case reflect.Uint, reflect.Uint8, reflect.Uint16, reflect.Uint32, reflect.Uint64:
		n, _ := strconv.ParseUint(t.Num, 10, 64)
		return reflect.ValueOf(n).Convert(typ)
	case reflect.Float32, reflect.Float64:
		f, _ := strconv.ParseFloat(t.Num, 64)
		return reflect.ValueOf(f).Convert(typ)
	case reflect.String:
		return reflect.ValueOf(t.Str).Convert(typ)
	case reflect.Slice:
		if typ.Elem().Kind() == reflect.Uint8 {
			if t.Bin == nil {
				return reflect.Zero(typ)
			}
			return reflect.ValueOf(append([]byte{}, t.Bin...)).Convert(typ)
		}
		if t.Kind == "null" {
			return reflect.Zero(typ)
		}
		s := reflect.MakeSlice(typ, len(t.Arr), len(t.Arr))
		for i := range t.Arr {
			s.Index(i).Set(materialize(t.Arr[i], typ.Elem()))
		}
		return s
	case reflect.Map:
		if t.Kind == "null" {
			return reflect.Zero(typ)
		}
		m := reflect.MakeMapWithSize(typ, len(t.Obj))
		for k, e := range t.Obj {
			m.SetMapIndex(reflect.ValueOf(k).Convert(typ.Key()), materialize(e, typ.Elem()))
		}
		return m
	case reflect.Struct:
		v := reflect.New(typ).Elem()
		for i := 0; i < typ.NumField(); i++ {
			f := typ.Field(i)
			if !f.IsExported() {
				continue
			}
			if e, ok := t.Obj[jsonFieldName(f)]; ok {
				v.Field(i).Set(materialize(e, f.Type))
			}
		}
		return v
	}
	panic("materialize: unsupported type " + typ.String())
}

func materializeDyn(t refcodec.Tree) any {
	switch t.Kind {
	case "null":
		return nil
	case "bool":
		return t.Bool
	case "num":
		f, _ := strconv.ParseFloat(t.Num, 64)
		return f
	case "str":
		return t.Str
	case "bin":
		if t.Bin == nil {
			return Bin(nil)
		}
		return Bin(append([]byte{}, t.Bin...))
	case "arr":
		a := make([]any, len(t.Arr))
		for i := range t.Arr {
			a[i] = materializeDyn(t.Arr[i])
		}
		return a
	case "obj":
		m := make(map[string]any, len(t.Obj))
		for k, e := range t.Obj {
			m[k] = materializeDyn(e)
		}
		return m
	}
	panic("materializeDyn: " + t.Kind)
}

// valArg is the stored form of one event argument.
type valArg struct {
	Shape string        `json:"shape"`
	Tree  refcodec.Tree `json:"tree"`
}

func (a valArg) value() any {
	sh := shapeByName(a.Shape)
	return materialize(a.Tree, sh.Type).Interface()
}
