package harness

import (
	"fmt"
	"testing"
)

// TestReplay re-executes the case stored in $VERIF_REPLAY, bypassing rapid. It fails iff the stored case still fails.
func TestReplay(t *testing.T) {
	setT(t)
	if envReplay == "" {
		t.Skip("VERIF_REPLAY not set")
	}
	rf, err := loadReplay(envReplay)
	if err != nil {
		t.Fatalf("cannot load replay file: %v", err)
	}
	fn := replayers[rf.Check]
	if fn == nil {
		t.Fatalf("no replayer registered for check %q", rf.Check)
	}
	reps := envInt("VERIF_REPLAY_REPS", 1)
	failed := 0
	var last *Failure
	for i := 0; i < reps; i++ {
		if f := fn(rf.Case); f != nil {
			failed++
			last = f
		}
	}
	fmt.Printf("REPLAY check=%s repetitions=%d failed=%d\n", rf.Check, reps, failed)
	if last != nil {
		Fail(t, *last)
	}
}
