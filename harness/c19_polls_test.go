//go:build verif

package harness

import (
	"context"
	"encoding/json"
	"fmt"
	"net/http/httptest"
	"regexp"
	"sort"
	"strconv"
	"strings"
	"sync"
	"testing"
	"time"

	eio "github.com/karagenc/socket.io-go/engine.io"
	"github.com/karagenc/socket.io-go/engine.io/parser"
	"pgregory.net/rapid"
)

// c19-poll-requests: the statement of C19 at the level it is written at - HTTP poll requests. A real Engine.IO server with one long-polling
// session, driven through ServeHTTP in a synctest bubble: 1..4 poll requests arrive at generated instants (several may be pending at once), some
// are abandoned by their client (request context cancelled) at generated instants, and the application sends packets at generated instants; the
// instants lie on a coarse grid so that coincidences (a send at the very instant a request is abandoned or arrives) are frequent.
//
// Oracle, from the recorded intervals: a packet sent at t and answered at r was queued during (t, r); no poll request may have been waiting on
// the server for more than eps of that interval ("returned by the poll request that is pending or arrives next ... never sits in an internal
// queue"). Every packet is answered exactly once and in order within an answer. A request that was abandoned still counts as a poll request on
// the server for as long as its handler has not returned.

const c19CheckPolls = "c19-poll-requests"

type c19Poll struct {
	StartUs  int `json:"start_us"`
	CancelUs int `json:"cancel_us"` // -1: never abandoned
}

type c19Send struct {
	AtUs  int  `json:"at_us"`
	N     int  `json:"n"`
	First bool `json:"first"` // at an instant shared with arrivals / abandonments the send is issued before them (otherwise after them)
}

type c19PollsCase struct {
	Polls []c19Poll `json:"polls"`
	Sends []c19Send `json:"sends"`
	JSONP bool      `json:"jsonp"`
}

var c19SidRe = regexp.MustCompile(`"sid":"([^"]+)"`)
var c19MsgRe = regexp.MustCompile(`4m(\d+)`)

func evalC19Polls(c c19PollsCase) (f *Failure, nontrivial bool) {
	class := "plain"
	if c.JSONP {
		class = "jsonp"
	}
	fail := func(clause, detail string) *Failure {
		return &Failure{Property: "C19", Check: c19CheckPolls, Clause: clause, Class: class, Detail: detail, Case: c}
	}
	journal(c19CheckPolls, class, c)
	const eps = 50 * time.Microsecond
	const never = time.Duration(1<<62 - 1)
	type pollRec struct {
		start, ret time.Duration
		toks       []int
		abandoned  bool
	}
	var res *Failure
	body := func() {
		var mu sync.Mutex
		var sock eio.ServerSocket
		srv := eio.NewServer(func(s eio.ServerSocket) *eio.Callbacks {
			mu.Lock()
			sock = s
			mu.Unlock()
			return &eio.Callbacks{}
		}, nil)
		_ = srv.Run()
		defer func() {
			srv.Close()
			time.Sleep(3 * time.Minute)
		}()
		rec := httptest.NewRecorder()
		srv.ServeHTTP(rec, httptest.NewRequest("GET", "/engine.io/?EIO=4&transport=polling", nil))
		m := c19SidRe.FindStringSubmatch(rec.Body.String())
		if rec.Code != 200 || m == nil || sock == nil {
			res = fail("rig", fmt.Sprintf("handshake: %d %q", rec.Code, rec.Body.String()))
			return
		}
		url := "/engine.io/?EIO=4&transport=polling&sid=" + m[1]
		if c.JSONP {
			url += "&j=0"
		}
		start := time.Now()
		polls := make([]*pollRec, 0, len(c.Polls)+1)
		sentAt := map[int]time.Duration{}
		startPoll := func(ctx context.Context) *pollRec {
			p := &pollRec{start: time.Since(start), ret: never}
			mu.Lock()
			polls = append(polls, p)
			mu.Unlock()
			go func() {
				w := httptest.NewRecorder()
				srv.ServeHTTP(w, httptest.NewRequest("GET", url, nil).WithContext(ctx))
				at := time.Since(start)
				var toks []int
				for _, mm := range c19MsgRe.FindAllStringSubmatch(w.Body.String(), -1) {
					k, _ := strconv.Atoi(mm[1])
					toks = append(toks, k)
				}
				mu.Lock()
				p.ret, p.toks = at, toks
				mu.Unlock()
			}()
			return p
		}
		type action struct {
			at int
			fn func()
		}
		var actions []action
		for _, p := range c.Polls {
			p := p
			ctx, cancel := context.WithCancel(context.Background())
			var pr *pollRec
			actions = append(actions, action{2*p.StartUs + 1, func() { pr = startPoll(ctx) }})
			if p.CancelUs >= 0 {
				actions = append(actions, action{2*p.CancelUs + 1, func() {
					cancel()
					if pr != nil {
						mu.Lock()
						pr.abandoned = true
						mu.Unlock()
					}
				}})
			} else {
				defer cancel()
			}
		}
		next := 0
		for _, s := range c.Sends {
			s := s
			key := 2*s.AtUs + 1
			if s.First {
				key--
			}
			actions = append(actions, action{key, func() {
				for i := 0; i < s.N; i++ {
					next++
					pk, _ := parser.NewPacket(parser.PacketTypeMessage, false, []byte("m"+strconv.Itoa(next)))
					mu.Lock()
					sentAt[next] = time.Since(start)
					mu.Unlock()
					sock.Send(pk)
				}
			}})
		}
		sort.SliceStable(actions, func(i, k int) bool { return actions[i].at < actions[k].at })
		for _, a := range actions {
			if w := time.Duration(a.at/2)*time.Microsecond - time.Since(start); w > 0 {
				time.Sleep(w)
			}
			a.fn()
		}
		time.Sleep(5 * time.Millisecond)
		// whatever is still queued belongs to the poll request that arrives next
		ctx, cancel := context.WithCancel(context.Background())
		defer cancel()
		startPoll(ctx)
		time.Sleep(5 * time.Millisecond)
		mu.Lock()
		defer mu.Unlock()
		retOf := map[int]time.Duration{}
		for i, p := range polls {
			if !sort.IntsAreSorted(p.toks) {
				res = fail("fifo", fmt.Sprintf("poll %d answered the packets in the order %v", i, p.toks))
				return
			}
			for _, k := range p.toks {
				if _, dup := retOf[k]; dup {
					res = fail("exactly-once", fmt.Sprintf("packet %d was answered twice", k))
					return
				}
				retOf[k] = p.ret
			}
		}
		describe := func() string {
			var sb strings.Builder
			for i, p := range polls {
				r := "still waiting"
				if p.ret != never {
					r = fmt.Sprintf("answered at %v with %v", p.ret, p.toks)
				}
				fmt.Fprintf(&sb, " poll %d: arrived at %v, %s, abandoned=%v;", i, p.start, r, p.abandoned)
			}
			return sb.String()
		}
		for k := 1; k <= next; k++ {
			t, r := sentAt[k], never
			if v, ok := retOf[k]; ok {
				r = v
			}
			for i, p := range polls {
				lo, hi := max(p.start, t), min(p.ret, r)
				if hi == never {
					hi = time.Since(start)
				}
				if hi-lo > eps {
					res = fail("no-poll-waits-while-queued", fmt.Sprintf("packet %d was handed to the session at %v and answered at %v; poll request %d was waiting on the server from %v to %v meanwhile.%s",
						k, t, fmtNever(r, never), i, lo, hi, describe()))
					return
				}
			}
			if r == never {
				res = fail("no-poll-waits-while-queued", fmt.Sprintf("packet %d, handed to the session at %v, was never answered.%s", k, t, describe()))
				return
			}
		}
	}
	msg := inBubble(curT, body)
	if res == nil && msg != "" && !isBubbleDeadlock(msg) {
		res = fail("bubble-panic", "synctest: "+msg)
	}
	// non-trivial: two requests pending at once, or a request abandoned at the instant of a send
	for i, p := range c.Polls {
		for _, s := range c.Sends {
			if p.CancelUs == s.AtUs {
				nontrivial = true
			}
		}
		for k, q := range c.Polls {
			if i != k && q.StartUs >= p.StartUs && (p.CancelUs < 0 || q.StartUs <= p.CancelUs) {
				nontrivial = true
			}
		}
	}
	return res, nontrivial
}

func fmtNever(d, never time.Duration) string {
	if d == never {
		return "never"
	}
	return d.String()
}

func genC19Polls(t *rapid.T) c19PollsCase {
	grid := func(label string) int { return 100 * rapid.IntRange(0, 10).Draw(t, label) }
	c := c19PollsCase{JSONP: rapid.IntRange(0, 4).Draw(t, "jsonp") == 0}
	for i, n := 0, rapid.IntRange(1, 4).Draw(t, "polls"); i < n; i++ {
		p := c19Poll{StartUs: grid("start"), CancelUs: -1}
		if rapid.IntRange(0, 2).Draw(t, "abandon") == 0 {
			p.CancelUs = p.StartUs + 100*rapid.IntRange(0, 5).Draw(t, "after")
		}
		c.Polls = append(c.Polls, p)
	}
	for i, n := 0, rapid.IntRange(1, 4).Draw(t, "sends"); i < n; i++ {
		c.Sends = append(c.Sends, c19Send{AtUs: grid("at"), N: rapid.IntRange(1, 3).Draw(t, "n"), First: rapid.Bool().Draw(t, "first")})
	}
	return c
}

func TestC19_PollRequests(t *testing.T) {
	setT(t)
	defer startWatchdog(t, 60*1e9)()
	ev := NewEv(t, "C19", c19CheckPolls, "a real Engine.IO server with one long-polling session driven through ServeHTTP in virtual time: 1..4 poll requests (plain and JSON-P) arriving on a 100 us grid, "+
		"a third of them abandoned by their client (request context cancelled) up to 500 us later, 1..4 sends of 1..3 packets on the same grid, a last request 5 ms after everything; oracle: while a packet "+
		"is queued (from the Send to the answer that carries it) no poll request waits on the server for more than 50 us of virtual time, every packet is answered exactly once and in order; "+
		"non-trivial = two requests pending at once or a request abandoned at the instant of a send")
	rapidGuard(t, "C19", c19CheckPolls)
	runRapid(t, c19CheckPolls, tierN(6000, 150000), func(t *rapid.T) {
		c := genC19Polls(t)
		f, nt := evalC19Polls(c)
		cls := "plain"
		if c.JSONP {
			cls = "jsonp"
		}
		ev.Case(c, nt, cls)
		if nt {
			ev.Sample(cls, c)
		}
		if f != nil {
			FailRapid(t, *f)
		}
	})
}

func init() {
	registerReplay(c19CheckPolls, func(raw json.RawMessage) *Failure {
		f, _ := evalC19Polls(decodeCase[c19PollsCase](raw))
		return f
	})
}
