package harness

// C03 — acks fire at most once, exactly once with a timeout, and carry the right reply. DESIGN.md §3 C03.
// Virtual-time rig: ack-carrying emits in both directions, several outstanding at once; the peer replies after a drawn
// delay relative to the timeout (T-1ms, T, T+1ms, never) and calls the ack function 0..3 times; requests emitted before the
// client connects (buffered, connecting before or after the timeout); optional cut of the network.

import (
	"encoding/json"
	"errors"
	"fmt"
	"sort"
	"sync"
	"testing"
	"time"

	sio "github.com/karagenc/socket.io-go"
	"pgregory.net/rapid"
)

const c03Check = "c03-acks"

type c03Emit struct {
	Dir       string `json:"dir"` // c2s | s2c
	Token     int64  `json:"token"`
	AtMs      int    `json:"at_ms"`      // virtual instant of the Emit
	TimeoutMs int    `json:"timeout_ms"` // 0 = no timeout
	DelayMs   int    `json:"delay_ms"`   // the peer's reply delay; -1 = never replies
	K         int    `json:"k"`          // how often the peer calls the ack function
	ReqAtt    int    `json:"req_att"`
	RepAtt    int    `json:"rep_att"`
	Volatile  bool   `json:"volatile"` // c2s only: emitted through ClientSocket.Volatile(): discarded instead of buffered while the socket is not connected
	Shape     int    `json:"shape"` // parameter list of the ack callback: 0 (tok int64, bins []Bin) | 1 (tok *int64, bins []Bin) | 2 (tok int64, bins *[]Bin) | 3 (tok *int64, bins *[]Bin), after err when there is a timeout
}

type c03Case struct {
	Transport   string    `json:"transport"`
	ConnectAtMs int       `json:"connect_at_ms"` // the client socket connects at this instant (emits before it are buffered)
	CutAtMs     int       `json:"cut_at_ms"`     // -1 = the network is never cut
	Emits       []c03Emit `json:"emits"`
}

type c03Call struct {
	at    time.Duration
	err   error
	token int64
	bins  []Bin
}

func c03Bins(tok int64, n int, what string) []Bin {
	out := make([]Bin, n)
	for i := range out {
		out[i] = Bin(fmt.Sprintf("%s-%d-%d", what, tok, i))
	}
	return out
}

func sameBins(a, b []Bin) bool {
	if len(a) != len(b) {
		return false
	}
	for i := range a {
		if string(a[i]) != string(b[i]) {
			return false
		}
	}
	return true
}

func (c c03Case) class() string {
	cls := c.Transport
	buffered, multiframe := false, false
	for _, e := range c.Emits {
		if e.Dir == "c2s" && e.AtMs < c.ConnectAtMs {
			buffered = true
			if e.ReqAtt > 0 && e.TimeoutMs > 0 {
				multiframe = true
			}
		}
	}
	if buffered {
		cls += ",buffered"
	}
	if multiframe {
		cls += "-multiframe-timeout"
	}
	if c.CutAtMs >= 0 {
		cls += ",cut"
	}
	return cls
}

func evalC03(c c03Case) (f *Failure, nontrivial bool) {
	class := c.class()
	fail := func(clause, detail string) *Failure {
		return &Failure{Property: "C03", Check: c03Check, Clause: clause, Class: class, Detail: detail, Case: c}
	}
	journal(c03Check, class, c)
	var res *Failure
	msg := runRig(rigOpts{}, func(r *rig) {
		start := time.Now()
		var mu sync.Mutex
		calls := map[int64][]c03Call{}          // token -> callback invocations at the emitter
		received := map[int64][]time.Duration{} // token -> instants at which the request reached the peer's handler
		var errs []string
		// the peer's handler: reply after delay, k times; only the first call may count
		handler := func(tok, delayMs, k, repAtt int64, att []Bin, ack func(int64, []Bin)) {
			mu.Lock()
			received[tok] = append(received[tok], time.Since(start))
			mu.Unlock()
			if delayMs < 0 {
				return
			}
			go func() {
				if delayMs > 0 {
					time.Sleep(time.Duration(delayMs) * time.Millisecond)
				}
				for i := int64(0); i < k; i++ {
					ack(tok+i*1000000, c03Bins(tok+i*1000000, int(repAtt), "rep"))
				}
			}()
		}
		var ss sio.ServerSocket
		// Handlers are registered in a namespace middleware, i.e. before the CONNECT reply: connection handlers run concurrently with
		// packet dispatch, so requests flushed by the client the moment it connects could otherwise find no handler yet (see KF-C15-1).
		r.Server.Use(func(s sio.ServerSocket, _ *sio.Handshake) any {
			s.OnEvent("req", handler)
			s.OnError(func(err error) { mu.Lock(); errs = append(errs, "server socket: "+err.Error()); mu.Unlock() })
			return nil
		})
		r.Server.OnConnection(func(s sio.ServerSocket) {
			mu.Lock()
			ss = s
			mu.Unlock()
		})
		m := r.manager(c01Transports(c.Transport), nil)
		m.OnError(func(err error) { mu.Lock(); errs = append(errs, "manager: "+err.Error()); mu.Unlock() })
		cli := m.Socket("/", nil)
		cli.OnEvent("req", handler)

		emit := func(e c03Emit) {
			var em sio.Socket = cli
			if e.Dir == "s2c" {
				mu.Lock()
				em = ss
				mu.Unlock()
				if em == nil {
					return
				}
			}
			args := []any{e.Token, int64(e.DelayMs), int64(e.K), int64(e.RepAtt), c03Bins(e.Token, e.ReqAtt, "req")}
			record := func(err error, tok int64, bins []Bin) {
				mu.Lock()
				calls[e.Token] = append(calls[e.Token], c03Call{time.Since(start), err, tok, bins})
				mu.Unlock()
			}
			if pm, _ := catchPanic(func() {
				// the reply is (token, attachments); the callback may take either by value or by pointer
				pt := func(p *int64) int64 {
					if p == nil {
						return 0
					}
					return *p
				}
				pb := func(p *[]Bin) []Bin {
					if p == nil {
						return nil
					}
					return *p
				}
				var withErr, plain any
				switch e.Shape % 4 {
				case 0:
					withErr = func(err error, tok int64, bins []Bin) { record(err, tok, bins) }
					plain = func(tok int64, bins []Bin) { record(nil, tok, bins) }
				case 1:
					withErr = func(err error, tok *int64, bins []Bin) { record(err, pt(tok), bins) }
					plain = func(tok *int64, bins []Bin) { record(nil, pt(tok), bins) }
				case 2:
					withErr = func(err error, tok int64, bins *[]Bin) { record(err, tok, pb(bins)) }
					plain = func(tok int64, bins *[]Bin) { record(nil, tok, pb(bins)) }
				case 3:
					withErr = func(err error, tok *int64, bins *[]Bin) { record(err, pt(tok), pb(bins)) }
					plain = func(tok *int64, bins *[]Bin) { record(nil, pt(tok), pb(bins)) }
				}
				if e.Volatile && e.Dir == "c2s" {
					// (the emitter chain in both orders)
					switch {
					case e.TimeoutMs > 0 && e.Token%2 == 0:
						cli.Volatile().Timeout(time.Duration(e.TimeoutMs)*time.Millisecond).Emit("req", append(args, withErr)...)
					case e.TimeoutMs > 0:
						cli.Timeout(time.Duration(e.TimeoutMs)*time.Millisecond).Volatile().Emit("req", append(args, withErr)...)
					default:
						cli.Volatile().Emit("req", append(args, plain)...)
					}
				} else if e.TimeoutMs > 0 {
					em.Timeout(time.Duration(e.TimeoutMs)*time.Millisecond).Emit("req", append(args, withErr)...)
				} else {
					em.Emit("req", append(args, plain)...)
				}
			}); pm != "" {
				mu.Lock()
				errs = append(errs, "Emit panicked: "+pm)
				mu.Unlock()
			}
		}

		// timeline
		type action struct {
			at int
			fn func()
		}
		var actions []action
		actions = append(actions, action{c.ConnectAtMs, func() { cli.Connect() }})
		for _, e := range c.Emits {
			e := e
			actions = append(actions, action{e.AtMs, func() { go emit(e) }})
		}
		if c.CutAtMs >= 0 {
			actions = append(actions, action{c.CutAtMs, func() { r.Net.SetRefuse(true); r.Net.CutAll() }})
		}
		sort.SliceStable(actions, func(i, j int) bool { return actions[i].at < actions[j].at })
		for _, a := range actions {
			if d := time.Duration(a.at)*time.Millisecond - time.Since(start); d > 0 {
				time.Sleep(d)
			}
			a.fn()
			tick()
		}
		settle(10 * time.Second)

		// ---- oracle
		mu.Lock()
		connectedAt := time.Duration(c.ConnectAtMs) * time.Millisecond
		for _, e := range c.Emits {
			a := time.Duration(e.AtMs) * time.Millisecond
			T := time.Duration(e.TimeoutMs) * time.Millisecond
			cs := calls[e.Token]
			desc := fmt.Sprintf("emit %d (%s at %v, timeout %v, peer replies after %dms x%d, %d+%d attachments)", e.Token, e.Dir, a, T, e.DelayMs, e.K, e.ReqAtt, e.RepAtt)
			if len(cs) > 1 {
				res = fail("at-most-once", fmt.Sprintf("%s: the callback ran %d times (at %v and %v)", desc, len(cs), cs[0].at, cs[1].at))
				break
			}
			sentAt := a
			if e.Dir == "c2s" && a < connectedAt {
				sentAt = connectedAt // buffered until the socket connects
			}
			cutAt := time.Duration(1<<62 - 1)
			if c.CutAtMs >= 0 {
				cutAt = time.Duration(c.CutAtMs) * time.Millisecond
			}
			replies := e.K >= 1 && e.DelayMs >= 0
			replyAt := sentAt + time.Duration(e.DelayMs)*time.Millisecond
			if sentAt >= cutAt || replyAt >= cutAt {
				replies = false // the request or its reply is lost with the network
			}
			purged := T > 0 && e.Dir == "c2s" && a < connectedAt && a+T < connectedAt // timed out while still buffered
			if e.Volatile && e.Dir == "c2s" && a < connectedAt {
				purged = true // discarded at once: it never reaches the peer; with a timeout its callback gets ErrAckTimeout, once
			}
			if purged {
				replies = false
				if len(received[e.Token]) > 0 {
					res = fail("purged-after-timeout", fmt.Sprintf("%s timed out while buffered, or was volatile and emitted offline (socket connected at %v), but the request reached the peer at %v", desc, connectedAt, received[e.Token][0]))
					break
				}
			}
			if T > 0 {
				if len(cs) != 1 {
					res = fail("exactly-once-with-timeout", fmt.Sprintf("%s: the callback ran %d times within %v after the timeout", desc, len(cs), time.Since(start)-a-T))
					break
				}
				call := cs[0]
				tie := replies && replyAt == a+T
				wantReply := replies && replyAt < a+T
				switch {
				case tie:
					// either outcome is admissible when reply and timer fall on the same instant
				case wantReply && call.err != nil:
					res = fail("reply-in-time-wins", fmt.Sprintf("%s: the reply was due at %v, before the timeout at %v, but the callback got %v at %v", desc, replyAt, a+T, call.err, call.at))
				case !wantReply && call.err == nil:
					res = fail("timeout-wins", fmt.Sprintf("%s: no reply was due before the timeout at %v (reply at %v, replies=%v) but the callback got a reply at %v", desc, a+T, replyAt, replies, call.at))
				case !wantReply && !errors.Is(call.err, sio.ErrAckTimeout):
					res = fail("timeout-error", fmt.Sprintf("%s: the callback got error %v, want ErrAckTimeout", desc, call.err))
				}
				if res == nil && call.err != nil && call.at > a+T+100*time.Millisecond {
					res = fail("timeout-on-time", fmt.Sprintf("%s: ErrAckTimeout arrived at %v, the timeout was at %v", desc, call.at, a+T))
				}
			} else {
				if replies && len(cs) != 1 {
					res = fail("reply-delivered", fmt.Sprintf("%s: the peer replied but the callback ran %d times (request reached the peer at %v; errors reported: %v)", desc, len(cs), received[e.Token], errs))
				}
				if !replies && len(cs) != 0 {
					res = fail("only-the-peers-reply", fmt.Sprintf("%s: nothing was replied but the callback ran (%+v)", desc, cs[0]))
				}
			}
			if res != nil {
				break
			}
			if len(cs) == 1 && cs[0].err == nil {
				if cs[0].token != e.Token || !sameBins(cs[0].bins, c03Bins(e.Token, e.RepAtt, "rep")) {
					res = fail("right-reply", fmt.Sprintf("%s: the callback got reply token %d with %d attachments; the peer's first call passed token %d with %d", desc, cs[0].token, len(cs[0].bins), e.Token, e.RepAtt))
					break
				}
			}
			if len(received[e.Token]) > 1 {
				res = fail("request-once", fmt.Sprintf("%s reached the peer %d times", desc, len(received[e.Token])))
				break
			}
		}
		nErrs := len(errs)
		var firstErr string
		if nErrs > 0 {
			firstErr = errs[0]
		}
		mu.Unlock()
		if res != nil {
			return
		}
		_ = nErrs
		_ = firstErr
		// ---- the sockets remain usable: a fresh round trip each way (if the network is still there), and an emit returns
		if c.CutAtMs < 0 {
			done := map[string]bool{}
			cli.Emit("req", int64(900001), int64(0), int64(1), int64(1), c03Bins(900001, 1, "req"), func(tok int64, bins []Bin) { mu.Lock(); done["c2s"] = tok == 900001; mu.Unlock() })
			mu.Lock()
			srv := ss
			mu.Unlock()
			if srv != nil {
				srv.Emit("req", int64(900002), int64(0), int64(1), int64(0), c03Bins(900002, 0, "req"), func(tok int64, bins []Bin) { mu.Lock(); done["s2c"] = tok == 900002; mu.Unlock() })
			}
			settle(time.Second)
			mu.Lock()
			if !done["c2s"] || (srv != nil && !done["s2c"]) {
				res = fail("remains-usable", fmt.Sprintf("after the run a fresh ack round trip did not complete (c2s %v, s2c %v)", done["c2s"], done["s2c"]))
			}
			mu.Unlock()
		} else {
			finished := make(chan struct{})
			go func() {
				cli.Timeout(500*time.Millisecond).Emit("req", int64(900003), int64(0), int64(1), int64(0), c03Bins(900003, 2, "req"), func(err error, tok int64, bins []Bin) {})
				close(finished)
			}()
			settle(2 * time.Second)
			select {
			case <-finished:
			default:
				res = fail("remains-usable", "an Emit on the disconnected client socket did not return within 2 s")
			}
		}
	})
	if res == nil && msg != "" && !isBubbleDeadlock(msg) {
		res = fail("bubble-panic", "synctest: "+msg)
	}
	// non-trivial: reply within 1 ms of the timeout, or >= 2 outstanding acks, or a buffered multi-frame request
	for i, e := range c.Emits {
		if e.TimeoutMs > 0 && e.DelayMs >= 0 && abs(e.DelayMs-e.TimeoutMs) <= 1 {
			nontrivial = true
		}
		if e.Dir == "c2s" && e.AtMs < c.ConnectAtMs && e.ReqAtt > 0 {
			nontrivial = true
		}
		for _, o := range c.Emits[i+1:] {
			if o.Dir == e.Dir && abs(o.AtMs-e.AtMs) < 50 {
				nontrivial = true
			}
		}
	}
	return res, nontrivial
}

func abs(x int) int {
	if x < 0 {
		return -x
	}
	return x
}

func genC03Case(t *rapid.T) c03Case {
	c := c03Case{Transport: rapid.SampledFrom([]string{"polling", "websocket", "upgrade"}).Draw(t, "transport"), CutAtMs: -1}
	buffered := rapid.IntRange(0, 2).Draw(t, "buffered") == 0
	if buffered {
		c.ConnectAtMs = rapid.SampledFrom([]int{500, 1500, 2500, 3500}).Draw(t, "connectAt")
	}
	cut := !buffered && rapid.IntRange(0, 4).Draw(t, "cut") == 0
	base := c.ConnectAtMs + 100
	if cut {
		c.CutAtMs = base + 6000
	}
	n := rapid.IntRange(1, 8).Draw(t, "emits")
	for i := 0; i < n; i++ {
		e := c03Emit{Token: int64(i + 1), Dir: rapid.SampledFrom([]string{"c2s", "s2c"}).Draw(t, "dir"), K: rapid.SampledFrom([]int{1, 1, 1, 2, 3, 0}).Draw(t, "k"),
			ReqAtt: rapid.IntRange(0, 3).Draw(t, "reqAtt"), RepAtt: rapid.IntRange(0, 3).Draw(t, "repAtt"),
			TimeoutMs: rapid.SampledFrom([]int{0, 1000, 1000, 2000}).Draw(t, "timeout"), Shape: rapid.SampledFrom([]int{0, 0, 1, 2, 3}).Draw(t, "shape")}
		if buffered && rapid.Bool().Draw(t, "isBuffered") {
			e.Dir = "c2s"
			e.Volatile = rapid.IntRange(0, 2).Draw(t, "volatile") == 0
			e.AtMs = rapid.IntRange(0, c.ConnectAtMs-100).Draw(t, "at")
		} else {
			e.AtMs = base + rapid.IntRange(0, 40).Draw(t, "atAfter")*25
		}
		T := e.TimeoutMs
		if T == 0 {
			T = 1000
		}
		e.DelayMs = rapid.SampledFrom([]int{0, 0, 10, T - 1, T, T + 1, T + 500, -1}).Draw(t, "delay")
		if cut {
			// keep replies clearly before or clearly after the cut (no tie with the cut itself)
			if e.AtMs+e.DelayMs > c.CutAtMs-100 || e.DelayMs < 0 {
				e.DelayMs = rapid.SampledFrom([]int{0, 10, 20000}).Draw(t, "delayCut")
			}
			if e.TimeoutMs == 0 && e.DelayMs >= 20000 {
				e.TimeoutMs = 1000
			}
		}
		c.Emits = append(c.Emits, e)
	}
	return c
}

func TestC03_Acks(t *testing.T) {
	setT(t)
	defer startWatchdog(t, 60*time.Second)()
	ev := NewEv(t, "C03", c03Check, "rapid on the virtual-time rig: 1..8 ack-carrying emits, both directions, several outstanding at once, timeout T in {none, 1 s, 2 s}, the peer replies after "+
		"{0, 10 ms, T-1ms, T, T+1ms, T+500ms, never} and calls the ack function 0..3 times, 0..3 attachments in request and reply, ack callbacks taking the reply values by value or by pointer, requests emitted before the client connects (connecting before or "+
		"after T), optional network cut; oracle per emit: callback count <= 1, with a timeout exactly 1 (reply if due before T, ErrAckTimeout if after, either on the exact tie), reply arguments == the "+
		"peer's FIRST call for that very token, a request that timed out while buffered never reaches the peer, every request reaches the peer at most once; afterwards a fresh round trip each way "+
		"succeeds / an Emit on the dead socket returns; non-trivial = reply within 1 ms of T, or >= 2 outstanding acks, or a buffered multi-frame request")
	rapidGuard(t, "C03", c03Check)
	runRapid(t, c03Check, tierN(12000, 160000), func(t *rapid.T) {
		c := genC03Case(t)
		f, nt := evalC03(c)
		ev.Case(c, nt, c.class())
		if nt {
			ev.Sample(c.class(), c)
		}
		if f != nil {
			FailRapid(t, *f)
		}
	})
}

func init() {
	registerReplay(c03Check, func(raw json.RawMessage) *Failure {
		f, _ := evalC03(decodeCase[c03Case](raw))
		return f
	})
}
