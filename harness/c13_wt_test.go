package harness

// C13/C11 over a real WebTransport connection (QUIC over UDP on the loopback interface, real clock) — the function-level checks of the
// WebTransport framing (c11-*) cannot see how the server composes reader, limit and framing; this leg runs the real client and the real
// server end to end, directly over WebTransport and through a polling -> WebTransport upgrade. DESIGN.md §3 C13. Real time: a verdict
// that depends on waiting (something did NOT happen within 10 s) is counted as inconclusive, never as a violation; what counts are events
// that did happen (an oversize message delivered; a connection closed on a message within the limit).

import (
	"bytes"
	"context"
	"crypto/tls"
	"encoding/json"
	"fmt"
	"net/http"
	"net/http/httptest"
	"os"
	"sync"
	"testing"
	"time"
	"verif/harness/refcodec"

	eio "github.com/karagenc/socket.io-go/engine.io"
	"github.com/karagenc/socket.io-go/engine.io/parser"
	"github.com/madflojo/testcerts"
	"github.com/quic-go/webtransport-go"
	"nhooyr.io/websocket"
	"pgregory.net/rapid"
)

const c13wCheck = "c13-webtransport"

type c13wCase struct {
	Limit  int64  `json:"limit"` // MaxBufferSize (0 = default 1e6, -1 = disabled)
	Path   string `json:"path"`  // direct | upgraded
	Dir    string `json:"dir"`   // c2s | s2c
	Size   int    `json:"size"`
	Binary bool   `json:"binary"`
	Before int    `json:"before"` // small messages first
}

func (c c13wCase) class() string {
	l := fmt.Sprint(c.Limit)
	if c.Limit == 0 {
		l = "default"
	} else if c.Limit < 0 {
		l = "disabled"
	}
	return fmt.Sprintf("%s,%s,limit=%s", c.Path, c.Dir, l)
}

var c13wInconclusive int64

func evalC13w(c c13wCase) (f *Failure, nontrivial bool) {
	class := c.class()
	fail := func(clause, detail string) *Failure {
		return &Failure{Property: "C13", Check: c13wCheck, Clause: clause, Class: class, Detail: detail, Case: c}
	}
	certFile, keyFile, err := testcerts.GenerateCertsToTempFile(os.TempDir())
	if err != nil {
		return fail("rig-connect", "certificates: "+err.Error()), false
	}
	defer os.Remove(certFile)
	defer os.Remove(keyFile)
	var mu sync.Mutex
	var gotS, gotC []int
	var closesS, closesC []string
	var srv eio.ServerSocket
	cfg := &eio.ServerConfig{}
	if c.Limit > 0 {
		cfg.MaxBufferSize = c.Limit
	} else if c.Limit < 0 {
		cfg.DisableMaxBufferSize = true
	}
	wt := &webtransport.Server{}
	cfg.WebTransportServer = wt
	server := eio.NewServer(func(s eio.ServerSocket) *eio.Callbacks {
		mu.Lock()
		srv = s
		mu.Unlock()
		return &eio.Callbacks{
			OnPacket: func(ps ...*parser.Packet) {
				mu.Lock()
				for _, p := range ps {
					if p.Type == parser.PacketTypeMessage {
						gotS = append(gotS, len(p.Data))
					}
				}
				mu.Unlock()
			},
			OnClose: func(r eio.Reason, err error) {
				mu.Lock()
				closesS = append(closesS, fmt.Sprintf("%s:%v", r, err))
				mu.Unlock()
			},
		}
	}, cfg)
	if err := server.Run(); err != nil {
		return fail("rig-connect", "server.Run: "+err.Error()), false
	}
	ts := httptest.NewUnstartedServer(server)
	cert, err := tls.LoadX509KeyPair(certFile, keyFile)
	if err != nil {
		return fail("rig-connect", "key pair: "+err.Error()), false
	}
	ts.TLS = &tls.Config{Certificates: []tls.Certificate{cert}}
	ts.StartTLS()
	wt.H3.Addr = ts.Listener.Addr().String()
	wt.H3.Handler = server
	go func() { _ = wt.ListenAndServeTLS(certFile, keyFile) }()
	defer func() {
		server.Close()
		wt.Close()
		ts.Close()
	}()
	insecure := &tls.Config{InsecureSkipVerify: true}
	upgraded := make(chan string, 1)
	ccfg := &eio.ClientConfig{
		HTTPTransport:        &http.Transport{TLSClientConfig: insecure},
		WebSocketDialOptions: &websocket.DialOptions{HTTPClient: &http.Client{Transport: &http.Transport{TLSClientConfig: insecure}}},
		WebTransportDialer:   &webtransport.Dialer{TLSClientConfig: insecure},
		UpgradeDone: func(name string) {
			select {
			case upgraded <- name:
			default:
			}
		},
	}
	if c.Path == "direct" {
		ccfg.Transports = []string{"webtransport"}
	} else {
		ccfg.Transports = []string{"polling", "webtransport"}
	}
	if c.Path == "raw-open" {
		// a hand-written WebTransport client whose very first frame - the OPEN packet, valid JSON padded with blanks - has the drawn size
		limit := c.Limit
		if limit == 0 {
			limit = 1e6
		} else if limit < 0 {
			limit = 0
		}
		d := &webtransport.Dialer{TLSClientConfig: insecure}
		var sess *webtransport.Session
		for attempt := 0; attempt < 20 && sess == nil; attempt++ {
			ctx, cancel := context.WithTimeout(context.Background(), 3*time.Second)
			_, sess, err = d.Dial(ctx, ts.URL, nil)
			cancel()
			if err != nil {
				if envStr("VERIF_DEBUG_WT", "") != "" {
					fmt.Println("raw-open dial:", err)
				}
				sess = nil
				time.Sleep(100 * time.Millisecond)
			}
		}
		if sess == nil {
			c13wInconclusive++
			return nil, false
		}
		defer sess.CloseWithError(0, "")
		str, err := sess.OpenStream()
		if err != nil {
			c13wInconclusive++
			return nil, false
		}
		data := bytes.Repeat([]byte{' '}, max(c.Size, 2))
		data[0], data[len(data)-1] = '{', '}'
		go func() { _, _ = str.Write(refcodec.EncodeWTFrame(refcodec.EIOPacket{Type: 0, Data: data})) }()
		packetLen := int64(len(data)) + 1
		admitted := false
		deadline := time.Now().Add(3 * time.Second)
		for time.Now().Before(deadline) && !admitted {
			mu.Lock()
			admitted = srv != nil
			mu.Unlock()
			time.Sleep(5 * time.Millisecond)
		}
		if envStr("VERIF_DEBUG_WT", "") != "" {
			fmt.Printf("raw-open: size %d limit %d admitted %v closes %v\n", packetLen, limit, admitted, closesS)
		}
		switch {
		case limit > 0 && packetLen > limit+1 && admitted:
			return fail("oversize-never-accepted", fmt.Sprintf("a WebTransport client whose first frame (the OPEN packet) is %d bytes long was admitted: a session was created although MaxBufferSize is %d", packetLen, limit)), true
		case (limit == 0 || packetLen <= limit) && !admitted:
			c13wInconclusive++ // no session within 3 s of real time: not a verdict
			return nil, false
		}
		return nil, true
	}
	var cl eio.ClientSocket
	for attempt := 0; attempt < 20 && cl == nil; attempt++ { // the UDP listener may need a moment
		cl, err = eio.Dial(ts.URL, &eio.Callbacks{
			OnPacket: func(ps ...*parser.Packet) {
				mu.Lock()
				for _, p := range ps {
					if p.Type == parser.PacketTypeMessage {
						gotC = append(gotC, len(p.Data))
					}
				}
				mu.Unlock()
			},
			OnClose: func(r eio.Reason, err error) {
				mu.Lock()
				closesC = append(closesC, fmt.Sprintf("%s:%v", r, err))
				mu.Unlock()
			},
		}, ccfg)
		if err != nil {
			cl = nil
			time.Sleep(100 * time.Millisecond)
		}
	}
	if cl == nil {
		c13wInconclusive++
		return nil, false // could not connect over UDP on this machine right now: inconclusive
	}
	defer cl.Close()
	if c.Path == "upgraded" {
		select {
		case name := <-upgraded:
			if name != "webtransport" {
				return fail("rig-connect", "upgraded to "+name), false
			}
		case <-time.After(10 * time.Second):
			c13wInconclusive++
			return nil, false
		}
	} else if cl.TransportName() != "webtransport" {
		return fail("rig-connect", "connected over "+cl.TransportName()), false
	}
	deadline := time.Now().Add(5 * time.Second)
	for {
		mu.Lock()
		s := srv
		mu.Unlock()
		if s != nil || time.Now().After(deadline) {
			break
		}
		time.Sleep(5 * time.Millisecond)
	}
	mu.Lock()
	s := srv
	mu.Unlock()
	if s == nil {
		c13wInconclusive++
		return nil, false
	}
	limit := c.Limit
	if limit == 0 {
		limit = 1e6
	} else if limit < 0 {
		limit = 0
	}
	payload := make([]byte, c.Size)
	for i := range payload {
		payload[i] = 'x'
	}
	packetLen := int64(c.Size)
	if !c.Binary {
		packetLen++
	}
	send := func(data []byte, binary bool) {
		p, _ := parser.NewPacket(parser.PacketTypeMessage, binary, data)
		if c.Dir == "c2s" {
			cl.Send(p)
		} else {
			s.Send(p)
		}
	}
	for i := 0; i < c.Before; i++ {
		send([]byte("small"), false)
	}
	send(payload, c.Binary)
	within := limit == 0 || packetLen <= limit
	beyond := c.Dir == "c2s" && limit > 0 && int64(c.Size) > limit+1
	// wait for an event: delivery, or a close
	var delivered, closed bool
	for waitUntil := time.Now().Add(10 * time.Second); time.Now().Before(waitUntil); time.Sleep(5 * time.Millisecond) {
		mu.Lock()
		got := gotS
		if c.Dir == "s2c" {
			got = gotC
		}
		delivered = false
		for _, n := range got {
			delivered = delivered || n == c.Size
		}
		closed = len(closesS) > 0 || len(closesC) > 0
		mu.Unlock()
		if delivered || closed {
			break
		}
	}
	if beyond && !delivered && closed {
		time.Sleep(200 * time.Millisecond) // a delivery right behind the close would still be a delivery
		mu.Lock()
		for _, n := range gotS {
			delivered = delivered || n == c.Size
		}
		mu.Unlock()
	}
	mu.Lock()
	defer mu.Unlock()
	switch {
	case within && closed && !delivered:
		return fail("within-limit-accepted", fmt.Sprintf("%s message of %d bytes over WebTransport (%s; limit %d): the connection was closed instead (server %v, client %v)", c.Dir, c.Size, c.Path, limit, closesS, closesC)), true
	case beyond && delivered:
		return fail("oversize-never-accepted", fmt.Sprintf("a message of %d bytes was delivered to the server's handler over WebTransport (%s) although MaxBufferSize is %d (closes: %v)", c.Size, c.Path, limit, closesS)), true
	case (within && !delivered) || (beyond && !closed):
		c13wInconclusive++ // nothing happened within 10 s of real time: not a verdict
		return nil, false
	}
	return nil, true
}

func TestC13_WebTransport(t *testing.T) {
	ev := NewEv(t, "C13", c13wCheck, "real WebTransport (QUIC over UDP loopback, real clock), real client and server: MaxBufferSize in {100, 40000, default, disabled} x {directly over WebTransport, after a polling -> "+
		"WebTransport upgrade, a hand-written client whose first frame (the OPEN packet, padded JSON) has the drawn size} x {client -> server, server -> client} x sizes limit +- 12, limit/2, 2 x limit, 64 KiB +- 12 (the 16/64-bit length forms), text and binary, 0..2 small messages first; oracle on events "+
		"only: a message within the limit must not get the connection closed, a message more than one byte beyond it must not be delivered; waiting out 10 s without any event is inconclusive and counted; "+
		"non-trivial = a case that ended in an event")
	rapidGuard(t, "C13", c13wCheck)
	defer func() { ev.Set("inconclusive_no_event_within_10s", c13wInconclusive) }()
	runRapid(t, c13wCheck, tierN(48, 640), func(t *rapid.T) {
		c := c13wCase{Limit: rapid.SampledFrom([]int64{100, 40000, 0, -1}).Draw(t, "limit"), Path: rapid.SampledFrom([]string{"direct", "direct", "upgraded", "raw-open"}).Draw(t, "path"),
			Dir: rapid.SampledFrom([]string{"c2s", "c2s", "s2c"}).Draw(t, "dir"), Binary: rapid.Bool().Draw(t, "binary"), Before: rapid.IntRange(0, 2).Draw(t, "before")}
		lim := c.Limit
		if lim <= 0 {
			lim = 1e6
		}
		base := rapid.SampledFrom([]int64{lim, lim, 65536, lim / 2, 2 * lim, 0}).Draw(t, "base")
		size := base + int64(rapid.IntRange(-12, 12).Draw(t, "delta"))
		if size < 0 {
			size = 0
		}
		if size > 2_200_000 {
			size = 2_200_000
		}
		c.Size = int(size)
		if c.Path == "raw-open" {
			c.Dir, c.Before = "c2s", 0
		}
		if c.Dir == "s2c" && c.Limit >= 0 && int64(c.Size)+1 > lim {
			c.Size = int(lim) - 2
		}
		f, nt := evalC13w(c)
		ev.Case(c, nt, c.class())
		if nt {
			ev.Sample(c.class(), c)
		}
		if f != nil {
			FailRapid(t, *f)
		}
	})
}

func init() {
	registerReplay(c13wCheck, func(raw json.RawMessage) *Failure {
		f, _ := evalC13w(decodeCase[c13wCase](raw))
		return f
	})
}
