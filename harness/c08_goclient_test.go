package harness

// C08 with the library's own client — a real Manager against a real server with connection state recovery: the connection is lost,
// the server goes on broadcasting, the manager reconnects by itself, and the socket's handlers must see exactly the missed events, once,
// in order, before anything newer; Recovered() is true and the id is the old one. Beyond the window: a fresh session, nothing
// replayed, Recovered() false. DESIGN.md §3 C08. (Possible only since the client records the offset for every handler signature.)

import (
	"encoding/json"
	"fmt"
	"sort"
	"sync"
	"testing"
	"time"

	sio "github.com/karagenc/socket.io-go"
	"pgregory.net/rapid"
)

const c08gCheck = "c08-go-client"

type c08gCase struct {
	Transport string `json:"transport"`
	WindowMs  int    `json:"window_ms"`
	Handler   string `json:"handler"` // int | int-string | string | bin-string: parameter list of the client's handler (a trailing string used to break recovery)
	Online    int    `json:"online"`  // broadcasts received while connected
	AwayMs    int    `json:"away_ms"` // how long the server is unreachable
	Away      int    `json:"away"`    // broadcasts while away (spread over the outage)
	Rooms     []int  `json:"rooms"`
	RoomOnly  bool   `json:"room_only"` // the broadcasts while away go to the socket's rooms / other rooms alternately instead of the whole namespace
	After     int    `json:"after"`
	// after a successful recovery the connection is lost once more, for 3 s, before anything new has been received; one broadcast meanwhile
	SecondLoss bool `json:"second_loss"`
}

func evalC08g(c c08gCase) (f *Failure, nontrivial bool) {
	class := fmt.Sprintf("%s,%s", c.Transport, c.Handler)
	fail := func(clause, detail string) *Failure {
		return &Failure{Property: "C08", Check: c08gCheck, Clause: clause, Class: class, Detail: detail, Case: c}
	}
	journal(c08gCheck, class, c)
	var res *Failure
	window := time.Duration(c.WindowMs) * time.Millisecond
	msg := runRig(rigOpts{Recovery: true, RecoveryWindow: window, PingInterval: time.Second, PingTimeout: time.Second}, func(r *rig) {
		var mu sync.Mutex
		var got []int
		var conns []sio.ServerSocket
		nsp := r.Server.Of("/")
		nsp.OnConnection(func(s sio.ServerSocket) {
			mu.Lock()
			first := len(conns) == 0
			conns = append(conns, s)
			mu.Unlock()
			if first || !s.Recovered() {
				for _, k := range c.Rooms {
					s.Join(c08eRooms[k%3])
				}
			}
		})
		d, mx := 50*time.Millisecond, 200*time.Millisecond
		var zero float32
		m := r.manager(c01Transports(c.Transport), func(cfg *sio.ManagerConfig) {
			cfg.NoReconnection = false
			cfg.ReconnectionDelay = &d
			cfg.ReconnectionDelayMax = &mx
			cfg.RandomizationFactor = &zero
		})
		cli := m.Socket("/", nil)
		rec := func(tok int) { mu.Lock(); got = append(got, tok); mu.Unlock() }
		emit := func(em interface{ Emit(string, ...any) }, tok int) {
			switch c.Handler {
			case "int":
				em.Emit("ev", tok)
			case "int-string":
				em.Emit("ev", tok, "tail")
			case "string":
				em.Emit("ev", fmt.Sprint(tok))
			case "bin-string":
				em.Emit("ev", Bin([]byte(fmt.Sprint(tok))), "tail")
			}
		}
		switch c.Handler {
		case "int":
			cli.OnEvent("ev", func(tok int) { rec(tok) })
		case "int-string":
			cli.OnEvent("ev", func(tok int, tail string) {
				if tail != "tail" {
					tok = -tok - 1000000
				}
				rec(tok)
			})
		case "string":
			cli.OnEvent("ev", func(tok string) { var n int; fmt.Sscan(tok, &n); rec(n) })
		case "bin-string":
			cli.OnEvent("ev", func(tok Bin, tail string) {
				var n int
				fmt.Sscan(string(tok), &n)
				if tail != "tail" {
					n = -n - 1000000
				}
				rec(n)
			})
		}
		var ids []sio.SocketID
		var recovered []bool
		cli.OnConnect(func() {
			mu.Lock()
			ids = append(ids, cli.ID())
			recovered = append(recovered, cli.Recovered())
			mu.Unlock()
		})
		cli.Connect()
		settle(2 * time.Second)
		if !cli.Connected() {
			res = fail("rig-connect", "not connected")
			return
		}
		tok := 0
		var want []int
		for i := 0; i < c.Online; i++ {
			tok++
			emit(nsp, tok)
			want = append(want, tok)
			settle(5 * time.Millisecond)
		}
		settle(200 * time.Millisecond)
		// ---- the connection is lost
		r.Net.SetRefuse(true)
		r.Net.CutAll()
		lostAt := time.Now()
		member := map[sio.Room]bool{}
		for _, k := range c.Rooms {
			member[c08eRooms[k%3]] = true
		}
		for i := 0; i < c.Away; i++ {
			time.Sleep(time.Duration(c.AwayMs) * time.Millisecond / time.Duration(c.Away+1))
			tok++
			if c.RoomOnly {
				room := c08eRooms[i%3]
				emit(nsp.To(room), tok)
				if member[room] {
					want = append(want, tok)
				}
			} else {
				emit(nsp, tok)
				want = append(want, tok)
			}
		}
		if w := time.Duration(c.AwayMs)*time.Millisecond - time.Since(lostAt); w > 0 {
			time.Sleep(w)
		}
		missedUpTo := len(want)
		r.Net.SetRefuse(false)
		settle(3 * time.Second)
		if !cli.Connected() {
			res = fail("rig-connect", fmt.Sprintf("the manager did not reconnect within 3 s after a %d ms outage", c.AwayMs))
			return
		}
		secondLoss := false
		if c.SecondLoss && cli.Recovered() && window >= 8*time.Second {
			// the recovered session is lost again before anything newer than the replayed packets has arrived
			secondLoss = true
			settle(200 * time.Millisecond)
			r.Net.SetRefuse(true)
			r.Net.CutAll()
			time.Sleep(1500 * time.Millisecond)
			tok++
			emit(nsp, tok)
			want = append(want, tok)
			time.Sleep(1500 * time.Millisecond)
			r.Net.SetRefuse(false)
			settle(3 * time.Second)
			if !cli.Connected() {
				res = fail("rig-connect", "the manager did not reconnect within 3 s after the second outage")
				return
			}
		}
		for i := 0; i < c.After; i++ {
			tok++
			emit(nsp, tok)
			want = append(want, tok)
			settle(5 * time.Millisecond)
		}
		settle(time.Second)
		mu.Lock()
		defer mu.Unlock()
		if secondLoss {
			if len(ids) != 3 || !recovered[2] || ids[2] != ids[0] {
				res = fail("recovers-iff-eligible", fmt.Sprintf("a recovered session was lost again for 3 s (window %v): connects %d, Recovered() %v, ids %v", window, len(ids), recovered, ids))
				return
			}
			if fmt.Sprint(sortedInts(got)) != fmt.Sprint(sortedInts(want)) {
				res = fail("exact-missed-packets", fmt.Sprintf("recovered twice in a row: the handler saw %v, want exactly %v, each once (%d before the first loss, %d missed then, 1 missed during the second outage, %d afterwards)", got, want, c.Online, missedUpTo-c.Online, c.After))
			}
			return
		}
		if len(ids) != 2 {
			res = fail("rig-connect", fmt.Sprintf("the socket connected %d times", len(ids)))
			return
		}
		// the session was persisted when the server noticed the loss (at once for a cut with a pending poll / an open websocket; ping timeout at the latest: 2 s)
		away := time.Duration(c.AwayMs) * time.Millisecond
		// (over long-polling a cut goes unnoticed by the server until the ping timeout, 2 s: a client that is back earlier finds its old session
		// still "connected", which cannot be recovered - a fresh session is the clean outcome then)
		notice := 100 * time.Millisecond
		if c.Transport == "polling" {
			notice = 2500 * time.Millisecond
		}
		shouldRecover := c.Online > 0 && away > notice && away < window-2500*time.Millisecond
		shouldNot := c.Online == 0 || away > window+500*time.Millisecond
		isRecovered := recovered[1]
		if (shouldRecover && !isRecovered) || (shouldNot && isRecovered) {
			res = fail("recovers-iff-eligible", fmt.Sprintf("the manager reconnected after %v (window %v, %d events received before the loss): Recovered()=%v, ids %v", away, window, c.Online, isRecovered, ids))
			return
		}
		if isRecovered {
			if ids[1] != ids[0] {
				res = fail("same-session", fmt.Sprintf("Recovered() is true but the socket id changed from %q to %q", ids[0], ids[1]))
				return
			}
			// (each exactly once; the order in which handlers are entered is known finding KF-C02-1 - a goroutine per packet - and not asserted here)
			if fmt.Sprint(sortedInts(got)) != fmt.Sprint(sortedInts(want)) {
				res = fail("exact-missed-packets", fmt.Sprintf("recovered: the handler saw %v, want exactly %v (%d before the loss, %d missed, %d afterwards)", got, want, c.Online, missedUpTo-c.Online, c.After))
			}
			return
		}
		// not recovered: what was received before the loss and what came after the reconnection, nothing from in between, nothing twice
		wantFresh := append(append([]int{}, want[:c.Online]...), want[missedUpTo:]...)
		if ids[1] == ids[0] {
			res = fail("clean-fallback", fmt.Sprintf("Recovered() is false but the socket kept the id %q", ids[0]))
			return
		}
		if fmt.Sprint(sortedInts(got)) != fmt.Sprint(sortedInts(wantFresh)) {
			res = fail("clean-fallback", fmt.Sprintf("not recovered (fresh session): the handler saw %v, want %v", got, wantFresh))
		}
	})
	if res == nil && msg != "" && !isBubbleDeadlock(msg) {
		res = fail("bubble-panic", "synctest: "+msg)
	}
	return res, c.Online > 0 && c.Away >= 2
}

func TestC08_GoClient(t *testing.T) {
	setT(t)
	defer startWatchdog(t, 90*time.Second)()
	ev := NewEv(t, "C08", c08gCheck, "rapid on the virtual-time rig: the library's own client (reconnection on) against the real server with connection state recovery (window 6 s / 30 s); four handler signatures "+
		"(int; int,string; string; Binary,string), 0..5 broadcasts received, an outage of 100 ms .. beyond the window during which 0..6 broadcasts go to the namespace or alternately to the socket's rooms and other "+
		"rooms, 0..3 broadcasts afterwards; oracle: recovered iff eligible (either way near the window's edge); recovered => Recovered() true, same id, the handler saw exactly before + missed + after, each once (handler-entry order is KF-C02-1); "+
		"otherwise a new id and exactly before + after; non-trivial = >= 1 event before and >= 2 during the outage")
	rapidGuard(t, "C08", c08gCheck)
	runRapid(t, c08gCheck, tierN(4000, 60000), func(t *rapid.T) {
		c := c08gCase{Transport: rapid.SampledFrom([]string{"polling", "websocket"}).Draw(t, "transport"), WindowMs: rapid.SampledFrom([]int{6000, 30000}).Draw(t, "window"),
			Handler: rapid.SampledFrom([]string{"int", "int-string", "string", "bin-string"}).Draw(t, "handler"), Online: rapid.IntRange(0, 5).Draw(t, "online"),
			Away: rapid.IntRange(0, 6).Draw(t, "away"), RoomOnly: rapid.Bool().Draw(t, "roomOnly"), After: rapid.IntRange(0, 3).Draw(t, "after"), SecondLoss: rapid.Bool().Draw(t, "secondLoss")}
		c.AwayMs = rapid.SampledFrom([]int{100, 1000, 3000, c.WindowMs - 1000, c.WindowMs + 3000}).Draw(t, "awayMs")
		for i, n := 0, rapid.IntRange(0, 2).Draw(t, "rooms"); i < n; i++ {
			c.Rooms = append(c.Rooms, rapid.IntRange(0, 2).Draw(t, "room"))
		}
		f, nt := evalC08g(c)
		ev.Case(c, nt, c.Transport+","+c.Handler)
		if nt {
			ev.Sample(c.Handler, c)
		}
		if f != nil {
			FailRapid(t, *f)
		}
	})
}

func init() {
	registerReplay(c08gCheck, func(raw json.RawMessage) *Failure {
		f, _ := evalC08g(decodeCase[c08gCase](raw))
		return f
	})
}

func sortedInts(xs []int) []int {
	out := append([]int(nil), xs...)
	sort.Ints(out)
	return out
}
