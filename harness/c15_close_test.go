package harness

// C15 (stop and restart) — Manager.Close() during an outage stops the reconnection for good: no attempt, no connection, no event after
// it, even when the server comes back; a later Connect()/Open() brings the connection up again, delivers what was emitted meanwhile
// exactly once, and the reconnection works again afterwards. DESIGN.md §3 C15.

import (
	"encoding/json"
	"fmt"
	"strings"
	"sync"
	"testing"
	"time"

	sio "github.com/karagenc/socket.io-go"
	"pgregory.net/rapid"
)

const c15cCheck = "c15-close-stops"

type c15cCase struct {
	Transport  string `json:"transport"`
	DelayMs    int    `json:"delay_ms"`
	MaxMs      int    `json:"max_ms"`
	CloseAtUs  int    `json:"close_at_us"` // Manager.Close() this long after the connection was lost (falls into a back-off sleep, an attempt, or before the first one)
	UpAfterMs  int    `json:"up_after_ms"` // the server is reachable again this long after the Close
	Reopen     string `json:"reopen"`      // none | connect | open: what the application does 5 s after the server is back
	Emits      int    `json:"emits"`       // events emitted right after the Close (buffered)
	SecondLoss bool   `json:"second_loss"` // after a reopen: lose the connection again, the manager must reconnect by itself
	// Reopen "restart-down-connect" / "restart-down-open": GapUs after the Close, while the server is still down, the application calls Connect() /
	// Open() again; with ReconnectionAttempts = Attempts (1..3) the new round makes exactly that many attempts and gives up once
	Attempts int `json:"attempts"`
	GapUs    int `json:"gap_us"`
}

func evalC15c(c c15cCase) (f *Failure, nontrivial bool) {
	class := c.Transport + "," + c.Reopen
	check := c15cCheck
	if strings.HasPrefix(c.Reopen, "restart-down") {
		// A new Open waits on a mutex for the old reconnection round, which sleeps in its back-off delay: virtual time cannot pass meanwhile
		// (DESIGN.md §2.2), so this scenario runs on the real clock. Its oracle counts events, it measures nothing.
		check = c15rCheck
		old := realClock
		realClock = true
		defer func() { realClock = old }()
	}
	fail := func(clause, detail string) *Failure {
		return &Failure{Property: "C15", Check: check, Clause: clause, Class: class, Detail: detail, Case: c}
	}
	journal(check, class, c)
	var res *Failure
	msg := runRig(rigOpts{}, func(r *rig) {
		start := time.Now()
		var mu sync.Mutex
		var events []string
		received := map[int]int{}
		serverConns := 0
		r.Server.Use(func(s sio.ServerSocket, _ *sio.Handshake) any {
			mu.Lock()
			serverConns++
			mu.Unlock()
			s.OnEvent("e", func(tok int) { mu.Lock(); received[tok]++; mu.Unlock() })
			return nil
		})
		d, mx := time.Duration(c.DelayMs)*time.Millisecond, time.Duration(c.MaxMs)*time.Millisecond
		var zero float32
		m := r.manager(c01Transports(c.Transport), func(cfg *sio.ManagerConfig) {
			cfg.NoReconnection = false
			cfg.ReconnectionDelay = &d
			cfg.ReconnectionDelayMax = &mx
			cfg.RandomizationFactor = &zero
			cfg.ReconnectionAttempts = uint32(c.Attempts)
		})
		rec := func(kind string) {
			mu.Lock()
			events = append(events, fmt.Sprintf("%s@%v", kind, time.Since(start)))
			mu.Unlock()
		}
		var attemptNos []uint32
		failedN := 0
		m.OnReconnectAttempt(func(n uint32) { rec("attempt"); mu.Lock(); attemptNos = append(attemptNos, n); mu.Unlock() })
		m.OnReconnectFailed(func() { mu.Lock(); failedN++; mu.Unlock() })
		m.OnReconnect(func(uint32) { rec("reconnect") })
		m.OnOpen(func() { rec("open") })
		m.OnClose(func(reason sio.Reason, err error) { rec("close:" + string(reason)) })
		m.OnError(func(err error) { rec("error") })
		m.OnReconnectFailed(func() { rec("failed") })
		cli := m.Socket("/", nil)
		cli.Connect()
		settle(time.Second)
		if !cli.Connected() {
			res = fail("rig-connect", "not connected")
			return
		}
		r.Net.SetRefuse(true)
		r.Net.CutAll()
		if strings.HasPrefix(c.Reopen, "restart-down") {
			// real clock: the instants of the round that follows are counted from the moment the manager noticed the loss (over long-polling that
			// can be tens of milliseconds after the cut), so wait for its close event before the clock of the case starts
			for i := 0; i < 2000; i++ {
				mu.Lock()
				noticed := false
				for _, e := range events {
					noticed = noticed || strings.HasPrefix(e, "close:")
				}
				mu.Unlock()
				if noticed {
					break
				}
				time.Sleep(time.Millisecond)
			}
		}
		time.Sleep(time.Duration(c.CloseAtUs) * time.Microsecond)
		m.Close()
		closedAt := time.Since(start)
		if strings.HasPrefix(c.Reopen, "restart-down") {
			// stopped and started again while the old round may still be asleep in its back-off delay, the server staying down: what the manager
			// reports from here on is one round of exactly Attempts attempts, numbered 1.., and reconnect_failed once
			time.Sleep(time.Duration(c.GapUs) * time.Microsecond)
			mu.Lock()
			attemptNos, failedN = nil, 0
			mu.Unlock()
			if c.Reopen == "restart-down-open" {
				m.Open()
			} else {
				cli.Connect()
			}
			time.Sleep(time.Duration(c.Attempts+3)*mx + 3*time.Second)
			mu.Lock()
			defer mu.Unlock()
			want := make([]uint32, c.Attempts)
			for i := range want {
				want[i] = uint32(i + 1)
			}
			if fmt.Sprint(attemptNos) != fmt.Sprint(want) || failedN != 1 {
				res = fail("exactly-n-attempts-then-failed-once", fmt.Sprintf("Manager.Close() %d us after the loss, %s %d us later with the server still down (ReconnectionAttempts %d, delay %v, max %v): reconnect_attempt reported %v, reconnect_failed %d times; want %v and once (Close at %v; everything the manager reported: %v)",
					c.CloseAtUs, c.Reopen, c.GapUs, c.Attempts, d, mx, attemptNos, failedN, want, closedAt, events))
			}
			return
		}
		for i := 0; i < c.Emits; i++ {
			cli.Emit("e", i)
		}
		settle(mx + 100*time.Millisecond) // an attempt that was in flight has failed by now (dials are refused)
		mu.Lock()
		nEvents, nConns := len(events), serverConns
		mu.Unlock()
		time.Sleep(time.Duration(c.UpAfterMs) * time.Millisecond)
		r.Net.SetRefuse(false)
		settle(5 * time.Second)
		mu.Lock()
		late := append([]string(nil), events[nEvents:]...)
		laterConns := serverConns - nConns
		mu.Unlock()
		if len(late) > 0 || laterConns > 0 || cli.Connected() {
			res = fail("close-stops-reconnection", fmt.Sprintf("Manager.Close() at %v (%d us after the loss, delay %v max %v); more than max later the manager still reported %v, the server saw %d new connection(s), socket connected: %v",
				closedAt, c.CloseAtUs, d, mx, late, laterConns, cli.Connected()))
			return
		}
		if c.Reopen == "none" {
			return
		}
		if c.Reopen == "open" {
			m.Open()
			settle(time.Second)
			cli.Connect() // (Close left the socket registered; Connect makes sure it asks for its namespace)
		} else {
			cli.Connect()
		}
		settle(3 * time.Second)
		mu.Lock()
		ok := cli.Connected()
		var missing []int
		for i := 0; i < c.Emits; i++ {
			if received[i] != 1 {
				missing = append(missing, i)
			}
		}
		mu.Unlock()
		if !ok {
			res = fail("reopen-connects", fmt.Sprintf("after Close, the server being reachable, %s did not bring the socket up (events %v)", c.Reopen, events))
			return
		}
		if len(missing) > 0 {
			res = fail("offline-emit-delivered-once", fmt.Sprintf("events %v emitted while the manager was closed were not delivered exactly once after the reopen (received %v)", missing, received))
			return
		}
		if c.SecondLoss {
			mu.Lock()
			n0 := len(events)
			mu.Unlock()
			r.Net.SetRefuse(true)
			r.Net.CutAll()
			time.Sleep(d / 2)
			r.Net.SetRefuse(false)
			settle(mx*3 + 5*time.Second)
			if !cli.Connected() {
				mu.Lock()
				res = fail("reconnection-works-again", fmt.Sprintf("after Close and %s, a new loss of the connection was not repaired by the manager (events since: %v)", c.Reopen, events[n0:]))
				mu.Unlock()
			}
		}
	})
	if res == nil && msg != "" && !isBubbleDeadlock(msg) {
		res = fail("bubble-panic", "synctest: "+msg)
	}
	return res, c.Reopen != "none"
}

func TestC15_CloseStops(t *testing.T) {
	setT(t)
	defer startWatchdog(t, 90*time.Second)()
	ev := NewEv(t, "C15", c15cCheck, "rapid on the virtual-time rig: the connection is lost (dials refused), Manager.Close() is called 0..3 x max later (microsecond resolution: before the first attempt, inside a "+
		"back-off sleep, during an attempt), 0..5 events are emitted, the server comes back 0..3 s later; oracle: one max after the Close no reconnect_attempt / reconnect / open is reported any more, the server sees no "+
		"new connection, the socket is not connected; then optionally Connect() or Open()+Connect(): the socket connects, the events emitted meanwhile arrive exactly once, and after a further loss the manager "+
		"reconnects by itself; non-trivial = a reopen")
	rapidGuard(t, "C15", c15cCheck)
	runRapid(t, c15cCheck, tierN(4000, 60000), func(t *rapid.T) {
		c := c15cCase{Transport: rapid.SampledFrom([]string{"polling", "websocket"}).Draw(t, "transport"), DelayMs: rapid.SampledFrom([]int{20, 100, 1000}).Draw(t, "delay"),
			UpAfterMs: rapid.SampledFrom([]int{0, 50, 3000}).Draw(t, "upAfter"), Reopen: rapid.SampledFrom([]string{"none", "connect", "connect", "open"}).Draw(t, "reopen"),
			Emits: rapid.IntRange(0, 5).Draw(t, "emits"), SecondLoss: rapid.Bool().Draw(t, "second")}
		c.MaxMs = c.DelayMs * rapid.SampledFrom([]int{1, 4}).Draw(t, "maxFactor")
		c.CloseAtUs = rapid.IntRange(0, 3*c.MaxMs*1000).Draw(t, "closeAt")
		f, nt := evalC15c(c)
		ev.Case(c, nt, c.Transport+","+c.Reopen)
		if nt {
			ev.Sample(c.Reopen, c)
		}
		if f != nil {
			FailRapid(t, *f)
		}
	})
}

const c15rCheck = "c15-restart-while-down"

func TestC15RC_RestartWhileDown(t *testing.T) {
	setT(t)
	defer startWatchdog(t, 90*time.Second)()
	ev := NewEv(t, "C15", c15rCheck, "REAL CLOCK over the in-memory network (a new Open waits on a mutex for the old round, which the virtual clock cannot pass): the connection is lost (dials refused), "+
		"Manager.Close() falls into the running reconnection round, 0 us .. 2 x max later the application calls Connect() or Open() again, the server staying down, ReconnectionAttempts 1..3, delay 20 / 60 ms; "+
		"oracle (counts only, 3 s beyond the longest possible round): reconnect_attempt is reported with exactly the numbers 1..N and reconnect_failed once; non-trivial = every case")
	rapidGuard(t, "C15", c15rCheck)
	runRapid(t, c15rCheck, tierN(32, 1600), func(t *rapid.T) {
		c := c15cCase{Transport: rapid.SampledFrom([]string{"polling", "websocket"}).Draw(t, "transport"), DelayMs: rapid.SampledFrom([]int{20, 60}).Draw(t, "delay"),
			Reopen: rapid.SampledFrom([]string{"restart-down-connect", "restart-down-open"}).Draw(t, "restartHow"), Attempts: rapid.IntRange(1, 3).Draw(t, "attempts")}
		c.MaxMs = c.DelayMs * rapid.SampledFrom([]int{1, 2}).Draw(t, "maxFactor")
		c.GapUs = rapid.SampledFrom([]int{0, 1, 1000, c.DelayMs * 500, c.MaxMs * 2000}).Draw(t, "gap")
		c.CloseAtUs = rapid.IntRange(0, c.Attempts*c.MaxMs*1000).Draw(t, "closeAtDown") // while the first round is still running
		// Keep the Close 5 ms of real time away from the instants at which the running round makes its attempts (delay, delay + min(2 x delay, max), ...):
		// the manager reports its events on goroutines of their own, and what the old round reported just before the Close cannot be told from
		// what was reported just after it.
		at := 0
		for i, dl := 0, c.DelayMs; i < 4; i, dl = i+1, min(2*dl, c.MaxMs) {
			at += dl * 1000
			if c.CloseAtUs > at-5000 && c.CloseAtUs < at+5000 {
				c.CloseAtUs = at + 5500
			}
		}
		ev.Case(c, true, c.Transport+","+c.Reopen)
		ev.Sample(c.Reopen, c)
		if f, _ := evalC15c(c); f != nil {
			FailRapid(t, *f)
		}
	})
}

func init() {
	registerReplay(c15rCheck, func(raw json.RawMessage) *Failure {
		f, _ := evalC15c(decodeCase[c15cCase](raw))
		return f
	})
	registerReplay(c15cCheck, func(raw json.RawMessage) *Failure {
		f, _ := evalC15c(decodeCase[c15cCase](raw))
		return f
	})
}
