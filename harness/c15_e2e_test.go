package harness

// C15 — clients reconnect with bounded back-off and deliver what was emitted offline (state machine, virtual time).
// DESIGN.md §3 C15. The network is taken away (dials refused, links cut) and given back at drawn instants; the manager's
// reconnect_* events are observed with virtual timestamps; emits of three kinds are placed before, during and after outages.

import (
	"encoding/json"
	"errors"
	"fmt"
	"regexp"
	"sort"
	"strconv"
	"strings"
	"sync"
	"sync/atomic"
	"testing"
	"time"

	sio "github.com/karagenc/socket.io-go"
	"pgregory.net/rapid"
)

const c15Check = "c15-reconnect"

type c15Emit struct {
	AtMs      int    `json:"at_ms"`
	Kind      string `json:"kind"` // plain | volatile | ack | volatile-timeout | timeout-volatile
	TimeoutMs int    `json:"timeout_ms"`
}

type c15Case struct {
	Transport string `json:"transport"`
	Attempts  uint32 `json:"attempts"` // ReconnectionAttempts (0 = unlimited)
	DelayMs   int    `json:"delay_ms"`
	MaxMs     int    `json:"max_ms"`
	Jitter    float32 `json:"jitter"`
	DownAtMs  int    `json:"down_at_ms"` // the server becomes unreachable (links cut, dials refused)
	UpAtMs    int    `json:"up_at_ms"`   // reachable again (-1 = never)
	Flap      bool   `json:"flap"`       // a second outage 1 s after the first recovery, for 2 s
	ConnectMs int    `json:"connect_ms"` // namespace middleware delay: the CONNECT stays pending that long
	Emits     []c15Emit `json:"emits"`
	Recovery  bool   `json:"recovery"` // connection state recovery enabled on the server (the reconnecting CONNECT carries pid + offset)
	Auth      string `json:"auth"`     // "" | map | struct | structptr: the socket's auth data, which must arrive with every CONNECT
	// forced schedule: the n-th asynchronous dispatch of lifecycle handlers (handlerStore.forEach starts a goroutine per event) is held back for
	// HoldMs of virtual time before it runs its handlers (0 = none). A goroutine that starts late is an ordinary schedule on a loaded machine.
	HoldDispatch int `json:"hold_dispatch"`
	HoldMs       int `json:"hold_ms"`
}

type c15Auth struct {
	Token string `json:"token"`
	N     int    `json:"n,omitempty"`
}

func (c c15Case) class() string {
	cls := c.Transport
	if c.Recovery && c.Auth != "" {
		cls += ",recovery+auth"
	}
	if c.UpAtMs < 0 {
		cls += ",permanent"
	}
	pend := false
	for _, e := range c.Emits {
		pend = pend || c.inPending(e.AtMs)
	}
	if pend {
		cls += ",emit-during-connect-pending"
	}
	return cls
}

// inPending: the instant falls into a window in which the socket's CONNECT is pending (initial connect or right after the server is back).
func (c c15Case) inPending(at int) bool {
	if c.ConnectMs == 0 {
		return false
	}
	if at >= 0 && at < c.ConnectMs+5 {
		return true
	}
	// after the outage the moment of reconnection is not known exactly: treat the whole stretch up to max + connect delay as possibly pending
	if c.UpAtMs >= 0 && at >= c.UpAtMs && at < c.UpAtMs+c.MaxMs+c.ConnectMs+50 {
		return true
	}
	return false
}

type c15Event struct {
	kind string
	n    uint32
	at   time.Duration
}

var c15TokRe = regexp.MustCompile(`\["e",(\d+)\]`)

func evalC15(c c15Case) (f *Failure, nontrivial bool) {
	c.Emits = append([]c15Emit(nil), c.Emits...)
	sort.SliceStable(c.Emits, func(i, k int) bool { return c.Emits[i].AtMs < c.Emits[k].AtMs }) // tokens are numbered in emission order
	class := c.class()
	fail := func(clause, detail string) *Failure {
		return &Failure{Property: "C15", Check: c15Check, Clause: clause, Class: class, Detail: detail, Case: c}
	}
	journal(c15Check, class, c)
	var res *Failure
	msg := runRig(rigOpts{Recovery: c.Recovery}, func(r *rig) {
		start := time.Now()
		var mu sync.Mutex
		if c.HoldDispatch > 0 {
			var dispatches atomic.Int64
			r.setPoint(func(site string) {
				if site == "handlerStore.forEach:async" && dispatches.Add(1) == int64(c.HoldDispatch) {
					time.Sleep(time.Duration(c.HoldMs) * time.Millisecond)
				}
			})
		}
		var events []c15Event
		var auths []string // the auth payload of every CONNECT the server saw
		var received []int // tokens in the order their handlers ran (any server socket)
		var srvErrs []string
		r.Server.Use(func(s sio.ServerSocket, h *sio.Handshake) any {
			mu.Lock()
			auths = append(auths, string(h.Auth))
			mu.Unlock()
			s.OnEvent("e", func(tok int) { mu.Lock(); received = append(received, tok); mu.Unlock() })
			s.OnEvent("a", func(tok int, ack func(int)) {
				mu.Lock()
				received = append(received, tok)
				mu.Unlock()
				ack(tok)
			})
			s.OnError(func(err error) { mu.Lock(); srvErrs = append(srvErrs, err.Error()); mu.Unlock() })
			if c.ConnectMs > 0 {
				time.Sleep(time.Duration(c.ConnectMs) * time.Millisecond)
			}
			return nil
		})
		d, mx, j := time.Duration(c.DelayMs)*time.Millisecond, time.Duration(c.MaxMs)*time.Millisecond, c.Jitter
		m := r.manager(c01Transports(c.Transport), func(cfg *sio.ManagerConfig) {
			cfg.NoReconnection = false
			cfg.ReconnectionAttempts = c.Attempts
			cfg.ReconnectionDelay = &d
			cfg.ReconnectionDelayMax = &mx
			cfg.RandomizationFactor = &j
		})
		rec := func(kind string, n uint32) {
			mu.Lock()
			events = append(events, c15Event{kind, n, time.Since(start)})
			mu.Unlock()
		}
		m.OnReconnectAttempt(func(n uint32) { rec("attempt", n) })
		m.OnReconnectError(func(err error) { rec("error", 0) })
		m.OnReconnectFailed(func() { rec("failed", 0) })
		m.OnReconnect(func(n uint32) { rec("reconnect", n) })
		m.OnClose(func(sio.Reason, error) { rec("close", 0) })
		m.OnOpen(func() { rec("open", 0) })
		cli := m.Socket("/", nil)
		switch c.Auth {
		case "map":
			cli.SetAuth(map[string]any{"token": "t0k", "n": 7})
		case "struct":
			cli.SetAuth(c15Auth{Token: "t0k", N: 7})
		case "structptr":
			cli.SetAuth(&c15Auth{Token: "t0k", N: 7})
		}
		connects := 0
		var connectAt []time.Duration
		cli.OnConnect(func() { mu.Lock(); connects++; connectAt = append(connectAt, time.Since(start)); mu.Unlock() })
		acks := map[int][]error{}
		type action struct {
			at int
			fn func()
		}
		var actions []action
		actions = append(actions, action{0, func() { cli.Connect() }})
		emitState := map[int]string{} // token -> connected | offline | pending (client's view at emit time)
		for i, e := range c.Emits {
			tok, e := i+1, e
			actions = append(actions, action{e.AtMs, func() {
				st := "offline"
				if cli.Connected() {
					st = "connected"
				}
				mu.Lock()
				emitState[tok] = st
				mu.Unlock()
				switch e.Kind {
				case "plain":
					cli.Emit("e", tok)
				case "volatile":
					cli.Volatile().Emit("e", tok)
				case "volatile-timeout", "timeout-volatile":
					// the two modifiers chained, in either order: still volatile
					em := cli.Volatile().Timeout(time.Duration(e.TimeoutMs) * time.Millisecond)
					if e.Kind == "timeout-volatile" {
						em = cli.Timeout(time.Duration(e.TimeoutMs) * time.Millisecond).Volatile()
					}
					em.Emit("a", tok, func(err error, back int) {
						mu.Lock()
						acks[tok] = append(acks[tok], err)
						mu.Unlock()
					})
				case "ack":
					cli.Timeout(time.Duration(e.TimeoutMs)*time.Millisecond).Emit("a", tok, func(err error, back int) {
						mu.Lock()
						acks[tok] = append(acks[tok], err)
						mu.Unlock()
					})
				}
			}})
		}
		down := func() { r.Net.SetRefuse(true); r.Net.CutAll() }
		up := func() { r.Net.SetRefuse(false) }
		actions = append(actions, action{c.DownAtMs, down})
		if c.UpAtMs >= 0 {
			actions = append(actions, action{c.UpAtMs, up})
			if c.Flap {
				actions = append(actions, action{c.UpAtMs + c.MaxMs + c.ConnectMs + 1000, down}, action{c.UpAtMs + c.MaxMs + c.ConnectMs + 3000, up})
			}
		}
		sort.SliceStable(actions, func(i, k int) bool { return actions[i].at < actions[k].at })
		for _, a := range actions {
			if w := time.Duration(a.at)*time.Millisecond - time.Since(start); w > 0 {
				time.Sleep(w)
			}
			a.fn()
			tick()
		}
		horizon := 60 * time.Second
		if c.Attempts > 0 {
			horizon = time.Duration(c.Attempts+3)*mx + 20*time.Second
		}
		settle(horizon)

		mu.Lock()
		defer mu.Unlock()
		// ---- back-off schedule from the manager's events. Handlers run on their own goroutines, so the recorded order of events
		// that carry the same virtual timestamp means nothing: events are grouped into episodes (one per loss of the connection)
		// and paired by index inside an episode: attempt k follows failure k, where failure 1 is the loss and failure k+1 is the k-th reconnect_error.
		var closes []time.Duration
		for _, e := range events {
			if e.kind == "close" {
				closes = append(closes, e.at)
			}
		}
		sort.Slice(closes, func(i, k int) bool { return closes[i] < closes[k] })
		failedTotal := 0
		if c.HoldDispatch > 0 {
			// A held-back dispatch delays the handlers that take these timestamps, not the manager: the schedule clauses are not evaluated
			// for such cases (the delivery and reconnects-when-reachable clauses below are).
			for _, e := range events {
				if e.kind == "failed" {
					failedTotal++
				}
			}
			closes = nil
		}
		for ei, cat := range closes {
			end := time.Duration(1 << 62)
			if ei+1 < len(closes) {
				end = closes[ei+1]
			}
			var att []c15Event
			var errs []time.Duration
			failed, reconnected := 0, 0
			for _, e := range events {
				if e.at < cat || e.at >= end {
					continue
				}
				switch e.kind {
				case "attempt":
					att = append(att, e)
				case "error":
					errs = append(errs, e.at)
				case "failed":
					failed++
				case "reconnect":
					reconnected++
				}
			}
			sort.SliceStable(att, func(i, k int) bool {
				if att[i].at != att[k].at {
					return att[i].at < att[k].at
				}
				return att[i].n < att[k].n
			})
			sort.Slice(errs, func(i, k int) bool { return errs[i] < errs[k] })
			failures := append([]time.Duration{cat}, errs...)
			for k, a := range att {
				if a.n != uint32(k+1) {
					res = fail("attempt-numbers", fmt.Sprintf("after the loss at %v the %d. reconnect_attempt carries number %d (events %v)", cat, k+1, a.n, c15Fmt(events)))
					return
				}
				if k >= len(failures) {
					res = fail("attempt-numbers", fmt.Sprintf("attempt %d was made although only %d failures (loss + reconnect errors) precede it (events %v)", a.n, len(failures), c15Fmt(events)))
					return
				}
				gap := a.at - failures[k]
				if gap <= 0 || gap > mx+time.Millisecond {
					res = fail("delay-within-(0,max]", fmt.Sprintf("attempt %d came %v after the failure before it; ReconnectionDelayMax is %v (events %v)", a.n, gap, mx, c15Fmt(events)))
					return
				}
				if k == 0 {
					lo := time.Duration(float64(d)*(1-float64(j))) - time.Millisecond
					hi := time.Duration(float64(d)*(1+float64(j))) + time.Millisecond
					if hi > mx {
						hi = mx + time.Millisecond
					}
					if lo > mx {
						lo = mx - time.Millisecond
					}
					if gap < lo || gap > hi {
						res = fail("starts-from-delay", fmt.Sprintf("the first attempt came %v after the loss; ReconnectionDelay %v with jitter %v allows [%v, %v]", gap, d, j, lo, hi))
						return
					}
				}
			}
			if c.Attempts > 0 && uint32(len(att)) > c.Attempts {
				res = fail("gives-up-after-N", fmt.Sprintf("%d attempts after one loss, ReconnectionAttempts is %d (events %v)", len(att), c.Attempts, c15Fmt(events)))
				return
			}
			if failed > 0 {
				failedTotal += failed
				if c.Attempts == 0 {
					res = fail("gives-up-after-N", "reconnect_failed fired although ReconnectionAttempts is unlimited")
					return
				}
				if failed > 1 || uint32(len(att)) != c.Attempts || reconnected > 0 {
					res = fail("gives-up-after-N", fmt.Sprintf("reconnect_failed fired %d times after %d attempts (%d reconnects), ReconnectionAttempts is %d (events %v)", failed, len(att), reconnected, c.Attempts, c15Fmt(events)))
					return
				}
			}
			if reconnected > 1 {
				res = fail("reconnects-when-reachable", fmt.Sprintf("%d reconnect events after one loss (events %v)", reconnected, c15Fmt(events)))
				return
			}
		}
		permanent := c.UpAtMs < 0
		gaveUpBeforeUp := failedTotal > 0
		if permanent && c.Attempts > 0 && failedTotal != 1 {
			res = fail("gives-up-after-N", fmt.Sprintf("permanent outage with ReconnectionAttempts %d: reconnect_failed fired %d times (events %v)", c.Attempts, failedTotal, c15Fmt(events)))
			return
		}
		if !permanent && !gaveUpBeforeUp {
			if !cli.Connected() {
				res = fail("reconnects-when-reachable", fmt.Sprintf("the server has been reachable again since %d ms, the socket is not connected %v later (events %v)", c.UpAtMs, time.Since(start)-time.Duration(c.UpAtMs)*time.Millisecond, c15Fmt(events)))
				return
			}
		}
		// ---- every CONNECT carried the auth data
		if c.Auth != "" {
			for i, a := range auths {
				var got struct {
					Token string `json:"token"`
					N     int    `json:"n"`
				}
				if err := json.Unmarshal([]byte(a), &got); err != nil || got.Token != "t0k" || got.N != 7 {
					res = fail("auth-on-every-connect", fmt.Sprintf("CONNECT %d of %d arrived with auth %q (want token t0k, n 7)", i+1, len(auths), a))
					return
				}
			}
		}
		// ---- delivery of what was emitted
		count := map[int]int{}
		for _, tok := range received {
			count[tok]++
		}
		finallyConnected := cli.Connected()
		for i, e := range c.Emits {
			tok := i + 1
			st := emitState[tok]
			desc := fmt.Sprintf("emit %d (%s at %d ms, client %s at that moment)", tok, e.Kind, e.AtMs, st)
			if count[tok] > 1 {
				res = fail("exactly-once", fmt.Sprintf("%s reached the server %d times", desc, count[tok]))
				return
			}
			if c.inPending(e.AtMs) {
				continue // judged by the dedicated clause below
			}
			switch {
			case st == "connected" && e.AtMs+50 < c.DownAtMs:
				if count[tok] != 1 {
					res = fail("delivered", fmt.Sprintf("%s reached the server %d times", desc, count[tok]))
					return
				}
			case st == "offline" && (e.Kind == "volatile" || e.Kind == "volatile-timeout" || e.Kind == "timeout-volatile"):
				if len(acks[tok]) > 1 {
					res = fail("exactly-once", fmt.Sprintf("%s: ack callback ran %d times", desc, len(acks[tok])))
					return
				}
				if count[tok] != 0 {
					res = fail("volatile-dropped-offline", fmt.Sprintf("%s was delivered although it is volatile and the socket was disconnected", desc))
					return
				}
			case st == "offline" && e.Kind == "plain":
				if finallyConnected && !c.Flap && count[tok] != 1 {
					res = fail("offline-emit-delivered-once", fmt.Sprintf("%s: emitted while disconnected, the socket reconnected, the server received it %d times (received %v, events %v)", desc, count[tok], received, c15Fmt(events)))
					return
				}
			case st == "offline" && e.Kind == "ack":
				if len(acks[tok]) > 1 {
					res = fail("exactly-once", fmt.Sprintf("%s: ack callback ran %d times", desc, len(acks[tok])))
					return
				}
				// timed out while still offline => purged, never delivered, callback got ErrAckTimeout
				reconnectAt := time.Duration(-1) // the socket's next connect (the buffer is flushed there)
				for _, at := range connectAt {
					if at >= time.Duration(e.AtMs)*time.Millisecond && (reconnectAt < 0 || at < reconnectAt) {
						reconnectAt = at
					}
				}
				deadline := time.Duration(e.AtMs+e.TimeoutMs) * time.Millisecond
				if reconnectAt < 0 || deadline+5*time.Millisecond < reconnectAt {
					if count[tok] != 0 {
						res = fail("timed-out-offline-emit-purged", fmt.Sprintf("%s timed out at %v while still offline (the socket's next connect: %v) but reached the server", desc, deadline, reconnectAt))
						return
					}
					if len(acks[tok]) != 1 || !errors.Is(acks[tok][0], sio.ErrAckTimeout) {
						res = fail("timed-out-offline-emit-purged", fmt.Sprintf("%s timed out offline; its callback got %v", desc, acks[tok]))
						return
					}
				}
			}
		}
		// emits made while the CONNECT was pending must not break anything: delivered once after the connect (non-volatile), never an error / a lost connection
		for i, e := range c.Emits {
			tok := i + 1
			if !c.inPending(e.AtMs) || e.Kind != "plain" {
				continue
			}
			if finallyConnected && !c.Flap && count[tok] != 1 {
				res = fail("emit-while-connect-pending", fmt.Sprintf("emit %d at %d ms, while the socket's CONNECT was pending (namespace middleware takes %d ms): the server received it %d times (received %v; events %v; server errors %v)",
					tok, e.AtMs, c.ConnectMs, count[tok], received, c15Fmt(events), srvErrs))
				return
			}
		}
		// ---- order of the flush on the wire (long-polling only: the POST bodies are readable)
		if c.Transport == "polling" {
			var wire []int
			for _, l := range r.Net.Links() {
				for _, mm := range c15TokRe.FindAllSubmatch(l.RecC2S, -1) {
					n, _ := strconv.Atoi(string(mm[1]))
					wire = append(wire, n)
				}
			}
			_ = wire // links are separate byte streams: a global order across links is not defined; order per link is checked
			for _, l := range r.Net.Links() {
				last := 0
				for _, mm := range c15TokRe.FindAllSubmatch(l.RecC2S, -1) {
					n, _ := strconv.Atoi(string(mm[1]))
					if emitState[n] == "offline" && emitState[last] == "offline" && n < last && !strings.Contains(class, "pending") {
						res = fail("offline-emits-in-order", fmt.Sprintf("on the wire the buffered emit %d follows %d", n, last))
						return
					}
					last = n
				}
			}
		}
	})
	if res == nil && msg != "" && !isBubbleDeadlock(msg) {
		res = fail("bubble-panic", "synctest: "+msg)
	}
	offline := 0
	kinds := map[string]bool{}
	for _, e := range c.Emits {
		if e.AtMs > c.DownAtMs && (c.UpAtMs < 0 || e.AtMs < c.UpAtMs) {
			offline++
			kinds[e.Kind] = true
		}
	}
	nontrivial = offline >= 2 && len(kinds) >= 2 && (c.UpAtMs < 0 || c.UpAtMs-c.DownAtMs > 2*c.DelayMs)
	return res, nontrivial
}

func c15Fmt(ev []c15Event) []string {
	out := make([]string, len(ev))
	for i, e := range ev {
		out[i] = fmt.Sprintf("%s(%d)@%v", e.kind, e.n, e.at)
	}
	return out
}

// KF probe helper: emits during the connect-pending window
func c15PendingProbe() c15Case {
	return c15Case{Transport: "websocket", Attempts: 0, DelayMs: 100, MaxMs: 500, Jitter: 0, DownAtMs: 20000, UpAtMs: 21000, ConnectMs: 500,
		Emits: []c15Emit{{AtMs: 100, Kind: "plain"}, {AtMs: 200, Kind: "plain"}}}
}

func genC15Case(t *rapid.T, allowPending bool) c15Case {
	c := c15Case{Transport: rapid.SampledFrom([]string{"polling", "websocket"}).Draw(t, "transport"), Attempts: uint32(rapid.IntRange(0, 5).Draw(t, "attempts")),
		DelayMs: rapid.SampledFrom([]int{50, 100, 1000}).Draw(t, "delay"), Jitter: rapid.SampledFrom([]float32{0, 0, 0.5, 1}).Draw(t, "jitter")}
	c.MaxMs = c.DelayMs * rapid.SampledFrom([]int{1, 2, 5, 20}).Draw(t, "maxFactor")
	if rapid.IntRange(0, 2).Draw(t, "hold") == 0 {
		c.HoldDispatch = rapid.IntRange(1, 16).Draw(t, "holdDispatch")
		c.HoldMs = rapid.SampledFrom([]int{1, c.DelayMs / 2, 2 * c.DelayMs, 3 * c.MaxMs}).Draw(t, "holdMs")
	}
	c.Recovery = rapid.IntRange(0, 2).Draw(t, "recovery") == 0
	c.Auth = rapid.SampledFrom([]string{"", "", "map", "struct", "structptr"}).Draw(t, "auth")
	if allowPending && rapid.IntRange(0, 2).Draw(t, "slowConnect") == 0 {
		c.ConnectMs = rapid.SampledFrom([]int{200, 500}).Draw(t, "connectMs")
	}
	c.DownAtMs = 2000 + rapid.IntRange(0, 1000).Draw(t, "downAt")
	switch rapid.IntRange(0, 3).Draw(t, "outage") {
	case 0:
		c.UpAtMs = -1
	default:
		c.UpAtMs = c.DownAtMs + rapid.SampledFrom([]int{10, c.DelayMs / 2, c.DelayMs * 3, c.MaxMs * 3, 8000}).Draw(t, "outageLen")
		c.Flap = rapid.IntRange(0, 3).Draw(t, "flap") == 0
	}
	end := c.DownAtMs + 9000
	if c.UpAtMs >= 0 {
		end = c.UpAtMs + c.MaxMs + c.ConnectMs + 6000
	}
	for i, n := 0, rapid.IntRange(0, 10).Draw(t, "emits"); i < n; i++ {
		e := c15Emit{AtMs: rapid.IntRange(1000, end).Draw(t, "at"), Kind: rapid.SampledFrom([]string{"plain", "plain", "plain", "volatile", "volatile", "ack", "ack", "volatile-timeout", "timeout-volatile"}).Draw(t, "kind")}
		if c.ConnectMs > 0 && rapid.IntRange(0, 3).Draw(t, "early") == 0 {
			e.AtMs = rapid.IntRange(10, c.ConnectMs-10).Draw(t, "atEarly")
		}
		if e.Kind == "ack" || e.Kind == "volatile-timeout" || e.Kind == "timeout-volatile" {
			e.TimeoutMs = rapid.SampledFrom([]int{200, 1000, 5000}).Draw(t, "timeout")
		}
		// keep emits away from the instants at which the link goes down / comes back (the client's view is ambiguous there)
		for _, edge := range []int{c.DownAtMs, c.UpAtMs} {
			if edge >= 0 && e.AtMs > edge-60 && e.AtMs < edge+60 {
				e.AtMs = edge + 60
			}
		}
		c.Emits = append(c.Emits, e)
	}
	return c
}

func TestC15_Reconnect(t *testing.T) {
	setT(t)
	defer startWatchdog(t, 90*time.Second)()
	ev := NewEv(t, "C15", c15Check, "rapid on the virtual-time rig: Manager with ReconnectionAttempts 0..5, delay {50 ms, 100 ms, 1 s}, max {1,2,5,20} x delay, jitter {0, 0.5, 1}; the server is taken away "+
		"(links cut, dials refused) and given back after {10 ms, delay/2, 3 x delay, 3 x max, 8 s, never}, optionally flapping once more; 0..10 emits of kind plain / volatile / ack-with-timeout / volatile and timeout chained in either order placed before, "+
		"during and after the outage (and, with a slow namespace middleware, while the CONNECT is pending); oracle on the manager's reconnect_* events with virtual timestamps: attempt numbers 1,2,.., every "+
		"gap in (0, max], first gap in the jitter band around delay, exactly N attempts then reconnect_failed once then silence, reconnect when reachable; delivery: online emits once, offline plain emits "+
		"exactly once after the reconnect and in order on the wire (long-polling), offline volatile never, offline ack emits that time out are purged and get ErrAckTimeout once; "+
		"non-trivial = an outage of >= 2 delays with >= 2 offline emits of different kinds")
	rapidGuard(t, "C15", c15Check)
	runRapid(t, c15Check, tierN(8000, 100000), func(t *rapid.T) {
		c := genC15Case(t, true)
		f, nt := evalC15(c)
		ev.Case(c, nt, c.class())
		if nt {
			ev.Sample(c.class(), c)
		}
		if f != nil {
			FailRapid(t, *f)
		}
	})
}

func init() {
	registerReplay(c15Check, func(raw json.RawMessage) *Failure {
		f, _ := evalC15(decodeCase[c15Case](raw))
		return f
	})
}
