//go:build race

package harness

import "runtime"

const raceEnabled = true

// raceErrors is the number of data races the detector has reported so far in this process.
func raceErrors() int { return runtime.RaceErrors() }
