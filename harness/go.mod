module verif/harness

go 1.26.8

require (
	github.com/deckarep/golang-set/v2 v2.6.0
	github.com/karagenc/socket.io-go v0.0.0
	github.com/madflojo/testcerts v1.2.0
	github.com/quic-go/webtransport-go v0.8.0
	nhooyr.io/websocket v1.8.11
	pgregory.net/rapid v1.3.0
)

require (
	github.com/NYTimes/gziphandler v1.1.1
	github.com/fatih/color v1.17.0 // indirect
	github.com/fatih/structs v1.1.0 // indirect
	github.com/karagenc/yeast v0.1.1 // indirect
	github.com/mattn/go-colorable v0.1.13 // indirect
	github.com/mattn/go-isatty v0.0.20 // indirect
	github.com/quic-go/qpack v0.4.0 // indirect
	github.com/quic-go/quic-go v0.45.2 // indirect
	github.com/xiegeo/coloredgoroutine v0.1.1 // indirect
	golang.org/x/crypto v0.25.0 // indirect
	golang.org/x/exp v0.0.0-20240719175910-8a7402abbf56 // indirect
	golang.org/x/net v0.27.0 // indirect
	golang.org/x/sys v0.22.0 // indirect
	golang.org/x/text v0.16.0 // indirect
)

replace github.com/karagenc/socket.io-go => /repo
