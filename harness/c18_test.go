package harness

// C18 — handler registries: On fires every time, Once at most once, Off removes just what it names. DESIGN.md §3 C18.
// Sequential model check through the public API with real occurrences (rig in a bubble), plus concurrent at-most-once.

import (
	"encoding/json"
	"fmt"
	"sort"
	"sync"
	"testing"

	sio "github.com/karagenc/socket.io-go"
	"pgregory.net/rapid"
)

const c18Check = "c18-model"

// ---- handler pools: distinct top-level functions (Go identifies a func by its code pointer) -----------------------------

var (
	c18mu  sync.Mutex
	c18ran []int
)

func c18rec(i int) { c18mu.Lock(); c18ran = append(c18ran, i); c18mu.Unlock() }
func c18take() []int {
	c18mu.Lock()
	defer c18mu.Unlock()
	r := c18ran
	c18ran = nil
	sort.Ints(r)
	return r
}

func c18e0() { c18rec(0) }
func c18e1() { c18rec(1) }
func c18e2() { c18rec(2) }
func c18e3() { c18rec(3) }
func c18e4() { c18rec(4) }
func c18e5() { c18rec(5) }
func c18e6() { c18rec(6) }
func c18e7() { c18rec(7) }

// The pool is built afresh for every use: the odd entries are method values, and a method value is a new function value each time
// the expression is evaluated (what a user writes as OnX(obj.handle) ... OffX(obj.handle)); the even ones are top-level functions.
func c18evF() []func() {
	return []func(){c18e0, c18m.e1, c18e2, c18m.e3, c18e4, c18m.e5, c18e6, c18m.e7}
}

var c18ev = c18evF()

func c18c0(sio.ServerSocket) { c18rec(0) }
func c18c1(sio.ServerSocket) { c18rec(1) }
func c18c2(sio.ServerSocket) { c18rec(2) }
func c18c3(sio.ServerSocket) { c18rec(3) }
func c18c4(sio.ServerSocket) { c18rec(4) }
func c18c5(sio.ServerSocket) { c18rec(5) }
func c18c6(sio.ServerSocket) { c18rec(6) }
func c18c7(sio.ServerSocket) { c18rec(7) }

// The pool is built afresh for every use: the odd entries are method values, and a method value is a new function value each time
// the expression is evaluated (what a user writes as OnX(obj.handle) ... OffX(obj.handle)); the even ones are top-level functions.
func c18connF() []func(sio.ServerSocket) {
	return []func(sio.ServerSocket){c18c0, c18m.c1, c18c2, c18m.c3, c18c4, c18m.c5, c18c6, c18m.c7}
}

var c18conn = c18connF()

func c18a0(string, sio.ServerSocket) { c18rec(0) }
func c18a1(string, sio.ServerSocket) { c18rec(1) }
func c18a2(string, sio.ServerSocket) { c18rec(2) }
func c18a3(string, sio.ServerSocket) { c18rec(3) }
func c18a4(string, sio.ServerSocket) { c18rec(4) }
func c18a5(string, sio.ServerSocket) { c18rec(5) }
func c18a6(string, sio.ServerSocket) { c18rec(6) }
func c18a7(string, sio.ServerSocket) { c18rec(7) }

// The pool is built afresh for every use: the odd entries are method values, and a method value is a new function value each time
// the expression is evaluated (what a user writes as OnX(obj.handle) ... OffX(obj.handle)); the even ones are top-level functions.
func c18anyF() []func(string, sio.ServerSocket) {
	return []func(string, sio.ServerSocket){c18a0, c18m.a1, c18a2, c18m.a3, c18a4, c18m.a5, c18a6, c18m.a7}
}

var c18any = c18anyF()

func c18d0(sio.Reason) { c18rec(0) }
func c18d1(sio.Reason) { c18rec(1) }
func c18d2(sio.Reason) { c18rec(2) }
func c18d3(sio.Reason) { c18rec(3) }
func c18d4(sio.Reason) { c18rec(4) }
func c18d5(sio.Reason) { c18rec(5) }
func c18d6(sio.Reason) { c18rec(6) }
func c18d7(sio.Reason) { c18rec(7) }

// The pool is built afresh for every use: the odd entries are method values, and a method value is a new function value each time
// the expression is evaluated (what a user writes as OnX(obj.handle) ... OffX(obj.handle)); the even ones are top-level functions.
func c18discF() []func(sio.Reason) {
	return []func(sio.Reason){c18d0, c18m.d1, c18d2, c18m.d3, c18d4, c18m.d5, c18d6, c18m.d7}
}

var c18disc = c18discF()

func c18o0(sio.Reason, error) { c18rec(0) }
func c18o1(sio.Reason, error) { c18rec(1) }
func c18o2(sio.Reason, error) { c18rec(2) }
func c18o3(sio.Reason, error) { c18rec(3) }
func c18o4(sio.Reason, error) { c18rec(4) }
func c18o5(sio.Reason, error) { c18rec(5) }
func c18o6(sio.Reason, error) { c18rec(6) }
func c18o7(sio.Reason, error) { c18rec(7) }

// The pool is built afresh for every use: the odd entries are method values, and a method value is a new function value each time
// the expression is evaluated (what a user writes as OnX(obj.handle) ... OffX(obj.handle)); the even ones are top-level functions.
func c18mcloseF() []func(sio.Reason, error) {
	return []func(sio.Reason, error){c18o0, c18m.o1, c18o2, c18m.o3, c18o4, c18m.o5, c18o6, c18m.o7}
}

var c18mclose = c18mcloseF()

// c18M carries the method-value handlers; one method per handler index (functions are identified by their code).
type c18M struct{}

var c18m = &c18M{}

func (*c18M) e1()                         { c18rec(1) }
func (*c18M) e3()                         { c18rec(3) }
func (*c18M) e5()                         { c18rec(5) }
func (*c18M) e7()                         { c18rec(7) }
func (*c18M) c1(sio.ServerSocket)         { c18rec(1) }
func (*c18M) c3(sio.ServerSocket)         { c18rec(3) }
func (*c18M) c5(sio.ServerSocket)         { c18rec(5) }
func (*c18M) c7(sio.ServerSocket)         { c18rec(7) }
func (*c18M) a1(string, sio.ServerSocket) { c18rec(1) }
func (*c18M) a3(string, sio.ServerSocket) { c18rec(3) }
func (*c18M) a5(string, sio.ServerSocket) { c18rec(5) }
func (*c18M) a7(string, sio.ServerSocket) { c18rec(7) }
func (*c18M) d1(sio.Reason)               { c18rec(1) }
func (*c18M) d3(sio.Reason)               { c18rec(3) }
func (*c18M) d5(sio.Reason)               { c18rec(5) }
func (*c18M) d7(sio.Reason)               { c18rec(7) }
func (*c18M) o1(sio.Reason, error)        { c18rec(1) }
func (*c18M) o3(sio.Reason, error)        { c18rec(3) }
func (*c18M) o5(sio.Reason, error)        { c18rec(5) }
func (*c18M) o7(sio.Reason, error)        { c18rec(7) }

// ---- case and model ----------------------------------------------------------------------------------------------

type c18Step struct {
	Op string `json:"op"` // on | once | off | offall | occur
	Ev string `json:"ev"`
	Hs []int  `json:"hs,omitempty"`
	K  int    `json:"k,omitempty"` // occur: number of simultaneous occurrences (1 = sequential model step)
}

type c18Case struct {
	Registry string    `json:"registry"`
	Steps    []c18Step `json:"steps"`
}

type c18Entry struct {
	h    int
	once bool
}

// a model is: event -> ordered registrations
type c18Model map[string][]c18Entry

func (m c18Model) clone() c18Model {
	n := c18Model{}
	for k, v := range m {
		n[k] = append([]c18Entry(nil), v...)
	}
	return n
}

func (m c18Model) key() string {
	keys := make([]string, 0, len(m))
	for k := range m {
		keys = append(keys, k)
	}
	sort.Strings(keys)
	s := ""
	for _, k := range keys {
		s += k + ":"
		for _, e := range m[k] {
			s += fmt.Sprintf("%d%v,", e.h, e.once)
		}
		s += ";"
	}
	return s
}

// offVariants returns the admissible results of Off(ev, hs...): for each named handler either all of its registrations
// are removed or exactly one of them (the text does not say which for a handler registered more than once).
func offVariants(m c18Model, ev string, hs []int) []c18Model {
	models := []c18Model{m.clone()}
	seen := map[int]bool{}
	for _, h := range hs {
		if seen[h] {
			continue // naming a handler twice in one call is the same as naming it once
		}
		seen[h] = true
		var next []c18Model
		for _, cur := range models {
			var idx []int
			for i, e := range cur[ev] {
				if e.h == h {
					idx = append(idx, i)
				}
			}
			if len(idx) == 0 {
				next = append(next, cur)
				continue
			}
			// all removed
			all := cur.clone()
			var kept []c18Entry
			for _, e := range cur[ev] {
				if e.h != h {
					kept = append(kept, e)
				}
			}
			all[ev] = kept
			next = append(next, all)
			if len(idx) > 1 {
				for _, i := range idx {
					one := cur.clone()
					one[ev] = append(append([]c18Entry(nil), cur[ev][:i]...), cur[ev][i+1:]...)
					next = append(next, one)
				}
			}
		}
		models = next
	}
	// dedupe
	uniq := map[string]c18Model{}
	for _, x := range models {
		uniq[x.key()] = x
	}
	out := make([]c18Model, 0, len(uniq))
	for _, x := range uniq {
		out = append(out, x)
	}
	return out
}

// registry under test
type c18Reg struct {
	events []string
	on     func(ev string, h int)
	once   func(ev string, h int)
	off    func(ev string, hs []int)
	offAll func()
	occur  func(ev string, k int) (occurred int) // produces k occurrences at once, waits for quiescence; 0 = not enabled now
	fire   func(ev string)                       // one occurrence, without waiting for it (nil where an occurrence is not always enabled)
}

// c18Events are the event names each registry is exercised with. A Namespace refuses only connect, connection and new_namespace
// (namespace_events.go): the names reserved for sockets are ordinary names there, and two of them are used on purpose.
var c18Events = map[string][]string{
	"server-socket-events": {"a", "b"}, "client-socket-events": {"a", "b"}, "namespace-events": {"disconnect", "a", "error"}, "namespace-connection": {"connection"},
	"server-any-connection": {"connection"}, "client-lifecycle": {"connect", "disconnect"}, "manager-close": {"close"},
}

func c18Registries() []string {
	return []string{"server-socket-events", "client-socket-events", "namespace-events", "namespace-connection", "server-any-connection", "client-lifecycle", "manager-close"}
}

func pick[T any](pool []T, hs []int) []T {
	out := make([]T, len(hs))
	for i, h := range hs {
		out[i] = pool[h]
	}
	return out
}

func anys[T any](xs []T) []any {
	out := make([]any, len(xs))
	for i, x := range xs {
		out[i] = x
	}
	return out
}

// buildC18 creates the registry inside the rig.
func buildC18(r *rig, kind string) (*c18Reg, string) {
	var srvSock sio.ServerSocket
	var mu sync.Mutex
	r.Server.OnConnection(func(s sio.ServerSocket) { mu.Lock(); srvSock = s; mu.Unlock() })
	connect := func() (sio.ClientSocket, *sio.Manager) {
		m := r.manager([]string{"websocket"}, nil)
		s := m.Socket("/", nil)
		s.Connect()
		settle(0)
		return s, m
	}
	switch kind {
	case "server-socket-events":
		cli, _ := connect()
		mu.Lock()
		ss := srvSock
		mu.Unlock()
		if ss == nil || !cli.Connected() {
			return nil, "client did not connect"
		}
		return &c18Reg{events: []string{"a", "b"},
			on:     func(ev string, h int) { ss.OnEvent(ev, c18evF()[h]) },
			once:   func(ev string, h int) { ss.OnceEvent(ev, c18evF()[h]) },
			off:    func(ev string, hs []int) { ss.OffEvent(ev, anys(pick(c18evF(), hs))...) },
			offAll: func() { ss.OffAll() },
			fire:   func(ev string) { cli.Emit(ev) },
			occur: func(ev string, k int) int {
				for i := 0; i < k; i++ {
					cli.Emit(ev)
				}
				settle(0)
				return k
			}}, ""
	case "client-socket-events":
		cli, _ := connect()
		mu.Lock()
		ss := srvSock
		mu.Unlock()
		if ss == nil || !cli.Connected() {
			return nil, "client did not connect"
		}
		return &c18Reg{events: []string{"a", "b"},
			on:     func(ev string, h int) { cli.OnEvent(ev, c18evF()[h]) },
			once:   func(ev string, h int) { cli.OnceEvent(ev, c18evF()[h]) },
			off:    func(ev string, hs []int) { cli.OffEvent(ev, anys(pick(c18evF(), hs))...) },
			offAll: func() { cli.OffAll() },
			fire:   func(ev string) { ss.Emit(ev) },
			occur: func(ev string, k int) int {
				for i := 0; i < k; i++ {
					ss.Emit(ev)
				}
				settle(0)
				return k
			}}, ""
	case "namespace-events":
		// The handlers of a Namespace's own events: what the other servers of a cluster send with ServerSideEmit, delivered by the
		// adapter through the exported Namespace.OnServerSideEmit (the in-memory adapter has no peers, so the harness plays that part).
		nsp := r.Server.Of("/")
		return &c18Reg{events: c18Events[kind],
			on:     func(ev string, h int) { nsp.OnEvent(ev, c18evF()[h]) },
			once:   func(ev string, h int) { nsp.OnceEvent(ev, c18evF()[h]) },
			off:    func(ev string, hs []int) { nsp.OffEvent(ev, anys(pick(c18evF(), hs))...) },
			offAll: func() { nsp.OffAll() },
			fire:   func(ev string) { nsp.OnServerSideEmit(ev) },
			occur: func(ev string, k int) int {
				for i := 0; i < k; i++ {
					nsp.OnServerSideEmit(ev)
				}
				settle(0)
				return k
			}}, ""
	case "namespace-connection":
		nsp := r.Server.Of("/")
		return &c18Reg{events: []string{"connection"},
			fire: func(ev string) { r.manager([]string{"websocket"}, nil).Socket("/", nil).Connect() },
			on:   func(ev string, h int) { nsp.OnConnection(c18connF()[h]) },
			once: func(ev string, h int) { nsp.OnceConnection(c18connF()[h]) },
			off: func(ev string, hs []int) {
				fs := make([]sio.NamespaceConnectionFunc, len(hs))
				for i, h := range hs {
					fs[i] = c18connF()[h]
				}
				nsp.OffConnection(fs...)
			},
			occur: func(ev string, k int) int {
				socks := make([]sio.ClientSocket, k)
				for i := range socks {
					socks[i] = r.manager([]string{"websocket"}, nil).Socket("/", nil)
				}
				for _, s := range socks {
					s.Connect()
				}
				settle(0)
				return k
			}}, ""
	case "server-any-connection":
		return &c18Reg{events: []string{"connection"},
			fire: func(ev string) { r.manager([]string{"websocket"}, nil).Socket("/", nil).Connect() },
			on:   func(ev string, h int) { r.Server.OnAnyConnection(c18anyF()[h]) },
			once: func(ev string, h int) { r.Server.OnceAnyConnection(c18anyF()[h]) },
			off: func(ev string, hs []int) {
				fs := make([]sio.ServerAnyConnectionFunc, len(hs))
				for i, h := range hs {
					fs[i] = c18anyF()[h]
				}
				r.Server.OffAnyConnection(fs...)
			},
			occur: func(ev string, k int) int {
				socks := make([]sio.ClientSocket, k)
				for i := range socks {
					socks[i] = r.manager([]string{"websocket"}, nil).Socket("/", nil)
				}
				for _, s := range socks {
					s.Connect()
				}
				settle(0)
				return k
			}}, ""
	case "client-lifecycle":
		m := r.manager([]string{"websocket"}, nil)
		cli := m.Socket("/", nil)
		return &c18Reg{events: []string{"connect", "disconnect"},
			on: func(ev string, h int) {
				if ev == "connect" {
					cli.OnConnect(c18evF()[h])
				} else {
					cli.OnDisconnect(c18discF()[h])
				}
			},
			once: func(ev string, h int) {
				if ev == "connect" {
					cli.OnceConnect(c18evF()[h])
				} else {
					cli.OnceDisconnect(c18discF()[h])
				}
			},
			off: func(ev string, hs []int) {
				if ev == "connect" {
					fs := make([]sio.ClientSocketConnectFunc, len(hs))
					for i, h := range hs {
						fs[i] = c18evF()[h]
					}
					cli.OffConnect(fs...)
				} else {
					fs := make([]sio.ClientSocketDisconnectFunc, len(hs))
					for i, h := range hs {
						fs[i] = c18discF()[h]
					}
					cli.OffDisconnect(fs...)
				}
			},
			offAll: func() { cli.OffAll() },
			occur: func(ev string, k int) int {
				if ev == "connect" {
					if cli.Connected() {
						return 0
					}
					cli.Connect()
					settle(0)
					if !cli.Connected() {
						return 0
					}
					return 1
				}
				if !cli.Connected() {
					return 0
				}
				cli.Disconnect()
				settle(0)
				return 1
			}}, ""
	case "manager-close":
		m := r.manager([]string{"websocket"}, nil)
		cli := m.Socket("/", nil)
		return &c18Reg{events: []string{"close"},
			on:   func(ev string, h int) { m.OnClose(c18mcloseF()[h]) },
			once: func(ev string, h int) { m.OnceClose(c18mcloseF()[h]) },
			off: func(ev string, hs []int) {
				fs := make([]sio.ManagerCloseFunc, len(hs))
				for i, h := range hs {
					fs[i] = c18mcloseF()[h]
				}
				m.OffClose(fs...)
			},
			offAll: func() { m.OffAll() },
			occur: func(ev string, k int) int {
				// one close occurrence: connect, then have the server end the connection
				cli.Connect()
				settle(0)
				if !cli.Connected() {
					return 0
				}
				c18take()      // nothing ran so far that we care about
				r.Net.CutAll() // the transport is lost: one close of the manager (reconnection is off)
				settle(0)
				return 1
			}}, ""
	}
	return nil, "unknown registry " + kind
}

var c18Aborted int64

func evalC18(c c18Case) (f *Failure, nontrivial bool) {
	aborted := false
	defer func() {
		if aborted {
			c18mu.Lock()
			c18Aborted++
			c18mu.Unlock()
		}
	}()
	class := c.Registry
	fail := func(clause, detail string) *Failure {
		return &Failure{Property: "C18", Check: c18Check, Clause: clause, Class: class, Detail: detail, Case: c}
	}
	journal(c18Check, class, c)
	var res *Failure
	msg := runRig(rigOpts{}, func(r *rig) {
		reg, problem := buildC18(r, c.Registry)
		if reg == nil {
			res = fail("rig", problem)
			return
		}
		c18take()
		models := []c18Model{{}}
		call := func(desc string, fn func()) bool {
			if pm, _ := catchPanic(fn); pm != "" {
				res = fail("no-panic", desc+" panicked: "+pm)
				return false
			}
			return true
		}
		for si, st := range c.Steps {
			tick()
			switch st.Op {
			case "on", "once":
				h := st.Hs[0]
				ok := call(fmt.Sprintf("step %d %s(%s, h%d)", si, st.Op, st.Ev, h), func() {
					if st.Op == "on" {
						reg.on(st.Ev, h)
					} else {
						reg.once(st.Ev, h)
					}
				})
				if !ok {
					return
				}
				for _, m := range models {
					for _, e := range m[st.Ev] {
						if e.h == h {
							nontrivial = true // duplicate registration
						}
					}
					m[st.Ev] = append(m[st.Ev], c18Entry{h, st.Op == "once"})
				}
			case "off":
				if !call(fmt.Sprintf("step %d off(%s, %v)", si, st.Ev, st.Hs), func() { reg.off(st.Ev, st.Hs) }) {
					return
				}
				if len(st.Hs) >= 2 {
					nontrivial = true
				}
				var next []c18Model
				for _, m := range models {
					if len(st.Hs) == 0 {
						n := m.clone()
						delete(n, st.Ev)
						next = append(next, n)
					} else {
						next = append(next, offVariants(m, st.Ev, st.Hs)...)
					}
				}
				models = dedupeModels(next)
			case "offall":
				if reg.offAll == nil {
					continue
				}
				if !call(fmt.Sprintf("step %d offAll()", si), reg.offAll) {
					return
				}
				models = []c18Model{{}}
			case "occur":
				k := max(1, st.K)
				var occurred int
				if !call(fmt.Sprintf("step %d occurrence of %s x%d", si, st.Ev, k), func() { occurred = reg.occur(st.Ev, k) }) {
					return
				}
				ran := c18take()
				if occurred == 0 {
					if len(ran) != 0 {
						if c.Registry == "client-lifecycle" || c.Registry == "manager-close" {
							// The connection attempt that was to produce the occurrence failed and the client reported a close/disconnect
							// of its own: the number of occurrences is unknown, so the registry oracle cannot continue on this case.
							// (Why the attempt failed is the business of C06/C15, not of the registries.)
							aborted = true
							return
						}
						res = fail("spurious-run", fmt.Sprintf("step %d: no occurrence of %s happened but handlers %v ran", si, st.Ev, ran))
						return
					}
					continue
				}
				// predicted multiset: On handlers run once per occurrence, Once handlers once in total
				var surviving []c18Model
				var predictions []string
				for _, m := range models {
					var want []int
					for _, e := range m[st.Ev] {
						n := occurred
						if e.once {
							n = 1
							if occurred > 1 {
								nontrivial = true // a Once registration raced by several occurrences
							}
						}
						for i := 0; i < n; i++ {
							want = append(want, e.h)
						}
					}
					sort.Ints(want)
					predictions = append(predictions, fmt.Sprint(want))
					if fmt.Sprint(want) == fmt.Sprint(ran) {
						n := m.clone()
						var kept []c18Entry
						for _, e := range m[st.Ev] {
							if !e.once {
								kept = append(kept, e)
							}
						}
						n[st.Ev] = kept
						surviving = append(surviving, n)
					}
				}
				if len(surviving) == 0 {
					clause := "handlers-run"
					if occurred > 1 {
						clause = "once-at-most-once"
					}
					res = fail(clause, fmt.Sprintf("step %d: %d occurrence(s) of %q ran handlers %v; the reference registry allows %v", si, occurred, st.Ev, ran, uniqStrings(predictions)))
					return
				}
				models = dedupeModels(surviving)
			}
		}
	})
	if res == nil && msg != "" && !isBubbleDeadlock(msg) {
		res = fail("bubble-panic", "synctest: "+msg)
	}
	return res, nontrivial
}

func dedupeModels(ms []c18Model) []c18Model {
	u := map[string]c18Model{}
	for _, m := range ms {
		u[m.key()] = m
	}
	out := make([]c18Model, 0, len(u))
	for _, m := range u {
		out = append(out, m)
	}
	return out
}

func uniqStrings(ss []string) []string {
	u := map[string]bool{}
	var out []string
	for _, s := range ss {
		if !u[s] {
			u[s] = true
			out = append(out, s)
		}
	}
	sort.Strings(out)
	return out
}

func genC18Case(t *rapid.T) c18Case {
	c := c18Case{Registry: rapid.SampledFrom(c18Registries()).Draw(t, "registry")}
	events := c18Events[c.Registry]
	maxSteps := 24
	if c.Registry == "namespace-connection" || c.Registry == "server-any-connection" || c.Registry == "manager-close" {
		maxSteps = 14 // every occurrence is a new client connection
	}
	n := rapid.IntRange(2, maxSteps).Draw(t, "steps")
	hgen := rapid.IntRange(0, 3) // a small pool makes duplicates and hits likely; the pool has 8
	for i := 0; i < n; i++ {
		ev := rapid.SampledFrom(events).Draw(t, "ev")
		st := c18Step{Ev: ev}
		switch rapid.IntRange(0, 9).Draw(t, "op") {
		case 0, 1, 2:
			st.Op, st.Hs = "on", []int{hgen.Draw(t, "h")}
		case 3, 4:
			st.Op, st.Hs = "once", []int{hgen.Draw(t, "h")}
		case 5, 6:
			st.Op = "off"
			k := rapid.IntRange(0, 3).Draw(t, "noff")
			for j := 0; j < k; j++ {
				st.Hs = append(st.Hs, rapid.IntRange(0, 4).Draw(t, "offh"))
			}
		case 7:
			if rapid.IntRange(0, 3).Draw(t, "rare") == 0 {
				st.Op = "offall"
			} else {
				st.Op, st.K = "occur", 1
			}
		default:
			st.Op, st.K = "occur", 1
			if c.Registry != "client-lifecycle" && c.Registry != "manager-close" && rapid.IntRange(0, 3).Draw(t, "burst") == 0 {
				st.K = rapid.IntRange(2, 6).Draw(t, "k")
			}
		}
		c.Steps = append(c.Steps, st)
	}
	c.Steps = append(c.Steps, c18Step{Op: "occur", Ev: events[0], K: 1})
	return c
}

func TestC18_Model(t *testing.T) {
	setT(t)
	defer startWatchdog(t, 60*1e9)()
	ev := NewEv(t, "C18", c18Check, "rapid state machine over seven registries through the public API (server/client socket and Namespace OnEvent/OnceEvent/OffEvent/OffAll, the Namespace with event names that are reserved for sockets only; Namespace On/Once/OffConnection; "+
		"Server On/Once/OffAnyConnection; client On/Once/OffConnect|Disconnect; Manager On/Once/OffClose) with real occurrences in a virtual-time rig, 8 distinct handler functions per signature; "+
		"occurrences singly (reference registry, set of admissible models for duplicate registrations) and in simultaneous bursts of 2..6 (Once at most once, On every time); "+
		"non-trivial = an Off naming >= 2 handlers, a duplicate registration, or a Once raced by >= 2 occurrences")
	rapidGuard(t, "C18", c18Check)
	runRapid(t, c18Check, tierN(9000, 120000), func(t *rapid.T) {
		c := genC18Case(t)
		f, nt := evalC18(c)
		ev.Case(c, nt, c.Registry)
		if nt {
			ev.Sample(c.Registry, c)
		}
		if f != nil {
			FailRapid(t, *f)
		}
	})
	c18mu.Lock()
	ev.Class("aborted-occurrence-count-unknown", c18Aborted)
	c18mu.Unlock()
}

// ---- concurrent at-most-once under load -----------------------------------------------------------------------------

const c18CheckBurst = "c18-once-burst"

type c18BurstCase struct {
	Side     string `json:"side"` // server-socket | client-socket
	Bursts   int    `json:"bursts"`
	K        int    `json:"k"`         // occurrences per burst
	Emitters int    `json:"emitters"`  // goroutines releasing them
	Onces    int    `json:"onces"`     // Once registrations per burst (distinct handlers)
	Ons      int    `json:"ons"`       // On registrations present before the first burst (0 is read as 1)
	MidOnces int    `json:"mid_onces"` // Once registrations made while a burst is being dispatched
	MidOn    bool   `json:"mid_on"`    // every fourth burst one more On registration is made while it is being dispatched
}

func evalC18Burst(c c18BurstCase) *Failure {
	fail := func(clause, detail string) *Failure {
		return &Failure{Property: "C18", Check: c18CheckBurst, Clause: clause, Class: c.Side, Detail: detail, Case: c}
	}
	journal(c18CheckBurst, c.Side, c)
	var res *Failure
	msg := runRig(rigOpts{}, func(r *rig) {
		var mu sync.Mutex
		var ss sio.ServerSocket
		r.Server.OnConnection(func(s sio.ServerSocket) { mu.Lock(); ss = s; mu.Unlock() })
		cli := r.manager([]string{"websocket"}, nil).Socket("/", nil)
		cli.Connect()
		settle(0)
		mu.Lock()
		srv := ss
		mu.Unlock()
		if srv == nil || !cli.Connected() {
			res = fail("rig", "client did not connect")
			return
		}
		var reg sio.Socket = srv
		var emitter sio.Socket = cli
		if c.Side == "client-socket" {
			reg, emitter = cli, srv
		}
		ons := max(c.Ons, 1)
		for i := 0; i < ons; i++ {
			reg.OnEvent("x", c18evF()[7]) // the same handler registered several times runs that many times per occurrence
		}
		c18take()
		for b := 0; b < c.Bursts && res == nil; b++ {
			tick()
			for o := 0; o < c.Onces; o++ {
				reg.OnceEvent("x", c18evF()[o])
			}
			var wg sync.WaitGroup
			// registrations made while the occurrences are being dispatched
			midOn := c.MidOn && b%4 == 1
			if c.MidOnces > 0 || midOn {
				wg.Add(1)
				go func() {
					defer wg.Done()
					for o := 0; o < c.MidOnces; o++ {
						reg.OnceEvent("x", c18evF()[4+o])
					}
					if midOn {
						reg.OnEvent("x", c18evF()[7])
					}
				}()
			}
			for g := 0; g < c.Emitters; g++ {
				wg.Add(1)
				go func(g int) {
					defer wg.Done()
					for i := g; i < c.K; i += c.Emitters {
						emitter.Emit("x")
					}
				}(g)
			}
			wg.Wait()
			settle(0)
			ran := c18take()
			counts := map[int]int{}
			for _, h := range ran {
				counts[h]++
			}
			for o := 0; o < c.Onces; o++ {
				if counts[o] != 1 {
					res = fail("once-at-most-once", fmt.Sprintf("burst %d: %d simultaneous occurrences ran the Once handler h%d %d times (ran %v)", b, c.K, o, counts[o], ran))
				}
			}
			for o := 0; o < c.MidOnces; o++ {
				if counts[4+o] > 1 {
					res = fail("once-at-most-once", fmt.Sprintf("burst %d: the Once handler h%d, registered while %d occurrences were being dispatched, ran %d times (ran %v)", b, 4+o, c.K, counts[4+o], ran))
				}
				reg.OffEvent("x", c18evF()[4+o]) // whether it ran or is still pending: removed before the next burst
			}
			lo, hi := c.K*ons, c.K*ons
			if midOn {
				hi = c.K * (ons + 1)
				ons++
			}
			if (counts[7] < lo || counts[7] > hi) && res == nil {
				res = fail("on-every-time", fmt.Sprintf("burst %d: the On handler (registered %d times) ran %d times for %d occurrences, want %d..%d", b, ons, counts[7], c.K, lo, hi))
			}
		}
	})
	if res == nil && msg != "" && !isBubbleDeadlock(msg) {
		res = fail("bubble-panic", "synctest: "+msg)
	}
	return res
}

func TestC18_OnceBurst(t *testing.T) {
	setT(t)
	defer startWatchdog(t, 60*1e9)()
	ev := NewEv(t, "C18", c18CheckBurst, "Once registrations (1..3 distinct handlers) raced by bursts of 2..16 simultaneous occurrences released from 1..4 goroutines, both socket directions, "+
		"many bursts per rig, with 1..15 On registrations already present and 0..2 Once / one more On registration made while the burst is being dispatched; oracle: each Once handler registered before the "+
		"burst exactly once per burst, one registered during it at most once, the On handler once per occurrence and registration; non-trivial = every burst case")
	rapidGuard(t, "C18", c18CheckBurst)
	runRapid(t, c18CheckBurst, tierN(160, 2400), func(t *rapid.T) {
		c := c18BurstCase{Side: rapid.SampledFrom([]string{"server-socket", "client-socket"}).Draw(t, "side"), Bursts: tierV(60, 200),
			K: rapid.IntRange(2, 16).Draw(t, "k"), Emitters: rapid.IntRange(1, 4).Draw(t, "emitters"), Onces: rapid.IntRange(1, 3).Draw(t, "onces"),
			Ons: rapid.IntRange(1, 15).Draw(t, "ons"), MidOnces: rapid.IntRange(0, 2).Draw(t, "midOnces"), MidOn: rapid.Bool().Draw(t, "midOn")}
		ev.Case(c, true, c.Side)
		ev.Sample(c.Side, c)
		if f := evalC18Burst(c); f != nil {
			FailRapid(t, *f)
		}
	})
}

func init() {
	registerReplay(c18CheckBurst, func(raw json.RawMessage) *Failure { return evalC18Burst(decodeCase[c18BurstCase](raw)) })
	registerReplay(c18Check, func(raw json.RawMessage) *Failure {
		f, _ := evalC18(decodeCase[c18Case](raw))
		return f
	})
}
