package harness

// C15 — bounded back-off (function level). See DESIGN.md §3 C15. The reconnect state machine lives in c15_e2e_test.go.

import (
	"encoding/json"
	"fmt"
	"math"
	"testing"
	"time"

	sio "github.com/karagenc/socket.io-go"
	"pgregory.net/rapid"
)

const c15CheckBackoff = "c15-backoff"

type c15BackoffCase struct {
	Min     time.Duration `json:"min"`
	Max     time.Duration `json:"max"`
	Jitter  float32       `json:"jitter"`
	Attempt uint32        `json:"attempt"`
	Reps    int           `json:"reps"` // the function draws from math/rand: evaluated this many times
}

func evalC15Backoff(c c15BackoffCase) *Failure {
	class := "attempt>0"
	if c.Attempt == 0 {
		class = "attempt=0"
	} else if c.Attempt >= 40 {
		class = "overflow-region"
	}
	fail := func(clause, detail string) *Failure {
		return &Failure{Property: "C15", Check: c15CheckBackoff, Clause: clause, Class: class, Detail: detail, Case: c}
	}
	j := float64(c.Jitter)
	if j <= 0 || j > 1 || math.IsNaN(j) {
		j = 0 // documented: jitter outside (0,1] means none
	}
	for r := 0; r < max(1, c.Reps); r++ {
		var d time.Duration
		if msg, _ := catchPanic(func() { d = sio.VerifBackoff(c.Min, c.Max, c.Jitter, c.Attempt) }); msg != "" {
			return fail("no-panic", "backoff.duration panicked: "+msg)
		}
		if d <= 0 || d > c.Max {
			return fail("within-(0,max]", fmt.Sprintf("delay %v is outside (0, %v]", d, c.Max))
		}
		if c.Attempt == 0 {
			lo := time.Duration(math.Floor(float64(c.Min)*(1-j))) - 1
			hi := time.Duration(math.Ceil(float64(c.Min)*(1+j))) + 1
			if hi > c.Max {
				hi = c.Max
			}
			if lo > c.Max {
				lo = c.Max
			}
			if d < lo || d > hi {
				return fail("starts-from-delay", fmt.Sprintf("first delay %v is outside the jitter band [%v, %v] around ReconnectionDelay %v (max %v)", d, lo, hi, c.Min, c.Max))
			}
		}
	}
	return nil
}

func TestC15_Backoff(t *testing.T) {
	ev := NewEv(t, "C15", c15CheckBackoff, "rapid: ReconnectionDelay in [1ms,1h], ReconnectionDelayMax in [1ms,24h] (either order), jitter in [0,1] and outside, attempt number 0..2^32-1 biased to "+
		"0..70 and the overflow region, each evaluated 8 times (the function draws from math/rand); oracle: 0 < d <= max always, attempt 0 => d within the jitter band around delay; "+
		"non-trivial = attempt >= 31 (2^attempt * delay overflows or saturates) or jitter > 0 at attempt 0")
	rapidGuard(t, "C15", c15CheckBackoff)
	durGen := func(hi time.Duration) *rapid.Generator[time.Duration] {
		return rapid.OneOf(
			rapid.SampledFrom([]time.Duration{time.Millisecond, 2 * time.Millisecond, 999 * time.Microsecond * 1000, time.Second, 5 * time.Second, time.Minute, time.Hour, hi}),
			rapid.Map(rapid.Int64Range(int64(time.Millisecond), int64(hi)), func(n int64) time.Duration { return time.Duration(n) }),
		)
	}
	runRapid(t, c15CheckBackoff, tierN(200000, 5000000), func(t *rapid.T) {
		c := c15BackoffCase{Min: durGen(time.Hour).Draw(t, "delay"), Max: durGen(24*time.Hour).Draw(t, "max"), Reps: 8}
		c.Jitter = rapid.OneOf(rapid.SampledFrom([]float32{0, 0.5, 1, 0.999, 0.001, -0.5, 1.5, 2}), rapid.Float32Range(0, 1)).Draw(t, "jitter")
		c.Attempt = rapid.OneOf(rapid.Uint32Range(0, 70), rapid.SampledFrom([]uint32{0, 1, 30, 31, 32, 33, 62, 63, 64, 65, 1023, 1024, 1025, 1 << 20, math.MaxUint32 - 1, math.MaxUint32}), rapid.Uint32()).Draw(t, "attempt")
		nt := c.Attempt >= 31 || (c.Attempt == 0 && c.Jitter > 0 && c.Jitter <= 1)
		cls := "attempt>0"
		if c.Attempt == 0 {
			cls = "attempt=0"
		} else if c.Attempt >= 31 {
			cls = "overflow-region"
		}
		ev.Case(c, nt, cls)
		if nt {
			ev.Sample(cls, c)
		}
		if f := evalC15Backoff(c); f != nil {
			FailRapid(t, *f)
		}
	})
}

func init() {
	registerReplay(c15CheckBackoff, func(raw json.RawMessage) *Failure { return evalC15Backoff(decodeCase[c15BackoffCase](raw)) })
}
