package harness

// C08 (end to end) — a hand-written Socket.IO client that implements connection state recovery by the book (tracks the offset
// carried as the last argument of every broadcast event, reconnects with {pid, offset}) against the real server on the
// virtual-time rig. DESIGN.md §3 C08. The adapter-level check (c08_test.go) decides the log arithmetic; this one decides what
// the server does with it on the wire: replay before the CONNECT answer, same sid, rooms restored, clean fall-back.

import (
	"encoding/json"
	"fmt"
	"net/http"
	"strings"
	"sync"
	"sync/atomic"
	"testing"
	"time"

	sio "github.com/karagenc/socket.io-go"
	eio "github.com/karagenc/socket.io-go/engine.io"
	"github.com/karagenc/socket.io-go/engine.io/parser"
	"nhooyr.io/websocket"
	"pgregory.net/rapid"

	"verif/harness/refcodec"
)

const c08eCheck = "c08-recovery-e2e"

type c08eOp struct {
	Op     string `json:"op"` // bc-nsp | bc-room | bc-except | direct | join | leave | wait
	Room   int    `json:"room"`
	Binary bool   `json:"binary"`
	WaitMs int    `json:"wait_ms"`
}

type c08eCase struct {
	Transport           string   `json:"transport"`
	WindowMs            int      `json:"window_ms"`
	CleanerMs           int      `json:"cleaner_ms"` // period of the log cleaner (0 = the production default of one minute)
	Rooms               []int    `json:"rooms"`      // rooms joined on the first connection
	Online              []c08eOp `json:"online"`     // while connected
	How                 string   `json:"how"`        // cut | blackhole | server-close-conn | client-disconnect | server-disconnect
	Away                []c08eOp `json:"away"`       // while away (after the server has noticed)
	EarlyAway           int      `json:"early_away"` // broadcasts issued right after the loss, before the server can have noticed it
	Offset              string   `json:"offset"`     // last | older | unknown | empty
	Pid                 string   `json:"pid"`        // own | unknown | none
	UseMiddlewares      bool     `json:"use_middlewares"`
	After               []c08eOp `json:"after"`
	Twice               bool     `json:"twice"`                 // lose the connection and recover a second time
	SlowDisconnectingMs int      `json:"slow_disconnecting_ms"` // the application's disconnecting handler takes this long; the client comes back while it still runs
}

func (c c08eCase) class() string {
	return fmt.Sprintf("%s,%s,offset=%s,pid=%s", c.Transport, c.How, c.Offset, c.Pid)
}

var c08eRooms = []sio.Room{"ra", "rb", "rc"}

// rawSIO is a minimal Socket.IO client over the repository's Engine.IO client.
type rawSIO struct {
	mu      sync.Mutex
	cli     eio.ClientSocket
	dec     refcodec.StreamDecoder
	packets []refcodec.SIOPacket // everything received, in order
	decErr  string
	closed  string
}

func (p *rawSIO) snapshot() []refcodec.SIOPacket {
	p.mu.Lock()
	defer p.mu.Unlock()
	return append([]refcodec.SIOPacket(nil), p.packets...)
}

func dialRawSIO(r *rig, transport string) (*rawSIO, *http.Transport, error) {
	p := &rawSIO{}
	tr := &http.Transport{DialContext: r.Net.Dial}
	cli, err := eio.Dial("http://x/socket.io", &eio.Callbacks{
		OnPacket: func(ps ...*parser.Packet) {
			p.mu.Lock()
			defer p.mu.Unlock()
			for _, ep := range ps {
				if ep.Type != parser.PacketTypeMessage {
					continue
				}
				pkt, err := p.dec.Add(ep.Data, ep.IsBinary)
				if err != nil && p.decErr == "" {
					p.decErr = err.Error()
				}
				if pkt != nil {
					p.packets = append(p.packets, *pkt)
				}
			}
		},
		OnClose: func(reason eio.Reason, err error) { p.mu.Lock(); p.closed = string(reason); p.mu.Unlock() },
	}, &eio.ClientConfig{Transports: c01Transports(transport), HTTPTransport: tr, WebSocketDialOptions: &websocket.DialOptions{HTTPClient: &http.Client{Transport: tr}}})
	if err != nil {
		return nil, tr, err
	}
	p.cli = cli
	return p, tr, nil
}

func (p *rawSIO) send(text string) {
	ep, _ := parser.NewPacket(parser.PacketTypeMessage, false, []byte(text))
	p.cli.Send(ep)
}

// c08eEvent is what the reference log keeps about a broadcast.
type c08eEvent struct {
	at     time.Time
	tok    string
	rooms  []sio.Room // target rooms (empty = whole namespace)
	except []sio.Room
	logged bool // broadcasts are logged, direct emits are not
}

func (e c08eEvent) addresses(member map[sio.Room]bool) bool {
	in := len(e.rooms) == 0
	for _, r := range e.rooms {
		in = in || member[r]
	}
	for _, r := range e.except {
		if member[r] {
			return false
		}
	}
	return in
}

func evalC08e(c c08eCase) (f *Failure, nontrivial bool) {
	class := c.class()
	fail := func(clause, detail string) *Failure {
		return &Failure{Property: "C08", Check: c08eCheck, Clause: clause, Class: class, Detail: detail, Case: c}
	}
	journal(c08eCheck, class, c)
	var res *Failure
	window := time.Duration(c.WindowMs) * time.Millisecond
	msg := runRig(rigOpts{Recovery: true, RecoveryWindow: window, CleanerPeriod: time.Duration(c.CleanerMs) * time.Millisecond, RecoveryUseMiddlewares: c.UseMiddlewares, PingInterval: time.Second, PingTimeout: time.Second}, func(r *rig) {
		var mu sync.Mutex
		var slowArmed atomic.Bool
		var conns []sio.ServerSocket // server sockets in order of their connection handlers
		mwRuns := 0
		var disconnects []string
		nsp := r.Server.Of("/")
		nsp.Use(func(s sio.ServerSocket, _ *sio.Handshake) any { mu.Lock(); mwRuns++; mu.Unlock(); return nil })
		nsp.OnConnection(func(s sio.ServerSocket) {
			mu.Lock()
			conns = append(conns, s)
			mu.Unlock()
			// "the server has noticed the loss" = its disconnecting handler is entered (the disconnect handler runs only after the disconnecting handlers returned)
			s.OnDisconnecting(func(reason sio.Reason) {
				mu.Lock()
				disconnects = append(disconnects, string(reason))
				mu.Unlock()
				if c.SlowDisconnectingMs > 0 && slowArmed.CompareAndSwap(true, false) {
					time.Sleep(time.Duration(c.SlowDisconnectingMs) * time.Millisecond) // only the socket that loses its connection, not the ones closed by the teardown
				}
			})
		})
		if c.SlowDisconnectingMs > 0 {
			// whatever the verdict: a slow disconnecting handler is allowed to return before the teardown closes its socket a second time
			// (the library holds the socket's close-once guard while it waits for the handler; virtual time cannot pass while somebody waits for it)
			defer func() { settle(time.Duration(c.SlowDisconnectingMs)*time.Millisecond + 11*time.Second) }()
		}
		var trs []*http.Transport
		defer func() {
			for _, tr := range trs {
				tr.CloseIdleConnections()
			}
		}()
		peer, tr, err := dialRawSIO(r, c.Transport)
		trs = append(trs, tr)
		if err != nil {
			res = fail("rig-connect", "raw dial: "+err.Error())
			return
		}
		peer.send("0")
		settle(time.Second)
		first := peer.snapshot()
		if len(first) != 1 || first[0].Header.Type != 0 || first[0].Payload == nil {
			res = fail("rig-connect", fmt.Sprintf("no CONNECT answer: %v", first))
			return
		}
		sid, pid := first[0].Payload.Obj["sid"].Str, first[0].Payload.Obj["pid"].Str
		if sid == "" || pid == "" {
			res = fail("rig-connect", fmt.Sprintf("CONNECT answer without sid/pid although recovery is enabled: %s", first[0].Payload))
			return
		}
		mu.Lock()
		if len(conns) != 1 {
			mu.Unlock()
			res = fail("rig-connect", "no server socket")
			return
		}
		ss := conns[0]
		mu.Unlock()
		member := map[sio.Room]bool{sio.Room(sid): true}
		for _, k := range c.Rooms {
			ss.Join(c08eRooms[k%3])
			member[c08eRooms[k%3]] = true
		}
		// reference log
		var log []c08eEvent
		seq := 0
		connected := true
		expectLive := map[string]bool{} // tokens the peer must receive live (while connected)
		run := func(ops []c08eOp, phase string) {
			for _, op := range ops {
				tick()
				seq++
				tok := fmt.Sprintf("%s-%d", phase, seq)
				room := c08eRooms[op.Room%3]
				var args []any
				if op.Binary {
					args = []any{tok, Bin([]byte("bin-" + tok))}
				} else {
					args = []any{tok}
				}
				e := c08eEvent{tok: tok, logged: true, at: time.Now()}
				switch op.Op {
				case "bc-nsp":
					nsp.Emit("ev", args...)
				case "bc-room":
					e.rooms = []sio.Room{room}
					nsp.To(room).Emit("ev", args...)
				case "bc-except":
					e.except = []sio.Room{room}
					nsp.Except(room).Emit("ev", args...)
				case "direct":
					// with recovery enabled a direct emit is a broadcast to the socket's own room: logged and replayed like any other
					e.rooms = []sio.Room{sio.Room(sid)}
					mu.Lock()
					cur := conns[len(conns)-1]
					mu.Unlock()
					cur.Emit("ev", args...)
				case "join", "leave":
					if !connected {
						continue
					}
					mu.Lock()
					cur := conns[len(conns)-1]
					mu.Unlock()
					if op.Op == "join" {
						cur.Join(room)
						member[room] = true
					} else {
						cur.Leave(room)
						delete(member, room)
					}
					// a namespace-wide broadcast follows every membership change, so that the peer's offset moves past it
					// (a packet older than the membership is the subject of known finding KF-C08-1, decided at adapter level)
					seq++
					sync := c08eEvent{tok: fmt.Sprintf("%s-%d-sync", phase, seq), logged: true, at: time.Now()}
					nsp.Emit("ev", sync.tok)
					log = append(log, sync)
					expectLive[sync.tok] = true
					settle(20 * time.Millisecond)
					continue
				case "wait":
					settle(time.Duration(op.WaitMs) * time.Millisecond)
					continue
				}
				log = append(log, e)
				if connected && e.addresses(member) {
					expectLive[e.tok] = true
				}
				settle(5 * time.Millisecond)
			}
		}
		// tokens received by the peer since index `from`, with their offsets
		type got struct{ tok, offset string }
		received := func(ps []refcodec.SIOPacket) (evs []got, connects []refcodec.SIOPacket, order []string) {
			for _, p := range ps {
				switch p.Header.Type {
				case 0:
					connects = append(connects, p)
					order = append(order, "CONNECT")
				case 2, 5:
					if p.Payload == nil || len(p.Payload.Arr) < 2 {
						continue
					}
					g := got{tok: p.Payload.Arr[1].Str}
					if last := p.Payload.Arr[len(p.Payload.Arr)-1]; last.Kind == "str" && len(p.Payload.Arr) > 2 {
						g.offset = last.Str
					}
					evs = append(evs, g)
					order = append(order, g.tok)
				}
			}
			return
		}
		run(c.Online, "online")
		settle(200 * time.Millisecond)
		rounds := 1
		if c.Twice {
			rounds = 2
		}
		for round := 0; round < rounds && res == nil; round++ {
			before := peer.snapshot()
			evs, _, _ := received(before)
			// every live token arrived exactly once so far
			count := map[string]int{}
			for _, g := range evs {
				count[g.tok]++
			}
			for tok := range expectLive {
				if count[tok] != 1 {
					res = fail("live-delivery", fmt.Sprintf("round %d: %q was received %d times while connected (received %v)", round, tok, count[tok], evs))
					return
				}
			}
			lastOffset, olderOffset := "", ""
			lastIdx := -1 // index into log of the last logged event the peer has seen
			for _, g := range evs {
				if g.offset != "" {
					olderOffset, lastOffset = lastOffset, g.offset
				}
			}
			offsetTok := map[string]string{}
			for _, g := range evs {
				if g.offset != "" {
					offsetTok[g.offset] = g.tok
				}
			}
			// ---- lose the connection
			recoverable := true
			slowArmed.Store(true)
			lossAt := time.Now()
			switch c.How {
			case "cut":
				r.Net.SetRefuse(true) // long-polling would simply dial again
				r.Net.CutAll()
			case "blackhole":
				r.Net.BlackholeAll(true, true)
			case "server-close-conn":
				ss.Disconnect(true) // forced close of the connection: recoverable per the reason table? (server namespace disconnect is not)
				recoverable = false
			case "client-disconnect":
				peer.send("1")
				recoverable = false
			case "server-disconnect":
				ss.Disconnect(false)
				recoverable = false
			}
			connected = false
			// broadcasts right after the loss: the server may not have noticed yet; they are logged either way
			early := make([]c08eOp, c.EarlyAway)
			for i := range early {
				early[i] = c08eOp{Op: "bc-nsp"}
			}
			run(early, fmt.Sprintf("early%d", round))
			// the server notices: at once for a cut or a DISCONNECT, after the ping timeout (2 s) plus the WebSocket library's close wait (5 s) for a black hole
			nd := 0
			for i := 0; i < 10 && nd != round+1; i++ {
				settle(time.Second)
				mu.Lock()
				nd = len(disconnects)
				mu.Unlock()
			}
			if nd != round+1 {
				res = fail("rig-connect", fmt.Sprintf("round %d: the server reported %d disconnects after the loss (%s)", round, nd, c.How))
				return
			}
			if c.How == "client-disconnect" || c.How == "server-disconnect" {
				peer.cli.Close() // the namespace was left; the old connection itself is still open
			}
			run(c.Away, fmt.Sprintf("away%d", round))
			awayFor := time.Since(lossAt)
			if c.How == "blackhole" {
				r.Net.SetOnDial(nil) // links dialed from now on work again
				r.Net.CutAll()
			}
			r.Net.SetRefuse(false)
			// ---- come back
			peer2, tr2, err := dialRawSIO(r, c.Transport)
			trs = append(trs, tr2)
			if err != nil {
				res = fail("rig-connect", "raw re-dial: "+err.Error())
				return
			}
			usePid, useOffset := pid, lastOffset
			switch c.Pid {
			case "unknown":
				usePid = "nosuchprivatesessionid0"
			case "none":
				usePid = ""
			}
			switch c.Offset {
			case "older":
				if olderOffset != "" {
					useOffset = olderOffset
				}
			case "unknown":
				useOffset = "zzzzzzz"
			case "empty":
				useOffset = ""
			}
			for i, e := range log {
				if e.logged && offsetTok[useOffset] == e.tok {
					lastIdx = i
				}
			}
			mu.Lock()
			mwBefore := mwRuns
			mu.Unlock()
			if usePid == "" {
				peer2.send("0")
			} else {
				auth, _ := json.Marshal(map[string]string{"pid": usePid, "offset": useOffset})
				peer2.send("0" + string(auth))
			}
			connected = true
			settle(time.Second)
			ps := peer2.snapshot()
			evs2, connects, order := received(ps)
			if peer2.decErr != "" {
				res = fail("replay-well-formed", "the reference decoder rejected what the server sent after the reconnect: "+peer2.decErr)
				return
			}
			if len(connects) != 1 {
				res = fail("reconnect-answered", fmt.Sprintf("round %d: %d CONNECT answers after reconnecting with pid=%q offset=%q (closed %q, received %v)", round, len(connects), usePid, useOffset, peer2.closed, order))
				return
			}
			newSid, newPid := connects[0].Payload.Obj["sid"].Str, connects[0].Payload.Obj["pid"].Str
			// ---- what must have happened
			// The session is persisted when the server notices the loss (at most 10 s after it), and the log cleaner (every minute) drops
			// packets older than the window - including the one the offset names, which is older than the session. So: certainly
			// recoverable while even that packet is younger than the window, certainly expired once the session itself must be older;
			// in between either outcome is a clean one.
			eligible := recoverable && c.Pid == "own" && useOffset != "" && offsetTok[useOffset] != "" && lastIdx >= 0
			offsetAge := time.Duration(0)
			if lastIdx >= 0 {
				offsetAge = time.Since(log[lastIdx].at)
			}
			shouldRecover := eligible && offsetAge < window-100*time.Millisecond
			edge := eligible && !shouldRecover && awayFor <= window+10*time.Second+100*time.Millisecond
			recovered := newSid == sid
			mu.Lock()
			cur := conns[len(conns)-1]
			nconns := len(conns)
			mwAfter := mwRuns
			mu.Unlock()
			if nconns != round+2 {
				res = fail("reconnect-answered", fmt.Sprintf("round %d: %d connection handlers ran in total", round, nconns))
				return
			}
			if recovered != shouldRecover && !edge {
				res = fail("recovers-iff-eligible", fmt.Sprintf("round %d: reconnect with pid %s offset %s (%q, token %q) after %v away (window %v, loss by %s): recovered=%v, expected %v",
					round, c.Pid, c.Offset, useOffset, offsetTok[useOffset], awayFor, window, c.How, recovered, shouldRecover))
				return
			}
			if recovered {
				if newPid != pid || !cur.Recovered() || cur.ID() != sio.SocketID(sid) {
					res = fail("same-session", fmt.Sprintf("recovered: CONNECT answer pid %q (was %q), server socket Recovered()=%v id %q (was %q)", newPid, pid, cur.Recovered(), cur.ID(), sid))
					return
				}
				// rooms restored
				rooms, _ := nsp.Adapter().SocketRooms(sio.SocketID(sid))
				for rm := range member {
					if rooms == nil || !rooms.Contains(rm) {
						res = fail("rooms-restored", fmt.Sprintf("recovered session is not in room %q again (rooms %v, wanted %v)", rm, rooms, member))
						return
					}
				}
				if rooms != nil && rooms.Cardinality() != len(member) {
					res = fail("rooms-restored", fmt.Sprintf("recovered session is in rooms %v, it was in %v", rooms, member))
					return
				}
				// exactly the missed packets, in order, before the CONNECT answer
				var want []string
				for _, e := range log[lastIdx+1:] {
					if e.logged && e.addresses(member) {
						want = append(want, e.tok)
					}
				}
				var gotToks []string
				for _, g := range evs2 {
					gotToks = append(gotToks, g.tok)
				}
				if fmt.Sprint(gotToks) != fmt.Sprint(want) {
					res = fail("exact-missed-packets", fmt.Sprintf("round %d: recovered from offset of %q: replayed %v, the log says %v were missed (UseMiddlewares=%v)", round, offsetTok[useOffset], gotToks, want, c.UseMiddlewares))
					return
				}
				if len(order) > 0 && order[len(order)-1] != "CONNECT" && len(want) > 0 {
					// the replay precedes the CONNECT answer in this implementation (as in the reference implementation); either
					// order is a clean recovery as long as nothing is lost - not asserted.
					_ = order
				}
				if c.UseMiddlewares != (mwAfter > mwBefore) {
					res = fail("middlewares-on-recovery", fmt.Sprintf("UseMiddlewares=%v but the namespace middleware ran %d times for the recovered socket", c.UseMiddlewares, mwAfter-mwBefore))
					return
				}
			} else {
				if len(evs2) != 0 {
					res = fail("clean-fallback", fmt.Sprintf("round %d: not recovered (new sid) but %d events were replayed: %v", round, len(evs2), evs2))
					return
				}
				if newSid == "" || newPid == "" || newPid == pid || cur.Recovered() {
					res = fail("clean-fallback", fmt.Sprintf("not recovered: CONNECT answer sid %q pid %q (old pid %q), Recovered()=%v", newSid, newPid, pid, cur.Recovered()))
					return
				}
				if mwAfter != mwBefore+1 {
					res = fail("clean-fallback", fmt.Sprintf("a fresh session must pass the namespace middleware once; it ran %d times", mwAfter-mwBefore))
					return
				}
				rooms, _ := nsp.Adapter().SocketRooms(sio.SocketID(newSid))
				if rooms == nil || rooms.Cardinality() != 1 || !rooms.Contains(sio.Room(newSid)) {
					res = fail("clean-fallback", fmt.Sprintf("a fresh session starts in its own room only; rooms %v", rooms))
					return
				}
				if old, ok := nsp.Adapter().SocketRooms(sio.SocketID(sid)); ok && old.Cardinality() > 0 && c.SlowDisconnectingMs == 0 { // (a socket keeps its rooms while its disconnecting handlers run)
					res = fail("clean-fallback", fmt.Sprintf("the old session id still has rooms %v", old))
					return
				}
				sid, pid = newSid, newPid
				member = map[sio.Room]bool{sio.Room(sid): true}
			}
			// ---- afterwards everything flows once
			expectLive = map[string]bool{}
			peer, ss = peer2, cur
			run(c.After, fmt.Sprintf("after%d", round))
			settle(500 * time.Millisecond)
			evs3, _, _ := received(peer.snapshot())
			count = map[string]int{}
			for _, g := range evs3 {
				count[g.tok]++
			}
			for tok := range expectLive {
				if count[tok] != 1 {
					res = fail("live-delivery", fmt.Sprintf("round %d, after the reconnect: %q was received %d times (received %v)", round, tok, count[tok], evs3))
					return
				}
			}
			for tok, n := range count {
				if n > 1 {
					res = fail("exactly-once", fmt.Sprintf("round %d: %q reached the peer %d times on the new connection", round, tok, n))
					return
				}
			}
			nontrivial = nontrivial || (recovered && len(evs2) >= 2)
			if c.SlowDisconnectingMs > 0 && res == nil {
				// the old socket's disconnecting handler returns only now: what it cleans up must be its own, not the recovered session's
				settle(time.Duration(c.SlowDisconnectingMs)*time.Millisecond + 11*time.Second)
				if recovered {
					rooms, _ := nsp.Adapter().SocketRooms(sio.SocketID(sid))
					for rm := range member {
						if rooms == nil || !rooms.Contains(rm) {
							res = fail("rooms-restored", fmt.Sprintf("the recovered session lost room %q once the previous socket's disconnecting handler (%d ms) had returned (rooms %v, wanted %v)", rm, c.SlowDisconnectingMs, rooms, member))
							return
						}
					}
					listed := false
					for _, so := range nsp.Sockets() {
						listed = listed || so.ID() == sio.SocketID(sid)
					}
					if !listed {
						res = fail("rooms-restored", fmt.Sprintf("the recovered session is no longer listed in its namespace once the previous socket's disconnecting handler (%d ms) had returned", c.SlowDisconnectingMs))
						return
					}
				}
				expectLive = map[string]bool{}
				run([]c08eOp{{Op: "bc-nsp"}, {Op: "direct"}}, fmt.Sprintf("late%d", round))
				settle(500 * time.Millisecond)
				evs4, _, _ := received(peer.snapshot())
				cnt := map[string]int{}
				for _, g := range evs4 {
					cnt[g.tok]++
				}
				for tok := range expectLive {
					if cnt[tok] != 1 {
						res = fail("live-delivery", fmt.Sprintf("round %d, after the previous socket's slow disconnecting handler returned: %q was received %d times", round, tok, cnt[tok]))
						return
					}
				}
			}
		}
		peer.cli.Close()
	})
	if res == nil && msg != "" && !isBubbleDeadlock(msg) {
		res = fail("bubble-panic", "synctest: "+msg)
	}
	if strings.Contains(class, "unknown") || strings.Contains(class, "empty") || c.How == "client-disconnect" || c.How == "server-disconnect" {
		nontrivial = nontrivial || len(c.Away) > 0
	}
	return res, nontrivial
}

func genC08eOps(t *rapid.T, label string, max int, membership bool) []c08eOp {
	kinds := []string{"bc-nsp", "bc-room", "bc-room", "bc-except", "direct"}
	if membership {
		kinds = append(kinds, "join", "leave")
	}
	var ops []c08eOp
	for i, n := 0, rapid.IntRange(0, max).Draw(t, label); i < n; i++ {
		ops = append(ops, c08eOp{Op: rapid.SampledFrom(kinds).Draw(t, "op"), Room: rapid.IntRange(0, 2).Draw(t, "room"), Binary: rapid.IntRange(0, 3).Draw(t, "binary") == 0})
	}
	return ops
}

func genC08eCase(t *rapid.T) c08eCase {
	c := c08eCase{Transport: rapid.SampledFrom([]string{"polling", "websocket"}).Draw(t, "transport"), WindowMs: rapid.SampledFrom([]int{10000, 120000}).Draw(t, "window"),
		How:    rapid.SampledFrom([]string{"cut", "cut", "blackhole", "server-close-conn", "client-disconnect", "server-disconnect"}).Draw(t, "how"),
		Offset: rapid.SampledFrom([]string{"last", "last", "last", "older", "unknown", "empty"}).Draw(t, "offset"), Pid: rapid.SampledFrom([]string{"own", "own", "own", "unknown", "none"}).Draw(t, "pid"),
		SlowDisconnectingMs: rapid.SampledFrom([]int{0, 0, 0, 3000, 9000}).Draw(t, "slowDisconnecting"), UseMiddlewares: rapid.Bool().Draw(t, "useMiddlewares"), CleanerMs: rapid.SampledFrom([]int{0, 1000, 2500}).Draw(t, "cleaner"), EarlyAway: rapid.IntRange(0, 2).Draw(t, "early"), Twice: rapid.IntRange(0, 3).Draw(t, "twice") == 0}
	for i, n := 0, rapid.IntRange(0, 3).Draw(t, "rooms"); i < n; i++ {
		c.Rooms = append(c.Rooms, rapid.IntRange(0, 2).Draw(t, "r"))
	}
	if c.How != "cut" && c.How != "blackhole" {
		// the other ways to end it reach the socket's close twice (the server's own call, then the connection closing under it): the second caller waits
		// for the close-once guard that the first one holds across the slow handler, and virtual time cannot pass while it waits (DESIGN.md §2.2)
		c.SlowDisconnectingMs = 0
	}
	c.Online = append([]c08eOp{{Op: "bc-nsp"}}, genC08eOps(t, "online", 6, true)...) // at least one broadcast received: the peer has an offset
	c.Away = genC08eOps(t, "away", 8, false)
	if rapid.IntRange(0, 3).Draw(t, "long") == 0 {
		// stay away for about the length of the window, or clearly longer
		c.Away = append(c.Away, c08eOp{Op: "wait", WaitMs: rapid.SampledFrom([]int{c.WindowMs - 6000, c.WindowMs - 5000, c.WindowMs - 3000, c.WindowMs - 1000, c.WindowMs, c.WindowMs + 5000, 2 * c.WindowMs}).Draw(t, "wait")})
		if c.Away[len(c.Away)-1].WaitMs < 0 {
			c.Away[len(c.Away)-1].WaitMs = 0
		}
	}
	c.After = genC08eOps(t, "after", 4, true)
	return c
}

func TestC08_RecoveryE2E(t *testing.T) {
	setT(t)
	defer startWatchdog(t, 90*time.Second)()
	ev := NewEv(t, "C08", c08eCheck, "rapid on the virtual-time rig, real server with connection state recovery (window 10 s / 2 min, log cleaner every 1 s / 2.5 s / 1 min, UseMiddlewares on/off) against a hand-written Socket.IO client that tracks the offset "+
		"(last argument of every broadcast event) and reconnects with {pid, offset}: 0..3 rooms, 1..7 operations while connected (namespace / room / except broadcasts, text and binary, direct emits, join/leave "+
		"each followed by a namespace broadcast), loss by {cut, black-hole (ping timeout), forced close, client DISCONNECT, server Disconnect}, 0..2 broadcasts before the server can notice, 0..8 operations while away, "+
		"optionally staying away for about / beyond the window, reconnect with offset {last, older, unknown, empty} and pid {own, unknown, none}, 0..4 operations afterwards, optionally a second loss and recovery, optionally a disconnecting handler that takes 3 s / 9 s so that the client is back while it still runs; "+
		"oracle against a reference log: recovered iff eligible (recoverable reason, own pid, known offset, within the window; either outcome at the window's edge); recovered => same sid and pid, Recovered(), "+
		"rooms == rooms at the loss, replayed tokens == logged broadcasts after the offset addressed to those rooms, in order, each once, middleware runs iff UseMiddlewares; otherwise => fresh sid and pid, nothing "+
		"replayed, middleware once, own room only, old id gone; afterwards live events arrive exactly once; non-trivial = a recovery replaying >= 2 packets, or a refused recovery with traffic while away")
	rapidGuard(t, "C08", c08eCheck)
	runRapid(t, c08eCheck, tierN(6000, 60000), func(t *rapid.T) {
		c := genC08eCase(t)
		f, nt := evalC08e(c)
		ev.Case(c, nt, c.class())
		if nt {
			ev.Sample(c.class(), c)
		}
		if f != nil {
			FailRapid(t, *f)
		}
	})
}

func init() {
	registerReplay(c08eCheck, func(raw json.RawMessage) *Failure {
		f, _ := evalC08e(decodeCase[c08eCase](raw))
		return f
	})
}
