package harness

// C02 — per-emitter order is preserved and binary frames are never interleaved. DESIGN.md §3 C02.
// (a) wire level: the peer of the emitting sio endpoint is a raw Engine.IO endpoint built from the repository's eio package;
//     the sequence of Engine.IO message packets it sees is fed to the reference streaming decoder (contiguity) and the
//     sequence numbers of every emitting goroutine must increase one by one.
// (b) handler entry: sio <-> sio; handlers record (goroutine, seq) at entry.

import (
	"encoding/json"
	"fmt"
	"net/http"
	"strconv"
	"sync"
	"testing"
	"time"

	sio "github.com/karagenc/socket.io-go"
	eio "github.com/karagenc/socket.io-go/engine.io"
	"github.com/karagenc/socket.io-go/engine.io/parser"
	"nhooyr.io/websocket"
	"pgregory.net/rapid"

	"verif/harness/memnet"
	"verif/harness/refcodec"
)

const (
	c02CheckWire    = "c02-wire-order"
	c02CheckHandler = "c02-handler-order"
)

type c02Case struct {
	Dir         string `json:"dir"`       // c2s | s2c
	Transport   string `json:"transport"` // polling | websocket | upgrade (after a completed upgrade)
	Emitters    int    `json:"emitters"`
	Burst       []int  `json:"burst"`       // burst length per emitter
	Attachments []int  `json:"attachments"` // attachments per event, per emitter (0..4)
	Hook        bool   `json:"hook"`        // yield at packetQueue.add before the signal
	History     string `json:"history"`     // how the connection came to be. s2c: "" (one CONNECT) | two-at-once | rejected-first; c2s: "" | across-connect (the emitters start before Connect and emit 40 x as much, in chunks, right through the flush of the offline buffer)
	AckLoad     int    `json:"ack_load"`    // the recording peer sends this many ack-carrying events meanwhile: the emitting side's ACK packets share the wire with its events
}

func (c c02Case) class() string { return c.Dir + "," + c.Transport }

type c02Frame struct {
	binary bool
	data   []byte
}

// evalC02Wire runs the emitting sio endpoint against a raw Engine.IO peer.
func evalC02Wire(c c02Case) (f *Failure, nontrivial bool) {
	class := c.class()
	fail := func(clause, detail string) *Failure {
		return &Failure{Property: "C02", Check: c02CheckWire, Clause: clause, Class: class, Detail: detail, Case: c}
	}
	journal(c02CheckWire, class, c)
	var res *Failure
	var mu sync.Mutex
	var frames []c02Frame
	record := func(ps ...*parser.Packet) {
		mu.Lock()
		for _, p := range ps {
			if p.Type == parser.PacketTypeMessage {
				frames = append(frames, c02Frame{p.IsBinary, append([]byte(nil), p.Data...)})
			}
		}
		mu.Unlock()
	}
	scale := 1
	if c.History == "across-connect" {
		scale = 40
	}
	emitAll := func(em func(g, seq int, bins []any)) {
		var wg sync.WaitGroup
		gate := make(chan struct{})
		for g := 0; g < c.Emitters; g++ {
			wg.Add(1)
			go func(g int) {
				defer wg.Done()
				<-gate
				for seq := 0; seq < c.Burst[g]*scale; seq++ {
					if scale > 1 && seq%25 == 24 {
						time.Sleep(20 * time.Microsecond) // virtual: lets the connection make progress while the emitter is in the middle of its stream
					}
					bins := make([]any, c.Attachments[g])
					for k := range bins {
						bins[k] = Bin(fmt.Sprintf("g%d-s%d-a%d", g, seq, k))
					}
					em(g, seq, bins)
					tick()
				}
			}(g)
		}
		close(gate)
		wg.Wait()
	}
	hooks := hookSet{}
	if c.Hook {
		n := 0
		hooks.point = func(site string) {
			if site == "packetQueue.add:before-signal" {
				n++
				if n%3 == 0 {
					time.Sleep(time.Nanosecond) // let every other emitter run before this one signals the sender
				}
			}
		}
	}
	body := func() {
		net := memnet.New()
		tr := &http.Transport{DialContext: net.Dial, MaxIdleConnsPerHost: 8}
		transports := c01Transports(c.Transport)
		upgraded := false
		if c.Dir == "c2s" {
			// raw Engine.IO server that answers the Socket.IO CONNECT by hand; sio Manager emits
			var srvSock eio.ServerSocket
			server := eio.NewServer(func(s eio.ServerSocket) *eio.Callbacks {
				srvSock = s
				return &eio.Callbacks{OnPacket: func(ps ...*parser.Packet) {
					for _, p := range ps {
						if p.Type == parser.PacketTypeMessage && !p.IsBinary && len(p.Data) > 0 && p.Data[0] == '0' {
							reply, _ := parser.NewPacket(parser.PacketTypeMessage, false, []byte(`0{"sid":"raw-peer"}`))
							go s.Send(reply)
							return
						}
					}
					record(ps...)
				}}
			}, nil)
			_ = server.Run()
			hs := &http.Server{Handler: server}
			go hs.Serve(net)
			m := sio.NewManager("http://x/socket.io", &sio.ManagerConfig{NoReconnection: true, EIO: eio.ClientConfig{Transports: transports, HTTPTransport: tr,
				UpgradeDone:          func(string) { upgraded = true },
				WebSocketDialOptions: &websocket.DialOptions{HTTPClient: &http.Client{Transport: tr}}}})
			s := m.Socket("/", nil)
			s.OnEvent("rt", func(ack func(int)) { ack(1) })
			ackLoad := func() {
				for i := 0; i < c.AckLoad; i++ {
					p, _ := parser.NewPacket(parser.PacketTypeMessage, false, []byte(fmt.Sprintf(`2%d["rt"]`, 5000+i)))
					srvSock.Send(p)
					if i%4 == 3 {
						time.Sleep(10 * time.Microsecond)
					}
				}
			}
			if c.History == "across-connect" {
				done := make(chan struct{})
				go func() {
					defer close(done)
					emitAll(func(g, seq int, bins []any) { s.Emit("e", append([]any{g, seq}, bins...)...) })
				}()
				time.Sleep(100 * time.Microsecond) // the first chunks are emitted offline
				s.Connect()
				<-done
				settle(0)
				settle(100 * time.Second)
				if !s.Connected() {
					res = fail("rig-connect", "emitter side did not connect")
				}
			} else {
				s.Connect()
				settle(0)
				settle(2 * time.Second) // upgrade (if any) completes
				if !s.Connected() || (c.Transport == "upgrade" && (!upgraded || srvSock.TransportName() != "websocket")) {
					res = fail("rig-connect", fmt.Sprintf("emitter side not ready (connected %v, upgraded %v)", s.Connected(), upgraded))
				} else {
					if c.AckLoad > 0 {
						go ackLoad()
					}
					emitAll(func(g, seq int, bins []any) { s.Emit("e", append([]any{g, seq}, bins...)...) })
					settle(0)
					settle(100 * time.Second)
				}
			}
			m.Close()
			server.Close()
			hs.Close()
		} else {
			// sio server emits; raw Engine.IO client joins "/" by hand and records
			server := sio.NewServer(nil)
			_ = server.Run()
			var ss sio.ServerSocket
			server.OnConnection(func(s sio.ServerSocket) { ss = s })
			server.Of("/n2").Use(func(sio.ServerSocket, *sio.Handshake) any { time.Sleep(20 * time.Millisecond); return nil })
			server.Of("/rej").Use(func(sio.ServerSocket, *sio.Handshake) any { return "no" })
			hs := &http.Server{Handler: server}
			go hs.Serve(net)
			cli, err := eio.Dial("http://x/socket.io", &eio.Callbacks{OnPacket: func(ps ...*parser.Packet) {
				var keep []*parser.Packet
				for _, p := range ps {
					if p.Type == parser.PacketTypeMessage && !p.IsBinary && len(p.Data) > 0 && (p.Data[0] == '0' || p.Data[0] == '4') {
						continue // a CONNECT reply / CONNECT_ERROR
					}
					keep = append(keep, p)
				}
				record(keep...)
			}}, &eio.ClientConfig{Transports: transports, HTTPTransport: tr, UpgradeDone: func(string) { upgraded = true },
				WebSocketDialOptions: &websocket.DialOptions{HTTPClient: &http.Client{Transport: tr}}})
			if err != nil {
				res = fail("rig-connect", "raw client dial: "+err.Error())
			} else {
				connect, _ := parser.NewPacket(parser.PacketTypeMessage, false, []byte("0"))
				switch c.History {
				case "two-at-once":
					other, _ := parser.NewPacket(parser.PacketTypeMessage, false, []byte("0/n2,"))
					cli.Send(other, connect)
				case "rejected-first":
					other, _ := parser.NewPacket(parser.PacketTypeMessage, false, []byte("0/rej,"))
					cli.Send(other)
					settle(50 * time.Millisecond)
					cli.Send(connect)
				default:
					cli.Send(connect)
				}
				settle(0)
				settle(2 * time.Second)
				if ss == nil || (c.Transport == "upgrade" && !upgraded) {
					res = fail("rig-connect", fmt.Sprintf("server side not ready (socket %v, upgraded %v)", ss != nil, upgraded))
				} else {
					if c.AckLoad > 0 {
						ss.OnEvent("rt", func(ack func(int)) { ack(1) })
						go func() {
							for i := 0; i < c.AckLoad; i++ {
								p, _ := parser.NewPacket(parser.PacketTypeMessage, false, []byte(fmt.Sprintf(`2%d["rt"]`, 5000+i)))
								cli.Send(p)
								if i%4 == 3 {
									time.Sleep(10 * time.Microsecond)
								}
							}
						}()
					}
					emitAll(func(g, seq int, bins []any) { ss.Emit("e", append([]any{g, seq}, bins...)...) })
					settle(0)
					settle(100 * time.Second)
				}
				cli.Close()
			}
			server.Close()
			hs.Close()
		}
		net.Close()
		net.CutAll()
		tr.CloseIdleConnections()
		time.Sleep(10 * time.Minute)
		net.CutAll()
		time.Sleep(time.Minute)
	}
	var msg string
	withHooks(hooks, func() { msg = inBubble(curT, body) })
	if res != nil {
		return res, false
	}
	if msg != "" && !isBubbleDeadlock(msg) {
		return fail("bubble-panic", "synctest: "+msg), false
	}
	// ---- oracle on the recorded wire sequence
	mu.Lock()
	defer mu.Unlock()
	dec := &refcodec.StreamDecoder{}
	next := make([]int, c.Emitters)
	multiFrameInterleavedInTime := false
	lastG := -1
	for i, fr := range frames {
		pkt, err := dec.Add(fr.data, fr.binary)
		if err != nil {
			return fail("contiguous-frames", fmt.Sprintf("wire frame %d of %d: %v", i, len(frames), err)), nontrivial
		}
		if pkt == nil {
			continue
		}
		if pkt.Header.Type != 2 && pkt.Header.Type != 5 {
			continue
		}
		if pkt.Payload == nil || len(pkt.Payload.Arr) < 3 || pkt.Payload.Arr[0].Str != "e" {
			return fail("intact", fmt.Sprintf("unexpected event on the wire: %v", pkt.Payload)), nontrivial
		}
		g, _ := strconv.Atoi(pkt.Payload.Arr[1].Num)
		seq, _ := strconv.Atoi(pkt.Payload.Arr[2].Num)
		if g < 0 || g >= c.Emitters {
			return fail("intact", fmt.Sprintf("event of unknown emitter %d", g)), nontrivial
		}
		if seq != next[g] {
			return fail("per-emitter-order", fmt.Sprintf("emitter %d: event %d arrived on the wire where %d was due (frame %d)", g, seq, next[g], i)), nontrivial
		}
		next[g]++
		for k, a := range pkt.Payload.Arr[3:] {
			if want := fmt.Sprintf("g%d-s%d-a%d", g, seq, k); a.Kind != "bin" || string(a.Bin) != want {
				return fail("attachments-in-place", fmt.Sprintf("emitter %d event %d attachment %d is %v, want %q", g, seq, k, a, want)), nontrivial
			}
		}
		if len(pkt.Payload.Arr) > 3 && lastG >= 0 && lastG != g {
			multiFrameInterleavedInTime = true
		}
		lastG = g
	}
	for g := range next {
		if next[g] != c.Burst[g]*scale {
			return fail("nothing-lost", fmt.Sprintf("emitter %d: %d of %d events reached the wire", g, next[g], c.Burst[g]*scale)), nontrivial
		}
	}
	return nil, c.Emitters >= 2 && multiFrameInterleavedInTime
}

func genC02Case(t *rapid.T) c02Case {
	c := c02Case{Dir: rapid.SampledFrom([]string{"c2s", "s2c"}).Draw(t, "dir"), Transport: rapid.SampledFrom([]string{"polling", "websocket", "upgrade"}).Draw(t, "transport"),
		Emitters: rapid.SampledFrom([]int{1, 2, 2, 3, 4, 8, 16}).Draw(t, "emitters"), Hook: rapid.Bool().Draw(t, "hook")}
	if c.Dir == "s2c" {
		c.History = rapid.SampledFrom([]string{"", "", "two-at-once", "rejected-first"}).Draw(t, "history")
	} else if c.Transport != "upgrade" && rapid.IntRange(0, 5).Draw(t, "acrossConnect") == 0 {
		c.History = "across-connect"
		c.Emitters = min(c.Emitters, 3)
	}
	if c.History != "across-connect" && rapid.IntRange(0, 2).Draw(t, "ackLoad") == 0 {
		c.AckLoad = rapid.SampledFrom([]int{8, 40, 200}).Draw(t, "acks")
	}
	for g := 0; g < c.Emitters; g++ {
		c.Burst = append(c.Burst, rapid.IntRange(1, 50/max(1, c.Emitters/4)).Draw(t, "burst"))
		c.Attachments = append(c.Attachments, rapid.IntRange(0, 4).Draw(t, "att"))
	}
	return c
}

func TestC02_WireOrder(t *testing.T) {
	setT(t)
	defer startWatchdog(t, 90*time.Second)()
	ev := NewEv(t, "C02", c02CheckWire, "rapid on the virtual-time network: 1..16 emitting goroutines x bursts of 1..50 events x 0..4 attachments per event, both directions, transport {polling, websocket, "+
		"after a completed upgrade}, optional yield hook between queue append and sender signal, optionally 8..200 ack-carrying events from the recording peer meanwhile (the emitter's ACK packets share the "+
		"wire), optionally (client side) emitters that start before Connect and stream 40 x as much in chunks right through the flush of the offline buffer; the receiver is a raw Engine.IO endpoint (repo's eio package) whose message packets feed the reference "+
		"streaming decoder; oracle: frames of a packet contiguous, attachments in place, per emitter sequence numbers 0,1,2,.. in order, nothing lost; "+
		"non-trivial = >= 2 emitters and a multi-frame packet adjacent on the wire to another emitter's packet")
	rapidGuard(t, "C02", c02CheckWire)
	runRapid(t, c02CheckWire, tierN(8000, 80000), func(t *rapid.T) {
		c := genC02Case(t)
		f, nt := evalC02Wire(c)
		ev.Case(c, nt, c.class())
		if nt {
			ev.Sample(c.class(), c)
		}
		if f != nil {
			FailRapid(t, *f)
		}
	})
}

// ---- (b) handler entry order ---------------------------------------------------------------------------------------

func evalC02Handler(c c02Case) (f *Failure, inversions int) {
	class := c.class()
	fail := func(clause, detail string) *Failure {
		return &Failure{Property: "C02", Check: c02CheckHandler, Clause: clause, Class: class, Detail: detail, Case: c}
	}
	journal(c02CheckHandler, class, c)
	var res *Failure
	msg := runRig(rigOpts{}, func(r *rig) {
		var mu sync.Mutex
		var got [][2]int
		handler := func(g, seq int) {
			mu.Lock()
			got = append(got, [2]int{g, seq})
			mu.Unlock()
		}
		var ss sio.ServerSocket
		r.Server.OnConnection(func(s sio.ServerSocket) {
			s.OnEvent("e", handler)
			mu.Lock()
			ss = s
			mu.Unlock()
			s.Emit("ready")
		})
		m := r.manager(c01Transports(c.Transport), nil)
		cli := m.Socket("/", nil)
		ready := false
		cli.OnEvent("ready", func() { mu.Lock(); ready = true; mu.Unlock() })
		cli.OnEvent("e", handler)
		cli.Connect()
		settle(0)
		settle(2 * time.Second)
		mu.Lock()
		ok := ready && ss != nil
		srv := ss
		mu.Unlock()
		if !ok {
			res = fail("rig-connect", "client did not connect")
			return
		}
		var em sio.Socket = cli
		if c.Dir == "s2c" {
			em = srv
		}
		var wg sync.WaitGroup
		for g := 0; g < c.Emitters; g++ {
			wg.Add(1)
			go func(g int) {
				defer wg.Done()
				for seq := 0; seq < c.Burst[g]; seq++ {
					em.Emit("e", g, seq)
				}
			}(g)
		}
		wg.Wait()
		settle(0)
		settle(100 * time.Second)
		mu.Lock()
		defer mu.Unlock()
		next := make([]int, c.Emitters)
		for _, e := range got {
			if e[1] != next[e[0]] {
				inversions++
			}
			if e[1] >= next[e[0]] {
				next[e[0]] = e[1] + 1
			}
		}
		total := 0
		for _, b := range c.Burst {
			total += b
		}
		if len(got) != total {
			res = fail("nothing-lost", fmt.Sprintf("%d of %d events reached a handler", len(got), total))
			return
		}
		if inversions > 0 {
			res = fail("handler-entry-order", fmt.Sprintf("%d of %d events entered their handler out of the order in which their goroutine emitted them", inversions, total))
		}
	})
	if res == nil && msg != "" && !isBubbleDeadlock(msg) {
		res = fail("bubble-panic", "synctest: "+msg)
	}
	if res != nil && res.Clause == "handler-entry-order" {
		res.Class = "dispatch-goroutine-per-packet" // KF-C02-1: every transport and direction
	}
	return res, inversions
}

// KF-C02-1: each decoded packet is dispatched on its own goroutine, so handler entry order is not the emission order.
func c02KF1Active() bool {
	return kfActive("KF-C02-1", func() (bool, string) {
		for attempt := 0; attempt < 5; attempt++ {
			for _, tr := range []string{"polling", "websocket"} {
				f, _ := evalC02Handler(c02Case{Dir: "c2s", Transport: tr, Emitters: 1, Burst: []int{200}, Attachments: []int{0}})
				if f != nil && f.Clause == "handler-entry-order" {
					return true, f.Detail
				}
			}
		}
		return false, ""
	})
}

func TestC02_HandlerOrder(t *testing.T) {
	setT(t)
	defer startWatchdog(t, 90*time.Second)()
	ev := NewEv(t, "C02", c02CheckHandler, "sio <-> sio rig: handlers record (goroutine, seq) at entry; oracle: per goroutine in emission order, nothing lost. While known finding KF-C02-1 (dispatch goroutine per "+
		"packet) still reproduces, only its probe (one goroutine, 200 sequential emits, polling and websocket) and the nothing-lost clause are evaluated and the ordering search is counted as excluded; "+
		"non-trivial = >= 2 events from one goroutine")
	rapidGuard(t, "C02", c02CheckHandler)
	kf := c02KF1Active()
	runRapid(t, c02CheckHandler, tierN(200, 5000), func(t *rapid.T) {
		c := genC02Case(t)
		c.Hook = false
		f, _ := evalC02Handler(c)
		nt := false
		for _, b := range c.Burst {
			nt = nt || b >= 2
		}
		ev.Case(c, nt, c.class())
		if nt {
			ev.Sample(c.class(), c)
		}
		if f != nil && f.Clause == "handler-entry-order" && kf {
			ev.Excluded("KF-C02-1")
			return
		}
		if f != nil {
			FailRapid(t, *f)
		}
	})
}

func init() {
	registerReplay(c02CheckWire, func(raw json.RawMessage) *Failure {
		f, _ := evalC02Wire(decodeCase[c02Case](raw))
		return f
	})
	registerReplay(c02CheckHandler, func(raw json.RawMessage) *Failure {
		f, _ := evalC02Handler(decodeCase[c02Case](raw))
		return f
	})
}
