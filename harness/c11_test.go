package harness

// C11 — Engine.IO framing round-trips and matches protocol v4 in every transport's form. See DESIGN.md §3 C11.

import (
	"bytes"
	"encoding/json"
	"fmt"
	"io"
	"runtime"
	"testing"
	"testing/iotest"

	"github.com/karagenc/socket.io-go/engine.io/parser"
	"github.com/karagenc/socket.io-go/engine.io/transport/webtransport"
	"pgregory.net/rapid"

	"verif/harness/refcodec"
)

// ---- case types ------------------------------------------------------------------------------

type c11Pkt struct {
	Type   int    `json:"type"`
	Binary bool   `json:"binary"`
	Data   []byte `json:"data"`
}

func (p c11Pkt) ref() refcodec.EIOPacket {
	return refcodec.EIOPacket{Type: byte(p.Type), Binary: p.Binary, Data: p.Data}
}

func (p c11Pkt) real() *parser.Packet {
	return &parser.Packet{Type: parser.PacketType(p.Type), IsBinary: p.Binary, Data: p.Data}
}

func c11Same(p c11Pkt, got *parser.Packet) bool {
	return got != nil && int(got.Type) == p.Type && got.IsBinary == p.Binary && bytes.Equal(got.Data, p.Data)
}

func c11Desc(p *parser.Packet) string {
	if p == nil {
		return "<nil>"
	}
	d := p.Data
	if len(d) > 24 {
		return fmt.Sprintf("{type %d binary %v len %d %q…}", p.Type, p.IsBinary, len(d), d[:24])
	}
	return fmt.Sprintf("{type %d binary %v %q}", p.Type, p.IsBinary, d)
}

var c11Sizes = []int{0, 1, 2, 3, 4, 5, 124, 125, 126, 127, 128, 255, 256, 1000, 65534, 65535, 65536, 65537, 70000}

func genC11Data(t *rapid.T, label string, noSep bool) []byte {
	var n int
	if rapid.Bool().Draw(t, label+".boundary") {
		n = rapid.SampledFrom(c11Sizes).Draw(t, label+".size")
	} else {
		n = rapid.IntRange(0, 300).Draw(t, label+".len")
	}
	var b []byte
	if n <= 300 {
		b = rapid.SliceOfN(rapid.Byte(), n, n).Draw(t, label+".bytes")
	} else {
		// Large data: a drawn pattern repeated (keeps generation and shrinking cheap).
		pat := rapid.SliceOfN(rapid.Byte(), 1, 7).Draw(t, label+".pattern")
		b = bytes.Repeat(pat, n/len(pat)+1)[:n]
	}
	if noSep {
		for i := range b {
			if b[i] == 0x1e {
				b[i] = 0x1f
			}
		}
	}
	return b
}

func genC11Pkt(t *rapid.T, label string, noSepInText bool) c11Pkt {
	typ := rapid.IntRange(0, 6).Draw(t, label+".type")
	if rapid.IntRange(0, 2).Draw(t, label+".msgbias") > 0 {
		typ = 4
	}
	bin := typ == 4 && rapid.Bool().Draw(t, label+".binary")
	return c11Pkt{Type: typ, Binary: bin, Data: genC11Data(t, label, noSepInText && !bin)}
}

// ---- single packets ---------------------------------------------------------------------------

type c11SingleCase struct {
	P              c11Pkt `json:"packet"`
	SupportsBinary bool   `json:"supports_binary"`
}

const c11CheckSingle = "c11-single"

func evalC11Single(c c11SingleCase) *Failure {
	fail := func(clause, detail string) *Failure {
		class := "text"
		if c.P.Binary {
			class = "binary-raw"
			if !c.SupportsBinary {
				class = "binary-base64"
			}
		}
		return &Failure{Property: "C11", Check: c11CheckSingle, Clause: clause, Class: class, Detail: detail, Case: c}
	}
	var buf bytes.Buffer
	var err error
	if msg, _ := catchPanic(func() { err = c.P.real().Encode(&buf, c.SupportsBinary) }); msg != "" {
		return fail("no-panic", "Encode panicked: "+msg)
	}
	if err != nil {
		return fail("encode-ok", "Encode returned "+err.Error())
	}
	want := refcodec.EncodeEIO(c.P.ref(), c.SupportsBinary)
	if !bytes.Equal(buf.Bytes(), want) {
		return fail("conformance", fmt.Sprintf("encoded bytes differ from Engine.IO v4: got %d bytes %q…, want %d bytes %q…",
			buf.Len(), trunc(buf.Bytes(), 32), len(want), trunc(want, 32)))
	}
	if l := c.P.real().EncodedLen(c.SupportsBinary); l != buf.Len() {
		return fail("encoded-len", fmt.Sprintf("EncodedLen=%d but %d bytes were written", l, buf.Len()))
	}
	var got *parser.Packet
	binaryFrame := c.P.Binary && c.SupportsBinary
	if msg, _ := catchPanic(func() { got, err = parser.Decode(bytes.NewReader(buf.Bytes()), binaryFrame) }); msg != "" {
		return fail("no-panic", "Decode panicked: "+msg)
	}
	if err != nil {
		return fail("round-trip", "Decode(Encode(p)) failed: "+err.Error())
	}
	if !c11Same(c.P, got) {
		return fail("round-trip", "Decode(Encode(p)) = "+c11Desc(got)+", want "+c11Desc(c.P.real()))
	}
	return nil
}

func TestC11_Single(t *testing.T) {
	ev := NewEv(t, "C11", c11CheckSingle, "rapid: packet type x binary/text x data (boundary-biased lengths 0..70000) x supportsBinary; "+
		"non-trivial = base64 mode or length needing the 16/64-bit WebTransport form (>=126)")
	rapidGuard(t, "C11", c11CheckSingle)
	runRapid(t, c11CheckSingle, tierN(20000, 1000000), func(t *rapid.T) {
		c := c11SingleCase{P: genC11Pkt(t, "p", false), SupportsBinary: rapid.Bool().Draw(t, "supportsBinary")}
		nt := (c.P.Binary && !c.SupportsBinary) || len(c.P.Data) >= 126
		cls := "text"
		if c.P.Binary {
			cls = "binary"
		}
		ev.Case(c, nt, cls)
		if nt {
			ev.Sample(cls+fmt.Sprint(c.SupportsBinary), sampleOf(c))
		}
		if f := evalC11Single(c); f != nil {
			FailRapid(t, *f)
		}
	})
}

// ---- payloads ---------------------------------------------------------------------------------

type c11PayloadCase struct {
	Ps []c11Pkt `json:"packets"`
}

const c11CheckPayload = "c11-payload"

func evalC11Payload(c c11PayloadCase) *Failure {
	hasBin := false
	for _, p := range c.Ps {
		hasBin = hasBin || p.Binary
	}
	class := fmt.Sprintf("n=%d", len(c.Ps))
	if len(c.Ps) > 2 {
		class = "n>=3"
	}
	if hasBin {
		class += ",binary"
	}
	fail := func(clause, detail string) *Failure {
		return &Failure{Property: "C11", Check: c11CheckPayload, Clause: clause, Class: class, Detail: detail, Case: c}
	}
	real := make([]*parser.Packet, len(c.Ps))
	ref := make([]refcodec.EIOPacket, len(c.Ps))
	for i, p := range c.Ps {
		real[i], ref[i] = p.real(), p.ref()
	}
	var buf bytes.Buffer
	var err error
	if msg, _ := catchPanic(func() { err = parser.EncodePayloads(&buf, real...) }); msg != "" {
		return fail("no-panic", "EncodePayloads panicked: "+msg)
	}
	if err != nil {
		return fail("encode-ok", "EncodePayloads returned "+err.Error())
	}
	var l int
	if msg, _ := catchPanic(func() { l = parser.EncodedPayloadsLen(real...) }); msg != "" {
		return fail("no-panic", "EncodedPayloadsLen panicked: "+msg)
	}
	if l != buf.Len() {
		return fail("encoded-len", fmt.Sprintf("EncodedPayloadsLen=%d but %d bytes were written", l, buf.Len()))
	}
	want := refcodec.EncodeEIOPayload(ref)
	if !bytes.Equal(buf.Bytes(), want) {
		return fail("conformance", fmt.Sprintf("payload bytes differ from Engine.IO v4: got %q…, want %q…", trunc(buf.Bytes(), 48), trunc(want, 48)))
	}
	if len(c.Ps) == 0 {
		return nil // nothing to decode: a payload has at least one packet
	}
	var got []*parser.Packet
	if msg, _ := catchPanic(func() { got, err = parser.DecodePayloads(bytes.NewReader(buf.Bytes())) }); msg != "" {
		return fail("no-panic", "DecodePayloads panicked: "+msg)
	}
	if err != nil {
		return fail("round-trip", "DecodePayloads(EncodePayloads(ps)) failed: "+err.Error())
	}
	if len(got) != len(c.Ps) {
		return fail("round-trip", fmt.Sprintf("decoded %d packets, encoded %d", len(got), len(c.Ps)))
	}
	for i := range got {
		if !c11Same(c.Ps[i], got[i]) {
			return fail("round-trip", fmt.Sprintf("packet %d: got %s want %s", i, c11Desc(got[i]), c11Desc(real[i])))
		}
	}
	return nil
}

func TestC11_Payload(t *testing.T) {
	ev := NewEv(t, "C11", c11CheckPayload, "rapid: payloads of 0..8 packets (text data free of 0x1e, binary data arbitrary); "+
		"non-trivial = >=3 packets with >=1 binary one")
	rapidGuard(t, "C11", c11CheckPayload)
	runRapid(t, c11CheckPayload, tierN(10000, 500000), func(t *rapid.T) {
		n := rapid.IntRange(0, 8).Draw(t, "n")
		c := c11PayloadCase{Ps: make([]c11Pkt, n)}
		hasBin := false
		for i := range c.Ps {
			c.Ps[i] = genC11Pkt(t, fmt.Sprintf("p%d", i), true)
			hasBin = hasBin || c.Ps[i].Binary
		}
		nt := n >= 3 && hasBin
		ev.Case(c, nt, fmt.Sprintf("packets=%d", n))
		if nt {
			ev.Sample(fmt.Sprint(n), sampleOf(c))
		}
		if f := evalC11Payload(c); f != nil {
			FailRapid(t, *f)
		}
	})
}

// ---- WebTransport frames: every length 0..70000 -------------------------------------------------

type c11WTCase struct {
	Len    int  `json:"len"` // length of the packet data
	Binary bool `json:"binary"`
	Fill   byte `json:"fill"`
	// A second frame follows on the same stream, to check that exactly one frame was consumed.
	NextLen int `json:"next_len"`
}

const c11CheckWT = "c11-wt-frame"

func c11WTClass(encodedLen int) string {
	switch {
	case encodedLen < 126:
		return "len7"
	case encodedLen < 65536:
		return "len16"
	default:
		return "len64"
	}
}

func evalC11WT(c c11WTCase) *Failure {
	data := bytes.Repeat([]byte{c.Fill}, c.Len)
	for i := 0; i < len(data); i += 251 {
		data[i] = byte(i / 251)
	}
	p := c11Pkt{Type: 4, Binary: c.Binary, Data: data}
	next := c11Pkt{Type: 4, Binary: !c.Binary, Data: bytes.Repeat([]byte{'n'}, c.NextLen)}
	encLen := c.Len
	if !c.Binary {
		encLen++
	}
	fail := func(clause, detail string) *Failure {
		return &Failure{Property: "C11", Check: c11CheckWT, Clause: clause, Class: c11WTClass(encLen), Detail: detail, Case: c}
	}
	var buf bytes.Buffer
	var err error
	if msg, _ := catchPanic(func() { err = webtransport.VerifSend(&buf, p.real()) }); msg != "" {
		return fail("no-panic", "send panicked: "+msg)
	}
	if err != nil {
		return fail("encode-ok", "send returned "+err.Error())
	}
	want := refcodec.EncodeWTFrame(p.ref())
	if !bytes.Equal(buf.Bytes(), want) {
		return fail("conformance", fmt.Sprintf("frame bytes differ from the Engine.IO v4 WebTransport framing: got header %x (total %d), want %x (total %d)",
			trunc(buf.Bytes(), 9), buf.Len(), trunc(want, 9), len(want)))
	}
	if msg, _ := catchPanic(func() { err = webtransport.VerifSend(&buf, next.real()) }); msg != "" || err != nil {
		return fail("encode-ok", fmt.Sprintf("send of the following frame failed: %v %s", err, msg))
	}
	r := bytes.NewReader(buf.Bytes())
	var got *parser.Packet
	if msg, _ := catchPanic(func() { got, err = webtransport.VerifNextPacket(r) }); msg != "" {
		return fail("no-panic", "nextPacket panicked: "+msg)
	}
	if err != nil {
		return fail("round-trip", "nextPacket(send(p)) failed: "+err.Error())
	}
	if !c11Same(p, got) {
		return fail("round-trip", "nextPacket(send(p)) = "+c11Desc(got)+", want "+c11Desc(p.real()))
	}
	if msg, _ := catchPanic(func() { got, err = webtransport.VerifNextPacket(r) }); msg != "" {
		return fail("no-panic", "nextPacket (2nd frame) panicked: "+msg)
	}
	if err != nil || !c11Same(next, got) {
		return fail("stream-position", fmt.Sprintf("the frame after it was not read back (stream desynchronised): got %s err %v, want %s",
			c11Desc(got), err, c11Desc(next.real())))
	}
	if r.Len() != 0 {
		return fail("stream-position", fmt.Sprintf("%d bytes left after reading both frames", r.Len()))
	}
	// the same stream through the server's limited reader, from sources that hand out data the way network streams do: the last bytes
	// together with io.EOF, one byte at a time, half of what is asked for
	for _, src := range []struct {
		name string
		mk   func(io.Reader) io.Reader
	}{{"data-with-EOF", iotest.DataErrReader}, {"one-byte", iotest.OneByteReader}, {"half", iotest.HalfReader}} {
		if c.Len > 4096 && src.name == "one-byte" && c.Len%97 != 0 {
			continue // (one byte at a time is slow for long frames: every 97th length)
		}
		lr := webtransport.VerifNewLimitedReader(src.mk(bytes.NewReader(buf.Bytes())), 0)
		for k, wantP := range []c11Pkt{p, next} {
			var got *parser.Packet
			var err error
			if msg, _ := catchPanic(func() { got, err = webtransport.VerifNextPacket(lr) }); msg != "" {
				return fail("no-panic", fmt.Sprintf("nextPacket over a %s source panicked: %s", src.name, msg))
			}
			if err != nil || !c11Same(wantP, got) {
				return fail("round-trip", fmt.Sprintf("frame %d of 2 read through the limited reader from a %s source: got %s err %v, want %s", k+1, src.name, c11Desc(got), err, c11Desc(wantP.real())))
			}
		}
	}
	// a send that fails part of the way (the peer is gone) must not leave anything behind that a later send - on any stream - emits
	fw := &c11FailingWriter{okBytes: (c.Len*7 + 3) % (len(want) + 1)}
	var ferr error
	if msg, _ := catchPanic(func() { ferr = webtransport.VerifSend(fw, p.real()) }); msg != "" {
		return fail("no-panic", "send to a failing writer panicked: "+msg)
	}
	if ferr == nil && fw.okBytes < len(want) {
		return fail("encode-ok", fmt.Sprintf("send reported success although the writer failed after %d of %d bytes", fw.okBytes, len(want)))
	}
	var after bytes.Buffer
	if msg, _ := catchPanic(func() { err = webtransport.VerifSend(&after, next.real()) }); msg != "" || err != nil {
		return fail("encode-ok", fmt.Sprintf("send after a failed send: %v %s", err, msg))
	}
	if wantNext := refcodec.EncodeWTFrame(next.ref()); !bytes.Equal(after.Bytes(), wantNext) {
		return fail("conformance", fmt.Sprintf("the send that followed a failed send (writer failed after %d bytes) wrote %d bytes starting %x, want the %d bytes of its own frame starting %x",
			fw.okBytes, after.Len(), trunc(after.Bytes(), 12), len(wantNext), trunc(wantNext, 12)))
	}
	return nil
}

// c11FailingWriter accepts okBytes bytes and then fails, like a stream whose peer has gone away.
type c11FailingWriter struct {
	okBytes int
	n       int
}

func (w *c11FailingWriter) Write(p []byte) (int, error) {
	if w.n+len(p) <= w.okBytes {
		w.n += len(p)
		return len(p), nil
	}
	k := w.okBytes - w.n
	w.n = w.okBytes
	return k, io.ErrClosedPipe
}

func TestC11_WTFramesExhaustive(t *testing.T) {
	ev := NewEv(t, "C11", c11CheckWT, "exhaustive: every data length 0..70000 x {text,binary}, each followed by a second frame on the same stream, read back directly and through the limited reader from sources that return the "+
		"last bytes together with io.EOF / one byte at a time / half of what is asked; plus a send to a writer that fails part of the way followed by a send elsewhere (nothing of the failed one may leak into it); "+
		"non-trivial = encoded length in the 16- or 64-bit form")
	ev.Exhaustive()
	const maxLen = 70000
	reported := map[string]bool{}
	i := 0
	for n := 0; n <= maxLen; n++ {
		for _, bin := range []bool{false, true} {
			i++
			if !mine(i) {
				continue
			}
			c := c11WTCase{Len: n, Binary: bin, Fill: byte('a' + n%26), NextLen: n % 7}
			encLen := n
			if !bin {
				encLen++
			}
			cls := c11WTClass(encLen)
			ev.Case(c, encLen >= 126, cls)
			if n == 125 || n == 65535 || n == 70000 {
				ev.Sample(fmt.Sprint(n, bin), c)
			}
			if f := evalC11WT(c); f != nil {
				// Report the smallest failing length per (clause, class) only; the enumeration continues.
				if !reported[f.Sig()] {
					reported[f.Sig()] = true
					Report(t, *f)
				}
			}
		}
	}
}

// ---- arbitrary bytes into the decoders ---------------------------------------------------------

type c11ArbCase struct {
	Target string `json:"target"` // decode-text | decode-binary | payloads | wt | handshake
	Bytes  []byte `json:"bytes"`
}

const c11CheckArb = "c11-arbitrary-bytes"

func evalC11Arb(c c11ArbCase) (f *Failure, accepted bool) {
	fail := func(clause, detail string) *Failure {
		return &Failure{Property: "C11", Check: c11CheckArb, Clause: clause, Class: c.Target, Detail: detail, Case: c}
	}
	switch c.Target {
	case "decode-text", "decode-binary":
		var p *parser.Packet
		var err error
		bin := c.Target == "decode-binary"
		if msg, _ := catchPanic(func() { p, err = parser.Decode(bytes.NewReader(c.Bytes), bin) }); msg != "" {
			return fail("no-panic", "Decode panicked: "+msg), false
		}
		if err != nil {
			return nil, false
		}
		if p == nil {
			return fail("value-or-error", "Decode returned neither packet nor error"), false
		}
		if p.Type > 6 {
			return fail("valid-output", fmt.Sprintf("Decode accepted packet type %d", p.Type)), true
		}
		// Re-encoding an accepted packet and decoding again must give the same packet.
		var buf bytes.Buffer
		if err := p.Encode(&buf, bin); err != nil {
			return fail("re-encode", "Encode of a decoded packet failed: "+err.Error()), true
		}
		p2, err := parser.Decode(bytes.NewReader(buf.Bytes()), bin)
		if err != nil || p2.Type != p.Type || p2.IsBinary != p.IsBinary || !bytes.Equal(p2.Data, p.Data) {
			return fail("re-encode", fmt.Sprintf("decode(encode(decode(x))) != decode(x): %s vs %s err %v", c11Desc(p2), c11Desc(p), err)), true
		}
		if !p.IsBinary && !bytes.Equal(buf.Bytes(), c.Bytes) {
			return fail("re-encode", "text packet does not re-encode to the bytes it was decoded from"), true
		}
		return nil, true
	case "payloads":
		var ps []*parser.Packet
		var err error
		if msg, _ := catchPanic(func() { ps, err = parser.DecodePayloads(bytes.NewReader(c.Bytes)) }); msg != "" {
			return fail("no-panic", "DecodePayloads panicked: "+msg), false
		}
		if err != nil {
			return nil, false
		}
		if want := bytes.Count(c.Bytes, []byte{0x1e}) + 1; len(ps) != want {
			return fail("valid-output", fmt.Sprintf("DecodePayloads returned %d packets for %d records", len(ps), want)), true
		}
		var l int
		if msg, _ := catchPanic(func() { l = parser.EncodedPayloadsLen(ps...) }); msg != "" {
			return fail("no-panic", "EncodedPayloadsLen panicked on decoded packets: "+msg), true
		}
		var buf bytes.Buffer
		if err := parser.EncodePayloads(&buf, ps...); err != nil || buf.Len() != l {
			return fail("encoded-len", fmt.Sprintf("EncodedPayloadsLen=%d, written %d, err %v", l, buf.Len(), err)), true
		}
		return nil, true
	case "wt":
		r := bytes.NewReader(c.Bytes)
		// Read frames until the stream ends; compare every accepted frame with the reference reader.
		rest := c.Bytes
		for k := 0; k < 64; k++ {
			var p *parser.Packet
			var err error
			if msg, _ := catchPanic(func() { p, err = webtransport.VerifNextPacket(r) }); msg != "" {
				return fail("no-panic", "nextPacket panicked: "+msg), accepted
			}
			want, wrest, werr := refcodec.DecodeWTFrame(rest)
			if err != nil {
				if werr == nil {
					return fail("valid-frame-accepted", fmt.Sprintf("frame %d is a valid v4 frame (%d bytes) but nextPacket failed: %v", k, len(rest)-len(wrest), err)), accepted
				}
				return nil, accepted
			}
			if werr != nil {
				return fail("invalid-frame-rejected", fmt.Sprintf("frame %d: nextPacket returned %s, the reference reader says %v", k, c11Desc(p), werr)), accepted
			}
			accepted = true
			if int(p.Type) != int(want.Type) || p.IsBinary != want.Binary || !bytes.Equal(p.Data, want.Data) {
				return fail("conformance", fmt.Sprintf("frame %d: got %s, reference %v", k, c11Desc(p), want)), accepted
			}
			if r.Len() != len(wrest) {
				return fail("stream-position", fmt.Sprintf("frame %d: %d bytes left, reference says %d", k, r.Len(), len(wrest))), accepted
			}
			rest = wrest
		}
		return nil, accepted
	case "handshake":
		var hr *parser.HandshakeResponse
		var err error
		if msg, _ := catchPanic(func() {
			hr, err = parser.ParseHandshakeResponse(&parser.Packet{Type: parser.PacketTypeOpen, Data: c.Bytes})
		}); msg != "" {
			return fail("no-panic", "ParseHandshakeResponse panicked: "+msg), false
		}
		if err != nil {
			return nil, false
		}
		var ref struct {
			SID          string   `json:"sid"`
			Upgrades     []string `json:"upgrades"`
			PingInterval int64    `json:"pingInterval"`
			PingTimeout  int64    `json:"pingTimeout"`
			MaxPayload   int64    `json:"maxPayload"`
		}
		if json.Unmarshal(c.Bytes, &ref) != nil {
			return fail("invalid-rejected", "handshake accepted although it is not valid JSON for the handshake object"), true
		}
		if hr.SID != ref.SID || hr.PingInterval != ref.PingInterval || hr.PingTimeout != ref.PingTimeout || hr.MaxPayload != ref.MaxPayload ||
			fmt.Sprint(hr.Upgrades) != fmt.Sprint(ref.Upgrades) {
			return fail("conformance", fmt.Sprintf("handshake fields differ: %+v vs %+v", *hr, ref)), true
		}
		if hr.GetPingInterval().Milliseconds() != ref.PingInterval && ref.PingInterval > -(1<<40) && ref.PingInterval < 1<<40 {
			return fail("conformance", "GetPingInterval is not pingInterval milliseconds"), true
		}
		return nil, true
	}
	panic("unknown target " + c.Target)
}

// genC11Arb draws hostile-but-plausible inputs: valid encodings with random mutations, or raw bytes.
func genC11Arb(t *rapid.T) c11ArbCase {
	target := rapid.SampledFrom([]string{"decode-text", "decode-binary", "payloads", "wt", "wt", "handshake"}).Draw(t, "target")
	var base []byte
	switch rapid.IntRange(0, 3).Draw(t, "base") {
	case 0:
		base = rapid.SliceOfN(rapid.Byte(), 0, 40).Draw(t, "raw")
	default:
		switch target {
		case "wt":
			n := rapid.IntRange(1, 3).Draw(t, "frames")
			for i := 0; i < n; i++ {
				p := genC11Pkt(t, fmt.Sprintf("f%d", i), false)
				if len(p.Data) > 1000 && i > 0 {
					p.Data = p.Data[:1000]
				}
				base = append(base, refcodec.EncodeWTFrame(p.ref())...)
			}
		case "payloads":
			n := rapid.IntRange(1, 4).Draw(t, "packets")
			ps := make([]refcodec.EIOPacket, n)
			for i := range ps {
				p := genC11Pkt(t, fmt.Sprintf("p%d", i), true)
				if len(p.Data) > 300 {
					p.Data = p.Data[:300]
				}
				ps[i] = p.ref()
			}
			base = refcodec.EncodeEIOPayload(ps)
		case "handshake":
			base = []byte(rapid.SampledFrom([]string{
				`{"sid":"abc","upgrades":["websocket"],"pingInterval":25000,"pingTimeout":20000,"maxPayload":1000000}`,
				`{"sid":"x","upgrades":[],"pingInterval":1,"pingTimeout":2,"maxPayload":3}`,
				`{"sid":1}`, `{"upgrades":"websocket"}`, `{"pingInterval":1e400}`, `{"pingInterval":9223372036854775808}`, `[]`, `null`, `{}`, ``,
				`{"sid":"a","maxPayload":-1}`, `{"pingInterval":"25000"}`,
			}).Draw(t, "hs"))
		default:
			p := genC11Pkt(t, "p", false)
			if len(p.Data) > 300 {
				p.Data = p.Data[:300]
			}
			base = refcodec.EncodeEIO(p.ref(), target == "decode-binary")
		}
	}
	b := append([]byte(nil), base...)
	for m := rapid.IntRange(0, 3).Draw(t, "mutations"); m > 0 && len(b) > 0; m-- {
		switch rapid.IntRange(0, 4).Draw(t, "mut") {
		case 0:
			b = b[:rapid.IntRange(0, len(b)).Draw(t, "truncate")]
		case 1:
			i := rapid.IntRange(0, min(len(b)-1, 12)).Draw(t, "pos")
			b[i] = rapid.Byte().Draw(t, "byte")
		case 2:
			i := rapid.IntRange(0, len(b)-1).Draw(t, "posAny")
			b[i] = rapid.SampledFrom([]byte{0x1e, 'b', '4', 0x7f, 0xff, 0x7e, 0xfe, 0, '=', '7'}).Draw(t, "hostile")
		case 3:
			b = append(b, rapid.SliceOfN(rapid.Byte(), 1, 12).Draw(t, "suffix")...)
		case 4:
			b = append(rapid.SliceOfN(rapid.SampledFrom([]byte{0x7f, 0xff, 0x7e, 0xfe, 0x80, 0, 0x1e, 'b'}), 1, 9).Draw(t, "prefix"), b...)
		}
	}
	return c11ArbCase{Target: target, Bytes: b}
}

func TestC11_ArbitraryBytes(t *testing.T) {
	ev := NewEv(t, "C11", c11CheckArb, "rapid: valid encodings mutated (truncate, overwrite, hostile constants, prefix/suffix) and raw bytes into Decode, "+
		"DecodePayloads, nextPacket, ParseHandshakeResponse; differential against the reference reader; non-trivial = input accepted by the decoder")
	rapidGuard(t, "C11", c11CheckArb)
	runRapid(t, c11CheckArb, tierN(20000, 1000000), func(t *rapid.T) {
		c := genC11Arb(t)
		f, accepted := evalC11Arb(c)
		ev.Case(c, accepted, c.Target)
		if accepted {
			ev.Sample(c.Target, sampleOf(c))
		}
		if f != nil {
			FailRapid(t, *f)
		}
	})
}

// ---- allocation bound ---------------------------------------------------------------------------

type c11AllocCase struct {
	Limit    int64  `json:"limit"`
	Declared uint64 `json:"declared"` // length written into the header
	Form     int    `json:"form"`     // 16 or 64 (bit length form)
	Binary   bool   `json:"binary"`
	Present  int    `json:"present"` // bytes actually on the stream after the header
}

const c11CheckAlloc = "c11-wt-alloc"

func (c c11AllocCase) stream() []byte {
	var h []byte
	if c.Form == 16 {
		h = []byte{126, byte(c.Declared >> 8), byte(c.Declared)}
	} else {
		h = []byte{127}
		for s := 56; s >= 0; s -= 8 {
			h = append(h, byte(c.Declared>>uint(s)))
		}
	}
	if c.Binary {
		h[0] |= 0x80
	}
	body := bytes.Repeat([]byte{'4'}, c.Present)
	return append(h, body...)
}

func evalC11Alloc(c c11AllocCase) *Failure {
	class := "declared<=limit"
	if c.Declared > uint64(c.Limit) {
		class = "declared>limit"
	}
	fail := func(clause, detail string) *Failure {
		return &Failure{Property: "C11", Check: c11CheckAlloc, Clause: clause, Class: class, Detail: detail, Case: c}
	}
	stream := c.stream()
	const slack = 64 << 10
	var p *parser.Packet
	var err error
	r := webtransport.VerifNewLimitedReader(io.Reader(bytes.NewReader(stream)), c.Limit)
	var before, after runtime.MemStats
	runtime.ReadMemStats(&before)
	msg, _ := catchPanic(func() { p, err = webtransport.VerifNextPacket(r) })
	runtime.ReadMemStats(&after)
	if msg != "" {
		return fail("no-panic", "nextPacket panicked: "+msg)
	}
	grown := int64(after.TotalAlloc - before.TotalAlloc)
	if grown > 8*c.Limit+slack {
		return fail("alloc-bound", fmt.Sprintf("reading a frame that declares %d bytes (stream holds %d) behind a limit of %d allocated %d bytes",
			c.Declared, c.Present, c.Limit, grown))
	}
	if c.Declared > uint64(c.Limit) && err == nil {
		return fail("limit-enforced", fmt.Sprintf("a frame declaring %d bytes was accepted behind a limit of %d: %s", c.Declared, c.Limit, c11Desc(p)))
	}
	if c.Declared <= uint64(c.Limit) && uint64(c.Present) >= c.Declared && (c.Binary || c.Declared >= 1) {
		if err != nil {
			return fail("within-limit-accepted", fmt.Sprintf("a complete frame of %d bytes within the limit %d was rejected: %v", c.Declared, c.Limit, err))
		}
	}
	return nil
}

func TestC11_WTAlloc(t *testing.T) {
	ev := NewEv(t, "C11", c11CheckAlloc, "rapid: frame headers declaring lengths up to 2^64-1 (16/64-bit forms) in front of short streams behind the server's "+
		"limited reader (limits 1 KiB..1 MiB); oracle: TotalAlloc growth of the call <= 8*limit + 64 KiB (cumulative allocation; room for geometric buffer growth up to the limit), oversize rejected, complete frames within the limit accepted; "+
		"non-trivial = declared length exceeds the limit")
	ev.Assume("runtime.MemStats.TotalAlloc is process-wide: the check runs on one goroutine with no concurrent tests in this process")
	rapidGuard(t, "C11", c11CheckAlloc)
	runRapid(t, c11CheckAlloc, tierN(3000, 60000), func(t *rapid.T) {
		c := c11AllocCase{
			Limit:  rapid.SampledFrom([]int64{1 << 10, 1 << 16, 100000, 1 << 20}).Draw(t, "limit"),
			Binary: rapid.Bool().Draw(t, "binary"),
		}
		if rapid.Bool().Draw(t, "form16") {
			c.Form = 16
			c.Declared = uint64(rapid.IntRange(126, 65535).Draw(t, "declared16"))
		} else {
			c.Form = 64
			c.Declared = rapid.OneOf(
				rapid.SampledFrom([]uint64{65536, 65537, 1 << 20, 1<<20 + 1, 1 << 24, 1 << 28, 1 << 31, 1<<32 - 1, 1 << 32, 1<<32 + 5, 1 << 40,
					1<<63 - 1, 1 << 63, 1<<64 - 1, 0x0000000100000000, 0x7fffffff00000000, 0x0010000000000000}),
				rapid.Uint64Range(65536, 1<<21),
				rapid.Uint64(),
			).Draw(t, "declared64")
		}
		c.Present = rapid.SampledFrom([]int{0, 1, 10, 1000, 70000}).Draw(t, "present")
		if rapid.Bool().Draw(t, "complete") && c.Declared <= 1<<21 {
			c.Present = int(c.Declared)
		}
		nt := c.Declared > uint64(c.Limit)
		ev.Case(c, nt, fmt.Sprintf("form%d", c.Form))
		if nt {
			ev.Sample(fmt.Sprint(c.Form, c.Declared > 1<<32), c)
		}
		if f := evalC11Alloc(c); f != nil {
			FailRapid(t, *f)
		}
	})
}

// ---- native fuzz targets (thorough tier) -----------------------------------------------------------

func FuzzC11WT(f *testing.F) {
	for _, n := range []int{0, 1, 125, 126, 300} {
		f.Add(refcodec.EncodeWTFrame(refcodec.EIOPacket{Type: 4, Data: bytes.Repeat([]byte{'x'}, n)}))
		f.Add(refcodec.EncodeWTFrame(refcodec.EIOPacket{Type: 4, Binary: true, Data: bytes.Repeat([]byte{1}, n)}))
	}
	f.Add([]byte{127, 0, 0, 0, 0, 0, 1, 0, 0})
	f.Add([]byte{0xff, 0xff, 0xff, 0xff, 0xff, 0xff, 0xff, 0xff, 0xff})
	f.Add([]byte{126, 0xff, 0xff, '4'})
	f.Fuzz(func(t *testing.T, b []byte) {
		if len(b) > 9 && b[0]&0x7f == 127 {
			// Keep the declared length of the first frame below 16 MiB so the fuzzer itself cannot exhaust memory on a
			// tree that allocates what the header says (that defect is the subject of TestC11_WTAlloc).
			b[1], b[2], b[3], b[4], b[5] = 0, 0, 0, 0, 0
		}
		if f, _ := evalC11Arb(c11ArbCase{Target: "wt", Bytes: b}); f != nil {
			emitFailure(f)
			t.Fatal(f.Detail)
		}
	})
}

func FuzzC11Decode(f *testing.F) {
	f.Add([]byte("4hello"), false)
	f.Add([]byte("bAQID"), false)
	f.Add([]byte("4a\x1e2probe\x1ebAA=="), true)
	f.Add([]byte(""), true)
	f.Add([]byte("b===="), false)
	f.Fuzz(func(t *testing.T, b []byte, payload bool) {
		target := "decode-text"
		if payload {
			target = "payloads"
		}
		if f, _ := evalC11Arb(c11ArbCase{Target: target, Bytes: b}); f != nil {
			emitFailure(f)
			t.Fatal(f.Detail)
		}
	})
}

func init() {
	registerReplay(c11CheckSingle, func(raw json.RawMessage) *Failure { return evalC11Single(decodeCase[c11SingleCase](raw)) })
	registerReplay(c11CheckPayload, func(raw json.RawMessage) *Failure { return evalC11Payload(decodeCase[c11PayloadCase](raw)) })
	registerReplay(c11CheckWT, func(raw json.RawMessage) *Failure { return evalC11WT(decodeCase[c11WTCase](raw)) })
	registerReplay(c11CheckArb, func(raw json.RawMessage) *Failure {
		f, _ := evalC11Arb(decodeCase[c11ArbCase](raw))
		return f
	})
	registerReplay(c11CheckAlloc, func(raw json.RawMessage) *Failure { return evalC11Alloc(decodeCase[c11AllocCase](raw)) })
}
