package harness

import (
	"encoding/binary"
	"encoding/json"
	"flag"
	"fmt"
	"hash/fnv"
	"os"
	"path/filepath"
	"runtime/debug"
	"sort"
	"strconv"
	"strings"
	"sync"
	"testing"

	"pgregory.net/rapid"
)

// ---------------------------------------------------------------------------------------------
// Run parameters (set by the driver through the environment).

var (
	envSeed   = envInt("VERIF_SEED", 1)
	envTier   = envStr("VERIF_TIER", "quick")
	envShard  = envInt("VERIF_SHARD", 0)
	envShards = envInt("VERIF_SHARDS", 1)
	envOut    = envStr("VERIF_OUT", "")
	envReplay = envStr("VERIF_REPLAY", "")
)

func envStr(k, def string) string {
	if v := os.Getenv(k); v != "" {
		return v
	}
	return def
}

func envInt(k string, def int) int {
	if v := os.Getenv(k); v != "" {
		if n, err := strconv.Atoi(v); err == nil {
			return n
		}
	}
	return def
}

func thorough() bool { return envTier == "thorough" }

// tierN returns the number of cases this shard should run.
func tierN(quick, thoroughN int) int {
	n := quick
	if thorough() {
		n = thoroughN
	}
	per := n / envShards
	if envShard < n%envShards {
		per++
	}
	if per < 1 {
		per = 1
	}
	return per
}

// tierV picks a value by tier (not divided by shards).
func tierV[T any](quick, thoroughV T) T {
	if thorough() {
		return thoroughV
	}
	return quick
}

// mine reports whether item i of an enumerated space belongs to this shard.
func mine(i int) bool { return i%envShards == envShard }

// rapidSeed derives the non-zero rapid seed of this shard and check.
func rapidSeed(check string) uint64 {
	h := fnv.New64a()
	fmt.Fprintf(h, "%d/%d/%s", envSeed, envShard, check)
	s := h.Sum64() >> 1
	if s == 0 {
		s = 1
	}
	return s
}

// runRapid runs prop under rapid with n cases and the derived seed. All randomness of a check must come from t.
func runRapid(t *testing.T, check string, n int, prop func(t *rapid.T)) {
	t.Helper()
	must(flag.Set("rapid.checks", strconv.Itoa(n)))
	must(flag.Set("rapid.seed", strconv.FormatUint(rapidSeed(check), 10)))
	must(flag.Set("rapid.nofailfile", "true"))
	must(flag.Set("rapid.shrinktime", tierV("20s", "60s")))
	rapid.Check(t, func(rt *rapid.T) {
		tick() // every generated case is progress for the watchdog, whatever the check does inside
		prop(rt)
	})
}

func must(err error) {
	if err != nil {
		panic(err)
	}
}

// ---------------------------------------------------------------------------------------------
// Evidence collection.

// Ev collects what one check covered. It is flushed to $VERIF_OUT as a partial evidence file that the
// driver merges into /verif/evidence/<ID>.json.
type Ev struct {
	Property string
	Check    string
	Rule     string
	fileTag  string // partial evidence file name (the check that produced the cases)

	mu          sync.Mutex
	evaluations int64
	nontrivial  map[uint64]struct{}
	classes     map[string]int64
	excluded    map[string]int64
	samples     []any
	sampleKeys  map[string]bool
	notes       []string
	assumptions []string
	exhaustive  bool
	extra       map[string]any
	maxSamples  int
}

var (
	allEvMu sync.Mutex
	allEv   []*Ev
)

func NewEv(t testing.TB, property, check, rule string) *Ev {
	origCheck := check
	if rigRaceMode && check != c16Check {
		// the scenario rigs under the race detector, run for C16 (see rigRace below): the evidence goes to C16, labelled by the rig it came from
		property, check = "C16", "c16-rig-race"
		rule = "the scenario rigs of other properties (real server and client in " + "virtual time: delivery, acks, isolation, life cycle, upgrade, recovery, middlewares, heartbeats, reconnection, hostile peers, limits, latency) " +
			"re-run with the harness built with -race; their own oracles are not evaluated here; oracle: runtime.RaceErrors() does not grow during a case (a report is attributed to the case just " +
			"evaluated and named by the repository functions owning the two accesses); non-trivial = as in the rig's own check"
	}
	e := &Ev{Property: property, Check: check, Rule: rule, fileTag: origCheck,
		nontrivial: map[uint64]struct{}{}, classes: map[string]int64{}, excluded: map[string]int64{},
		sampleKeys: map[string]bool{}, extra: map[string]any{}, maxSamples: 4}
	allEvMu.Lock()
	allEv = append(allEv, e)
	allEvMu.Unlock()
	t.Cleanup(e.Flush)
	return e
}

// flushAllEvidence writes every collector's partial evidence (used when the process is about to exit abnormally).
func flushAllEvidence() {
	allEvMu.Lock()
	evs := append([]*Ev(nil), allEv...)
	allEvMu.Unlock()
	for _, e := range evs {
		e.Flush()
	}
}

func fp(v any) uint64 {
	h := fnv.New64a()
	switch x := v.(type) {
	case string:
		h.Write([]byte(x))
	case []byte:
		h.Write(x)
	case uint64:
		var b [8]byte
		binary.LittleEndian.PutUint64(b[:], x)
		h.Write(b[:])
	default:
		b, err := json.Marshal(v)
		if err != nil {
			fmt.Fprintf(h, "%#v", v)
		} else {
			h.Write(b)
		}
	}
	return h.Sum64()
}

// Case records one executed case. fingerprint identifies the case (canonical descriptor); nontrivial says whether it
// satisfies the check's stated rule; classes are free-form labels counted into the distribution.
func (e *Ev) Case(fingerprint any, nontrivial bool, classes ...string) {
	rigRace(e, fingerprint)
	if rigRaceMode && e.Check == "c16-rig-race" {
		classes = []string{"rig:" + e.fileTag}
	}
	f := fp(fingerprint)
	e.mu.Lock()
	e.evaluations++
	if nontrivial {
		e.nontrivial[f] = struct{}{}
	}
	for _, c := range classes {
		e.classes[c]++
	}
	e.mu.Unlock()
}

// Class counts a label without counting a case.
func (e *Ev) Class(c string, n int64) {
	e.mu.Lock()
	e.classes[c] += n
	e.mu.Unlock()
}

// Excluded counts a case that was not generated/evaluated because it falls into a listed known finding.
func (e *Ev) Excluded(id string) {
	e.mu.Lock()
	e.excluded[id]++
	e.mu.Unlock()
}

// Sample stores up to maxSamples literal cases, at most one per key.
func (e *Ev) Sample(key string, v any) {
	e.mu.Lock()
	defer e.mu.Unlock()
	if e.sampleKeys[key] || len(e.samples) >= e.maxSamples {
		return
	}
	e.sampleKeys[key] = true
	e.samples = append(e.samples, v)
}

func (e *Ev) Note(s string)       { e.mu.Lock(); e.notes = append(e.notes, s); e.mu.Unlock() }
func (e *Ev) Assume(s string)     { e.mu.Lock(); e.assumptions = append(e.assumptions, s); e.mu.Unlock() }
func (e *Ev) Exhaustive()         { e.mu.Lock(); e.exhaustive = true; e.mu.Unlock() }
func (e *Ev) Set(k string, v any) { e.mu.Lock(); e.extra[k] = v; e.mu.Unlock() }

type evPartial struct {
	Property    string           `json:"property"`
	Check       string           `json:"check"`
	Rule        string           `json:"rule"`
	Shard       int              `json:"shard"`
	Evaluations int64            `json:"evaluations"`
	Nontrivial  []string         `json:"nontrivial_fps"`
	Classes     map[string]int64 `json:"classes"`
	Excluded    map[string]int64 `json:"excluded_known"`
	Samples     []any            `json:"samples"`
	Notes       []string         `json:"notes"`
	Assumptions []string         `json:"assumptions"`
	Exhaustive  bool             `json:"exhaustive"`
	Extra       map[string]any   `json:"extra"`
}

func (e *Ev) Flush() {
	if envOut == "" {
		return
	}
	e.mu.Lock()
	defer e.mu.Unlock()
	p := evPartial{Property: e.Property, Check: e.Check, Rule: e.Rule, Shard: envShard, Evaluations: e.evaluations,
		Classes: e.classes, Excluded: e.excluded, Samples: e.samples, Notes: e.notes, Assumptions: e.assumptions,
		Exhaustive: e.exhaustive, Extra: e.extra}
	fps := make([]uint64, 0, len(e.nontrivial))
	for f := range e.nontrivial {
		fps = append(fps, f)
	}
	sort.Slice(fps, func(i, j int) bool { return fps[i] < fps[j] })
	// Keep the file small: the driver only needs the set for the union across shards.
	const maxFps = 200000
	if len(fps) > maxFps {
		p.Extra["nontrivial_fps_truncated_from"] = len(fps)
		fps = fps[:maxFps]
	}
	p.Nontrivial = make([]string, len(fps))
	for i, f := range fps {
		p.Nontrivial[i] = strconv.FormatUint(f, 36)
	}
	b, err := json.Marshal(p)
	if err != nil {
		fmt.Fprintf(os.Stderr, "evidence marshal: %v\n", err)
		return
	}
	name := fmt.Sprintf("ev-%s-%s-%d.json", e.Property, sanitize(e.fileTag), envShard)
	if err := os.WriteFile(filepath.Join(envOut, name), b, 0o644); err != nil {
		fmt.Fprintf(os.Stderr, "evidence write: %v\n", err)
	}
}

func sanitize(s string) string {
	return strings.Map(func(r rune) rune {
		if r >= 'a' && r <= 'z' || r >= 'A' && r <= 'Z' || r >= '0' && r <= '9' || r == '-' || r == '_' {
			return r
		}
		return '_'
	}, s)
}

// ---------------------------------------------------------------------------------------------
// Failures.

// Failure is a structured oracle failure. (Check, Clause, Class) is the signature matched against known findings.
type Failure struct {
	Property string `json:"property"`
	Check    string `json:"check"`
	Clause   string `json:"clause"`
	Class    string `json:"class"`
	Detail   string `json:"detail"`
	Case     any    `json:"case"`
	Shard    int    `json:"shard"`
	Seed     int    `json:"seed"`
	Stack    string `json:"stack,omitempty"`
}

func (f Failure) Sig() string { return f.Check + "/" + f.Clause + "/" + f.Class }

var (
	failMu   sync.Mutex
	failSeq  int
	lastFail = map[string]*Failure{} // per check: the most recent failure (rapid replays the shrunk case last)
)

// emitFailure writes the failure where the driver finds it.
func emitFailure(f *Failure) {
	f.Shard, f.Seed = envShard, envSeed
	b, _ := json.Marshal(f)
	fmt.Printf("\nVERIF-FAIL %s\n", b)
	if envOut != "" {
		failMu.Lock()
		failSeq++
		n := failSeq
		failMu.Unlock()
		name := fmt.Sprintf("fail-%s-%s-%d-%d.json", f.Property, sanitize(f.Check), envShard, n)
		_ = os.WriteFile(filepath.Join(envOut, name), b, 0o644)
	}
}

// failer is the subset of testing.T / rapid.T used by Fail.
type failer interface {
	Helper()
	Fatalf(format string, args ...any)
}

// Fail reports an oracle failure from a plain (non-rapid) test and stops the test.
func Fail(t failer, f Failure) {
	t.Helper()
	emitFailure(&f)
	t.Fatalf("%s %s: %s", f.Property, f.Sig(), f.Detail)
}

// Report reports an oracle failure without stopping the test (for enumerations that collect several findings).
func Report(t testing.TB, f Failure) {
	t.Helper()
	emitFailure(&f)
	t.Errorf("%s %s: %s", f.Property, f.Sig(), f.Detail)
}

// FailRapid records an oracle failure inside a rapid property. rapid re-runs the property while shrinking and replays
// the minimal case last, so only the last recorded failure of a check is emitted (by rapidGuard's cleanup).
func FailRapid(t *rapid.T, f Failure) {
	t.Helper()
	failMu.Lock()
	ff := f
	lastFail[f.Check] = &ff
	failMu.Unlock()
	t.Fatalf("%s %s: %s", f.Property, f.Sig(), f.Detail)
}

// rapidGuard must be called (on the outer *testing.T) before runRapid: it emits the last recorded failure of check,
// or a generic one if rapid failed for another reason (e.g. a panic inside the property).
func rapidGuard(t *testing.T, property, check string) {
	t.Cleanup(func() {
		failMu.Lock()
		f := lastFail[check]
		delete(lastFail, check)
		failMu.Unlock()
		if f != nil {
			emitFailure(f)
			return
		}
		if t.Failed() {
			emitFailure(&Failure{Property: property, Check: check, Clause: "unclassified", Class: "-",
				Detail: "test failed without a structured failure (panic or harness error); see log"})
		}
	})
}

// catchPanic runs fn and returns a description of the panic it raised, if any.
func catchPanic(fn func()) (msg string, stack string) {
	defer func() {
		if r := recover(); r != nil {
			msg = fmt.Sprint(r)
			if msg == "" {
				msg = "panic"
			}
			stack = string(debug.Stack())
		}
	}()
	fn()
	return
}

// ---------------------------------------------------------------------------------------------
// Known findings (read-only at run time).

type knownFinding struct {
	Property string
	ID       string
	Sig      string
	Text     string
}

var (
	kfOnce sync.Once
	kfList []knownFinding
)

func knownFindings() []knownFinding {
	kfOnce.Do(func() {
		path := envStr("VERIF_KNOWN", "../known_findings.txt")
		b, err := os.ReadFile(path)
		if err != nil {
			return
		}
		for _, line := range strings.Split(string(b), "\n") {
			line = strings.TrimSpace(line)
			if !strings.HasPrefix(line, "KNOWN-FINDING:") {
				continue
			}
			var k knownFinding
			for _, w := range strings.Fields(line) {
				switch {
				case strings.HasPrefix(w, "property="):
					k.Property = strings.TrimPrefix(w, "property=")
				case strings.HasPrefix(w, "id="):
					k.ID = strings.TrimPrefix(w, "id=")
				case strings.HasPrefix(w, "sig="):
					k.Sig = strings.TrimPrefix(w, "sig=")
				}
			}
			k.Text = line
			kfList = append(kfList, k)
		}
	})
	return kfList
}

// kfOpen reports whether a known finding with this id is listed as open.
func kfOpen(id string) bool {
	for _, k := range knownFindings() {
		if k.ID == id {
			return true
		}
	}
	return false
}

// kfStatus is printed by probes: the driver turns "still-fails" into the KNOWN-FINDING line.
func kfStatus(id string, stillFails bool, detail string) {
	st := "no-longer-fails"
	if stillFails {
		st = "still-fails"
	}
	fmt.Printf("\nVERIF-KF id=%s status=%s detail=%s\n", id, st, strconv.Quote(detail))
	if envOut != "" {
		b, _ := json.Marshal(map[string]any{"id": id, "still_fails": stillFails, "detail": detail})
		_ = os.WriteFile(filepath.Join(envOut, fmt.Sprintf("kf-%s-%d.json", sanitize(id), envShard)), b, 0o644)
	}
}

// kfProbe caches, per process, whether the minimal reproduction of a known finding still fails. Generators exclude a
// finding's class only while its probe still fails, so a repaired tree is searched in full.
var (
	kfProbeMu  sync.Mutex
	kfProbeRes = map[string]bool{}
)

func kfActive(id string, probe func() (stillFails bool, detail string)) bool {
	if !kfOpen(id) {
		return false
	}
	kfProbeMu.Lock()
	defer kfProbeMu.Unlock()
	if v, ok := kfProbeRes[id]; ok {
		return v
	}
	still, detail := probe()
	kfProbeRes[id] = still
	if envShard == 0 {
		kfStatus(id, still, detail)
	}
	return still
}

// ---------------------------------------------------------------------------------------------
// C16 on the scenario rigs: when the harness is built with -race (group variant "race"), every check's cases double as concurrent
// scenarios for C16. Ev.Case is called once per evaluated case; a growth of runtime.RaceErrors() since the previous call is
// attributed to the case just evaluated and emitted as a C16 failure (the driver, run for C16, keeps only C16 failures).

var (
	rigRaceMu   sync.Mutex
	rigRaceSeen = raceErrors()
	rigRaceMark = raceLogSize()
	rigRaceSigs = map[string]bool{}
)

var rigRaceMode = envStr("VERIF_RIGRACE", "") != ""

func rigRace(e *Ev, c any) {
	if !raceEnabled || !rigRaceMode || e.Check == c16Check {
		return
	}
	rigRaceMu.Lock()
	defer rigRaceMu.Unlock()
	n := raceErrors()
	if n == rigRaceSeen {
		return
	}
	rep := raceLogSince(rigRaceMark)
	rigRaceSeen, rigRaceMark = n, raceLogSize()
	class := c16RaceClass(rep)
	if class == "race:?~?" {
		fmt.Printf("\nVERIF-INFRA race without repository frames during %s:\n%s\n", e.fileTag, rep)
		return
	}
	if rigRaceSigs[class] {
		return
	}
	rigRaceSigs[class] = true
	emitFailure(&Failure{Property: "C16", Check: "c16-rig-race", Clause: "data-race", Class: class,
		Detail: fmt.Sprintf("data race reported while %s evaluated this case:\n%s", e.fileTag, truncS(rep, 7000)), Case: map[string]any{"check": e.fileTag, "case": c}})
}

func init() {
	registerReplay("c16-rig-race", func(raw json.RawMessage) *Failure {
		var w struct {
			Check string          `json:"check"`
			Case  json.RawMessage `json:"case"`
		}
		if err := json.Unmarshal(raw, &w); err != nil {
			panic(err)
		}
		replayMu.Lock()
		fn := replayers[w.Check]
		replayMu.Unlock()
		if fn == nil {
			panic("c16-rig-race: no replay function for " + w.Check)
		}
		before, mark := raceErrors(), raceLogSize()
		_ = fn(w.Case) // the rig's own verdict is not the subject here
		if raceErrors() > before {
			rep := raceLogSince(mark)
			return &Failure{Property: "C16", Check: "c16-rig-race", Clause: "data-race", Class: c16RaceClass(rep), Detail: truncS(rep, 7000), Case: w}
		}
		return nil
	})
}
