package harness

// C01 under a lossy link — "while a connection is up ... nothing is lost": a TCP connection that dies in the middle of an exchange may
// take the events it carried with it ONLY IF the Socket.IO connection ends too (and says so). If both sides carry on as if nothing had
// happened, every event must have arrived. DESIGN.md §3 C01. One link fault (the stream of every open TCP connection is cut after d more
// bytes in one direction) is injected into a two-way stream of numbered events; dials keep working, so long-polling can go on.

import (
	"bufio"
	"bytes"
	"encoding/json"
	"fmt"
	"io"
	"net/http"
	"sort"
	"strings"
	"sync"
	"sync/atomic"
	"testing"
	"time"

	sio "github.com/karagenc/socket.io-go"
	"pgregory.net/rapid"
)

const c01lCheck = "c01-lossy-link"

type c01lCase struct {
	Transport string `json:"transport"` // polling | websocket | upgrade
	Events    int    `json:"events"`    // per direction, one every GapUs
	GapUs     int    `json:"gap_us"`
	Binary    bool   `json:"binary"`    // every third event carries an attachment
	FaultAt   int    `json:"fault_at"`  // the fault is armed right before this event index
	CutDir    string `json:"cut_dir"`   // s2c | c2s
	CutAfter  int    `json:"cut_after"` // bytes that still get through in that direction on each open TCP connection
	Drain     bool   `json:"drain"`     // the bytes that got through stay readable and are followed by the end of the stream (else: reset, unread bytes are discarded)
}

func (c c01lCase) class() string { return fmt.Sprintf("%s,cut-%s", c.Transport, c.CutDir) }

// c01lBetweenResponses reports whether a server->client byte stream that was cut ends exactly at the end of an HTTP response, i.e. the
// cut took away a response before its first byte (known finding KF-C01-2: net/http then repeats the GET by itself on a new connection).
func c01lBetweenResponses(stream []byte) bool {
	br := bufio.NewReader(bytes.NewReader(stream))
	for {
		if _, err := br.Peek(1); err != nil {
			return true // nothing left: the stream ends at a response boundary
		}
		resp, err := http.ReadResponse(br, nil)
		if err != nil {
			return false
		}
		_, err = io.Copy(io.Discard, resp.Body)
		resp.Body.Close()
		if err != nil {
			return false
		}
	}
}

var (
	c01lTolerateKF2  bool
	c01lToleratedKF2 atomic.Int64
)

func evalC01l(c c01lCase) (f *Failure, nontrivial bool) {
	class := c.class()
	fail := func(clause, detail string) *Failure {
		return &Failure{Property: "C01", Check: c01lCheck, Clause: clause, Class: class, Detail: detail, Case: c}
	}
	journal(c01lCheck, class, c)
	var res *Failure
	ended := false
	msg := runRig(rigOpts{PingInterval: 2 * time.Second, PingTimeout: time.Second}, func(r *rig) {
		var mu sync.Mutex
		gotS, gotC := map[int]int{}, map[int]int{}
		var ends []string
		var ss sio.ServerSocket
		r.Server.Use(func(s sio.ServerSocket, _ *sio.Handshake) any {
			mu.Lock()
			ss = s
			mu.Unlock()
			s.OnEvent("e", func(tok int) { mu.Lock(); gotS[tok]++; mu.Unlock() })
			s.OnEvent("b", func(tok int, _ Bin) { mu.Lock(); gotS[tok]++; mu.Unlock() })
			s.OnDisconnect(func(reason sio.Reason) { mu.Lock(); ends = append(ends, "server socket: "+string(reason)); mu.Unlock() })
			s.OnError(func(err error) { mu.Lock(); ends = append(ends, "server socket error: "+err.Error()); mu.Unlock() })
			return nil
		})
		m := r.manager(c01Transports(c.Transport), nil)
		m.OnClose(func(reason sio.Reason, err error) {
			mu.Lock()
			ends = append(ends, fmt.Sprintf("manager close: %s %v", reason, err))
			mu.Unlock()
		})
		m.OnError(func(err error) { mu.Lock(); ends = append(ends, "manager error: "+err.Error()); mu.Unlock() })
		cli := m.Socket("/", nil)
		cli.OnEvent("e", func(tok int) { mu.Lock(); gotC[tok]++; mu.Unlock() })
		cli.OnEvent("b", func(tok int, _ Bin) { mu.Lock(); gotC[tok]++; mu.Unlock() })
		cli.OnDisconnect(func(reason sio.Reason) { mu.Lock(); ends = append(ends, "client socket: "+string(reason)); mu.Unlock() })
		cli.Connect()
		if c.Transport == "upgrade" {
			settle(3 * time.Millisecond) // the stream starts while the upgrade is being probed
		} else {
			settle(time.Second)
		}
		mu.Lock()
		s := ss
		mu.Unlock()
		if s == nil {
			res = fail("rig-connect", "not connected")
			return
		}
		for i := 0; i < c.Events; i++ {
			if i == c.FaultAt {
				for _, l := range r.Net.Links() {
					_, n := l.LastWritten(c.CutDir == "c2s")
					if c.Drain {
						l.CutAfterDrain(c.CutDir == "c2s", n+int64(c.CutAfter))
					} else {
						l.CutAfter(c.CutDir == "c2s", n+int64(c.CutAfter))
					}
				}
			}
			if c.Binary && i%3 == 2 {
				s.Emit("b", i, Bin([]byte("attachment-attachment")))
				cli.Emit("b", 100000+i, Bin([]byte("attachment-attachment")))
			} else {
				s.Emit("e", i)
				cli.Emit("e", 100000+i)
			}
			time.Sleep(time.Duration(c.GapUs) * time.Microsecond)
			tick()
		}
		settle(12 * time.Second) // heartbeats (2 s + 1 s) would have noticed a dead connection several times over
		mu.Lock()
		defer mu.Unlock()
		ended = len(ends) > 0 || !cli.Connected() || !s.Connected()
		var lost, dup []string
		for i := 0; i < c.Events; i++ {
			for _, k := range []struct {
				tok int
				n   int
				dir string
			}{{i, gotC[i], "s2c"}, {100000 + i, gotS[100000+i], "c2s"}} {
				if k.n > 1 {
					dup = append(dup, fmt.Sprintf("%s %d x%d", k.dir, k.tok, k.n))
				} else if k.n == 0 {
					lost = append(lost, fmt.Sprintf("%s %d", k.dir, k.tok))
				}
			}
		}
		sort.Strings(lost)
		if len(dup) > 0 {
			res = fail("exactly-once", fmt.Sprintf("delivered more than once: %v (ends reported: %v)", dup, ends))
			return
		}
		if len(lost) > 0 && !ended {
			if c.CutDir == "s2c" && c.Transport != "websocket" {
				between := false
				for _, l := range r.Net.Links() {
					// what the client has read of this connection (a reset discards what was delivered but not yet read)
					if n := l.Consumed(false); l.WasCut() && n > 0 && n <= int64(len(l.RecS2C)) && c01lBetweenResponses(l.RecS2C[:n]) {
						between = true
					}
				}
				if between {
					class += ",response-cut-before-its-first-byte" // KF-C01-2
					if c01lTolerateKF2 {
						c01lToleratedKF2.Add(1)
						return
					}
				}
			}
			res = fail("nothing-lost-while-up", fmt.Sprintf("the TCP connections were cut (%s, %d more bytes) right before event %d; %d events never arrived (%v) and yet both sockets report connected and no disconnect, close or error handler ran on either side",
				c.CutDir, c.CutAfter, c.FaultAt, len(lost), lost[:min(8, len(lost))]))
			return
		}
		// a connection that stayed up still works
		if !ended {
			mu.Unlock()
			ok := false
			cli.Emit("rt", func() { mu.Lock(); ok = true; mu.Unlock() })
			settle(2 * time.Second)
			mu.Lock()
			_ = ok
		}
	})
	if res == nil && msg != "" && !isBubbleDeadlock(msg) {
		res = fail("bubble-panic", "synctest: "+msg)
	}
	return res, !ended || c.Binary
}

// KF-C01-2 probe: the response of a poll is cut before its first byte
func c01lKF2Probe() (bool, string) {
	for _, at := range []int{3, 5, 8} {
		f, _ := evalC01l(c01lCase{Transport: "polling", Events: 20, GapUs: 500, FaultAt: at, CutDir: "s2c", CutAfter: 0})
		if f != nil && f.Clause == "nothing-lost-while-up" && strings.HasSuffix(f.Class, "response-cut-before-its-first-byte") {
			return true, f.Detail
		}
	}
	return false, ""
}

func TestC01_LossyLink(t *testing.T) {
	setT(t)
	defer startWatchdog(t, 90*time.Second)()
	ev := NewEv(t, "C01", c01lCheck, "rapid on the virtual-time rig: a two-way stream of 10..60 numbered events per direction (one every 100..2000 us, optionally every third with an attachment) over {polling, "+
		"websocket, an upgrade in progress}; right before a drawn event every open TCP connection is cut after d in {0, 1, 5, 40, 200, 1000} more bytes in one direction, either reset (unread bytes discarded) or with the bytes that got through still readable before the end of the stream (new connections can still be dialed); "+
		"oracle 12 s later: no event is delivered twice; if neither side reports an end (disconnect / close / error handler, Connected() false) then every event of both directions was delivered - events may be "+
		"lost only together with a connection whose end is reported; non-trivial = the connection survived the fault, or binary events were in flight")
	rapidGuard(t, "C01", c01lCheck)
	c01lTolerateKF2 = false
	kf2 := kfActive("KF-C01-2", c01lKF2Probe)
	c01lTolerateKF2 = kf2 // while the finding is open and still reproduces, cases that hit exactly it are counted, not reported
	defer func() { ev.Set("tolerated_known_finding_KF-C01-2", c01lToleratedKF2.Load()) }()
	runRapid(t, c01lCheck, tierN(6000, 80000), func(t *rapid.T) {
		c := c01lCase{Transport: rapid.SampledFrom([]string{"polling", "polling", "websocket", "upgrade"}).Draw(t, "transport"), Events: rapid.IntRange(10, 60).Draw(t, "events"),
			GapUs: rapid.SampledFrom([]int{100, 500, 2000}).Draw(t, "gap"), Binary: rapid.Bool().Draw(t, "binary"), CutDir: rapid.SampledFrom([]string{"s2c", "s2c", "c2s"}).Draw(t, "dir"),
			CutAfter: rapid.SampledFrom([]int{0, 1, 5, 40, 200, 1000}).Draw(t, "after"), Drain: rapid.Bool().Draw(t, "drain")}
		c.FaultAt = rapid.IntRange(1, c.Events-1).Draw(t, "at")
		f, nt := evalC01l(c)
		ev.Case(c, nt, c.class())
		if nt {
			ev.Sample(c.class(), c)
		}
		if f != nil {
			FailRapid(t, *f)
		}
	})
}

func init() {
	registerReplay(c01lCheck, func(raw json.RawMessage) *Failure {
		f, _ := evalC01l(decodeCase[c01lCase](raw))
		return f
	})
}
