package harness

// C06 — every connection end is reported exactly once and leaves nothing on the server. DESIGN.md §3 C06.
// A scripted session on the virtual-time rig (1-2 namespaces, optional upgrade, a burst), ended by a drawn cause at a drawn
// phase; plus the fault enumeration: the same session with the byte stream cut at every k-th byte of every connection.
// The verdict is taken BEFORE the harness tears anything down.

import (
	"encoding/json"
	"fmt"
	"net/http/httptest"
	"regexp"
	"runtime"
	"sort"
	"strings"
	"sync"
	"sync/atomic"
	"testing"
	"time"

	sio "github.com/karagenc/socket.io-go"
	"pgregory.net/rapid"
)

const c06Check = "c06-lifecycle"

type c06Case struct {
	Transport  string `json:"transport"`  // polling | websocket | upgrade
	Namespaces int    `json:"namespaces"` // 1 or 2 (on one connection)
	Cause      string `json:"cause"`      // client-disconnect | manager-close | server-disconnect | server-disconnect-close | disconnect-sockets | disconnect-sockets-close | server-close | cut | blackhole | none
	Cause2     string `json:"cause2"`     // optional second cause at the same instant ("" = none)
	Phase      string `json:"phase"`      // connecting | middleware | idle | burst | upgrade
	// fault enumeration: cut link CutLink after CutAt bytes in direction CutDir (Cause == "cut-at-byte")
	CutLink int    `json:"cut_link"`
	CutDir  string `json:"cut_dir"`
	CutAt   int    `json:"cut_at"`
	// forced schedule: the n-th asynchronous handler dispatch (handlerStore.forEach starts a goroutine per lifecycle event) is held back
	// for HoldMs of virtual time before it runs its handlers (0 = none). A goroutine that starts late is an ordinary schedule.
	HoldDispatch int `json:"hold_dispatch"`
	HoldMs       int `json:"hold_ms"`
	// phase "joining": the adapter is slow (every join yields the processor SlowJoin times first, as an adapter backed by a remote store
	// would block) and the cause strikes after JoinAt yields of its own, i.e. while a socket is registered and joining its own room or its
	// first rooms. No virtual time is involved: the library holds mutexes across the join (DESIGN.md §2.2).
	SlowJoin int `json:"slow_join"`
	JoinAt   int `json:"join_at"`
}

func (c c06Case) class() string {
	cls := c.Cause + "@" + c.Phase
	if c.Cause == "cut-at-byte" {
		// which connection of which session is cut, and in which direction (a failure signature then names a family of cuts, not all of them)
		cls += fmt.Sprintf(",%s,ns%d,link%d,%s", c.Transport, c.Namespaces, c.CutLink, c.CutDir)
	}
	if c.Cause2 != "" {
		cls += "+" + c.Cause2
	}
	return cls
}

// allowed server-side reasons per injected cause (derived from what can legitimately reach the server first)
var c06Allowed = map[string][]sio.Reason{
	"client-disconnect":        {sio.ReasonClientNamespaceDisconnect, sio.ReasonTransportClose, sio.ReasonTransportError, sio.ReasonForcedClose},
	"manager-close":            {sio.ReasonTransportClose, sio.ReasonTransportError, sio.ReasonPingTimeout, sio.ReasonForcedClose},
	"server-disconnect":        {sio.ReasonServerNamespaceDisconnect},
	"server-disconnect-close":  {sio.ReasonServerNamespaceDisconnect, sio.ReasonForcedServerClose, sio.ReasonForcedClose},
	"disconnect-sockets":       {sio.ReasonServerNamespaceDisconnect},
	"disconnect-sockets-close": {sio.ReasonServerNamespaceDisconnect, sio.ReasonForcedServerClose, sio.ReasonForcedClose},
	"server-close":             {sio.ReasonServerShuttingDown, sio.ReasonForcedClose, sio.ReasonForcedServerClose, sio.ReasonTransportClose},
	"cut":                      {sio.ReasonTransportClose, sio.ReasonTransportError, sio.ReasonPingTimeout},
	"cut-at-byte":              {sio.ReasonTransportClose, sio.ReasonTransportError, sio.ReasonPingTimeout, sio.ReasonParseError, sio.ReasonForcedClose, sio.ReasonForcedServerClose},
	"blackhole":                {sio.ReasonPingTimeout, sio.ReasonTransportError, sio.ReasonTransportClose},
}

type c06Sock struct {
	id            sio.SocketID
	nsp           string
	sock          sio.ServerSocket
	connHandler   int
	disconnecting []time.Duration
	disconnects   []time.Duration
	reasons       []sio.Reason
	lateEvents    int // handler invocations after the disconnect handler ran
}

type c06Result struct {
	linkBytes [][2]int
}

var sidRe = regexp.MustCompile(`"sid":"([A-Za-z0-9_-]{20})"`)

func evalC06(c c06Case) (f *Failure, nontrivial bool, out c06Result) {
	class := c.class()
	fail := func(clause, detail string) *Failure {
		return &Failure{Property: "C06", Check: c06Check, Clause: clause, Class: class, Detail: detail, Case: c}
	}
	journal(c06Check, class, c)
	var res *Failure
	set := func(f *Failure) {
		if res == nil {
			res = f
		}
	}
	nsNames := []string{"/", "/n2"}[:c.Namespaces]
	msg := runRig(rigOpts{PingInterval: 2 * time.Second, PingTimeout: time.Second, ConnectTimeout: 3 * time.Second, UpgradeTimeout: 2 * time.Second,
		SlowJoin: c.SlowJoin}, func(r *rig) {
		if c.HoldDispatch > 0 {
			var dispatches atomic.Int64
			r.setPoint(func(site string) {
				if site == "handlerStore.forEach:async" && dispatches.Add(1) == int64(c.HoldDispatch) {
					time.Sleep(time.Duration(c.HoldMs) * time.Millisecond)
				}
			})
		}
		start := time.Now()
		var mu sync.Mutex
		socks := map[sio.SocketID]*c06Sock{}
		mwDelay := time.Duration(0)
		if c.Phase == "middleware" {
			mwDelay = time.Second
		}
		for _, name := range nsNames {
			name := name
			nsp := r.Server.Of(name)
			nsp.Use(func(s sio.ServerSocket, _ *sio.Handshake) any {
				st := &c06Sock{id: s.ID(), nsp: name, sock: s}
				mu.Lock()
				socks[s.ID()] = st
				mu.Unlock()
				s.OnDisconnecting(func(sio.Reason) { mu.Lock(); st.disconnecting = append(st.disconnecting, time.Since(start)); mu.Unlock() })
				s.OnDisconnect(func(reason sio.Reason) {
					mu.Lock()
					st.disconnects = append(st.disconnects, time.Since(start))
					st.reasons = append(st.reasons, reason)
					mu.Unlock()
				})
				s.OnEvent("x", func(i int, b Bin) {
					mu.Lock()
					if len(st.disconnects) > 0 {
						st.lateEvents++
					}
					mu.Unlock()
					s.Join(sio.Room(fmt.Sprintf("burst-%d", i%5))) // handlers change the membership while the connection may be ending
					if i%3 == 0 {
						s.Leave(sio.Room(fmt.Sprintf("burst-%d", (i+1)%5)))
					}
					s.Emit("y", i, b)
				})
				s.OnEvent("rt", func(ack func(string)) { ack("pong") })
				if mwDelay > 0 {
					time.Sleep(mwDelay)
				}
				return nil
			})
			nsp.OnConnection(func(s sio.ServerSocket) {
				mu.Lock()
				if st := socks[s.ID()]; st != nil {
					st.connHandler++
				}
				mu.Unlock()
				s.Join("room")
			})
		}
		if c.Transport == "upgrade" && c.Phase == "upgrade" {
			r.Net.SetOnFirstWrite(func(l *memnetLink, data []byte) {
				if strings.Contains(string(data), "Upgrade: websocket") {
					l.SetLatency(5 * time.Millisecond)
				}
			})
		}
		if c.Cause == "cut-at-byte" {
			prev := r.Net.GetOnDial()
			r.Net.SetOnDial(func(l *memnetLink) error {
				if l.ID == c.CutLink {
					l.CutAfter(c.CutDir == "c2s", int64(c.CutAt))
				}
				if prev != nil {
					return prev(l)
				}
				return nil
			})
		}
		m := r.manager(c01Transports(c.Transport), nil)
		var mgrEvents []string
		m.OnOpen(func() { mu.Lock(); mgrEvents = append(mgrEvents, fmt.Sprintf("open@%v", time.Since(start))); mu.Unlock() })
		m.OnClose(func(reason sio.Reason, err error) {
			mu.Lock()
			mgrEvents = append(mgrEvents, fmt.Sprintf("close:%s:%v@%v", reason, err, time.Since(start)))
			mu.Unlock()
		})
		m.OnError(func(err error) { mu.Lock(); mgrEvents = append(mgrEvents, fmt.Sprintf("error:%v@%v", err, time.Since(start))); mu.Unlock() })
		type cliState struct {
			s           sio.ClientSocket
			connects    int
			disconnects []sio.Reason
			gotY        int
			seq         []string // connect / disconnect events in order
		}
		clis := make([]*cliState, len(nsNames))
		for i, name := range nsNames {
			st := &cliState{}
			clis[i] = st
			s := m.Socket(name, nil)
			st.s = s
			s.OnConnect(func() {
				mu.Lock()
				st.connects++
				st.seq = append(st.seq, "connect")
				mu.Unlock()
				for k := 0; k < 3; k++ {
					s.Emit("x", k, Bin("0123456789"))
				}
			})
			s.OnEvent("y", func(i int, b Bin) { mu.Lock(); st.gotY++; mu.Unlock() })
			s.OnDisconnect(func(reason sio.Reason) {
				mu.Lock()
				st.disconnects = append(st.disconnects, reason)
				st.seq = append(st.seq, "disconnect:"+string(reason))
				mu.Unlock()
			})
		}
		for _, st := range clis {
			st.s.Connect()
		}
		apply := func(cause string) {
			switch cause {
			case "client-disconnect":
				clis[0].s.Disconnect()
			case "manager-close":
				m.Close()
			case "server-disconnect", "server-disconnect-close":
				mu.Lock()
				var target sio.ServerSocket
				for _, st := range socks {
					if st.nsp == "/" {
						target = st.sock
					}
				}
				mu.Unlock()
				if target != nil {
					target.Disconnect(cause == "server-disconnect-close")
				}
			case "disconnect-sockets":
				r.Server.Of("/").DisconnectSockets(false)
			case "disconnect-sockets-close":
				r.Server.Of("/").DisconnectSockets(true)
			case "server-close":
				r.Server.Close()
			case "cut":
				r.Net.SetRefuse(true)
				r.Net.CutAll()
			case "blackhole":
				r.Net.BlackholeAll(true, true)
			}
		}
		switch c.Phase {
		case "connecting":
			// the cause strikes while the Engine.IO / Socket.IO handshakes are still in progress
		case "middleware":
			time.Sleep(500 * time.Millisecond)
		case "joining":
			for i := 0; i < c.JoinAt; i++ {
				runtime.Gosched()
			}
		case "upgrade":
			time.Sleep(time.Duration(3+len(c.Cause)%6) * time.Millisecond)
		case "idle":
			settle(5 * time.Second)
		case "burst":
			settle(5 * time.Second)
			for _, st := range clis {
				st := st
				go func() {
					for k := 0; k < 40; k++ {
						st.s.Emit("x", 100+k, Bin("burst-burst"))
					}
				}()
			}
			mu.Lock()
			for _, st := range socks {
				st := st
				go func() {
					for k := 0; k < 40; k++ {
						st.sock.Emit("y", 200+k, Bin("burst-burst"))
					}
				}()
			}
			mu.Unlock()
		}
		if c.Cause != "cut-at-byte" && c.Cause != "none" {
			apply(c.Cause)
			if c.Cause2 != "" {
				apply(c.Cause2)
			}
		}
		tick()
		settle(25 * time.Second) // > pingInterval + pingTimeout + connectTimeout + the WebSocket library's close waits
		// A byte-offset cut that has not fired by now would only be triggered by the verdict's own traffic: disarm it (the case then counts as
		// "no fault happened"). Then wait until the picture is stable, so that the verdict does not race a connection that is just ending.
		r.Net.DisarmCuts()
		r.Net.SetOnDial(nil)
		for round := 0; round < 4; round++ {
			mu.Lock()
			before := 0
			for _, st := range socks {
				before += len(st.disconnects) + len(st.disconnecting) + st.connHandler
			}
			mu.Unlock()
			settle(6 * time.Second)
			mu.Lock()
			after := 0
			for _, st := range socks {
				after += len(st.disconnects) + len(st.disconnecting) + st.connHandler
			}
			mu.Unlock()
			if before == after {
				break
			}
		}
		for _, l := range r.Net.Links() {
			out.linkBytes = append(out.linkBytes, [2]int{len(l.RecC2S), len(l.RecS2C)})
		}

		// ---- verdict, before any teardown
		mu.Lock()
		states := make([]*c06Sock, 0, len(socks))
		for _, st := range socks {
			states = append(states, st)
		}
		sort.Slice(states, func(i, j int) bool { return states[i].nsp < states[j].nsp })
		mu.Unlock()
		listed := map[sio.SocketID]bool{}
		listedCount := 0
		for _, name := range nsNames {
			for _, s := range r.Server.Of(name).Sockets() {
				listed[s.ID()] = true
				listedCount++
			}
		}
		clientGone := c.Cause == "manager-close" || c.Cause2 == "manager-close"
		engineAliveHere := 0
		allowed := append([]sio.Reason{}, c06Allowed[c.Cause]...)
		allowed = append(allowed, c06Allowed[c.Cause2]...)
		for _, st := range states {
			mu.Lock()
			nDisc, nDing := len(st.disconnects), len(st.disconnecting)
			var reasons []sio.Reason
			reasons = append(reasons, st.reasons...)
			hadConnected := st.connHandler > 0 || nDisc > 0
			late := st.lateEvents
			var dAt, dingAt time.Duration
			if nDisc > 0 {
				dAt = st.disconnects[0]
			}
			if nDing > 0 {
				dingAt = st.disconnecting[0]
			}
			mu.Unlock()
			desc := fmt.Sprintf("server socket %s (namespace %s)", st.id, st.nsp)
			if nDisc > 1 {
				set(fail("reported-exactly-once", fmt.Sprintf("%s: the disconnect handler ran %d times (reasons %v)", desc, nDisc, reasons)))
				return
			}
			if nDisc == 0 {
				// admissible only if the socket is alive and functional, or never connected at all
				if !listed[st.id] && !hadConnected {
					continue // rejected by the connection ending before admission: never connected, nothing to report
				}
				if !listed[st.id] && hadConnected {
					set(fail("reported-exactly-once", fmt.Sprintf("%s had connected (connection handler ran), is no longer listed, but its disconnect handler never ran", desc)))
					return
				}
				// listed without a disconnect: it must be alive, i.e. its client is still there and answers
				ok := false
				if !clientGone {
					for i, name := range nsNames {
						if name == st.nsp && clis[i].s.Connected() && clis[i].s.ID() == st.id {
							done := false
							clis[i].s.Emit("rt", func(s string) { mu.Lock(); done = s == "pong"; mu.Unlock() })
							settle(2 * time.Second)
							mu.Lock()
							ok = done
							mu.Unlock()
						}
					}
				}
				if !ok && !clientGone {
					// The Engine.IO session may be alive and well although the Socket.IO socket does not answer: when the poll response that carried the
					// CONNECT reply is cut, net/http silently re-sends the (idempotent) GET on a new connection, the client never learns that it is
					// connected, and both ends keep exchanging heartbeats. That connection has not ended, so it is not this property's subject
					// (it is a message lost with a TCP connection). Recognised by: the server still knows the Engine.IO sid, the manager never closed.
					mu.Lock()
					closedSeen := false
					for _, e := range mgrEvents {
						closedSeen = closedSeen || strings.HasPrefix(e, "close:")
					}
					mu.Unlock()
					if !closedSeen {
						for _, l := range r.Net.Links() {
							if mm := sidRe.FindSubmatch(l.RecS2C); mm != nil && strings.Contains(string(l.RecS2C), `0{"sid":"`+string(mm[1])) {
								rec := httptest.NewRecorder()
								r.Server.ServeHTTP(rec, httptest.NewRequest("POST", "/socket.io/?EIO=4&transport=polling&sid="+string(mm[1]), strings.NewReader("2")))
								// 200: the session takes the packet. 400 with code 3 (bad request): the session exists but has moved to WebSocket.
								if rec.Code == 200 || strings.Contains(rec.Body.String(), `"code":3`) {
									ok = true
									c06EngineAlive++
									engineAliveHere++
								}
								break
							}
						}
					}
				}
				if !ok {
					if envStr("VERIF_DUMP_STACKS", "") != "" {
						buf := make([]byte, 1<<20)
						fmt.Printf("STACKS\n%s\n", buf[:runtime.Stack(buf, true)])
					}
					var cliDesc []string
					mu.Lock()
					for i, cs := range clis {
						cliDesc = append(cliDesc, fmt.Sprintf("%s: Connected()=%v id=%q connects=%d disconnects=%v", nsNames[i], cs.s.Connected(), cs.s.ID(), cs.connects, cs.disconnects))
					}
					ev := append([]string{}, mgrEvents...)
					mu.Unlock()
					mu.Lock()
					for _, o := range states {
						ev = append(ev, fmt.Sprintf("server socket %s nsp=%s connHandler=%d disconnecting=%v disconnects=%v reasons=%v listed=%v", o.id, o.nsp, o.connHandler, o.disconnecting, o.disconnects, o.reasons, listed[o.id]))
					}
					mu.Unlock()
					for _, l := range r.Net.Links() {
						ev = append(ev, fmt.Sprintf("link %d c2s=%d s2c=%d", l.ID, len(l.RecC2S), len(l.RecS2C)))
					}
					for _, l := range r.Net.Links() {
						if mm := sidRe.FindSubmatch(l.RecS2C); mm != nil {
							rec := httptest.NewRecorder()
							r.Server.ServeHTTP(rec, httptest.NewRequest("POST", "/socket.io/?EIO=4&transport=polling&sid="+string(mm[1]), strings.NewReader("2")))
							ev = append(ev, fmt.Sprintf("probe of Engine.IO sid %s: %d %s", mm[1], rec.Code, trunc(rec.Body.Bytes(), 60)))
							break
						}
					}
					set(fail("no-zombie", fmt.Sprintf("%s is still listed in its namespace (Connected()=%v, rooms %v) %v after %s, its disconnect handler never ran, and no live client answers for it; client sockets: %v; manager events: %v",
						desc, st.sock.Connected(), st.sock.Rooms().ToSlice(), time.Since(start), c.class(), cliDesc, ev)))
					return
				}
				continue
			}
			// ended: everything below
			if nDing != 1 || dingAt > dAt {
				set(fail("disconnecting-before-disconnect", fmt.Sprintf("%s: disconnecting ran %d times (first at %v), disconnect at %v", desc, nDing, dingAt, dAt)))
				return
			}
			if c.Cause != "none" && len(allowed) > 0 {
				okReason := false
				// A socket that is not the direct target of a namespace-level cause (the other namespace of the connection), or any socket while
				// a burst is in flight, may also be ended by what the cause entails: packets still arriving for the namespace that was just
				// left make the server close the whole connection (C05), which the remaining sockets see as a forced close.
				if st.nsp != "/" || c.Phase == "burst" || c.Phase == "connecting" || c.Phase == "middleware" || c.Phase == "joining" || c.Phase == "upgrade" {
					allowed = append(allowed, sio.ReasonForcedClose, sio.ReasonForcedServerClose, sio.ReasonTransportClose, sio.ReasonTransportError, sio.ReasonClientNamespaceDisconnect)
				}
				for _, a := range allowed {
					okReason = okReason || a == reasons[0]
				}
				if !okReason {
					set(fail("reason-names-the-cause", fmt.Sprintf("%s: disconnect reason %q for cause %s; admissible: %v", desc, reasons[0], c.class(), allowed)))
					return
				}
			}
			if reasons[0] == "" {
				set(fail("reason-names-the-cause", desc+": empty disconnect reason"))
				return
			}
			if listed[st.id] {
				set(fail("leaves-nothing", desc+" reported its disconnect but is still listed in the namespace"))
				return
			}
			if n := st.sock.Rooms().Cardinality(); n != 0 {
				set(fail("leaves-nothing", fmt.Sprintf("%s reported its disconnect but is still in %d room(s) %v", desc, n, st.sock.Rooms().ToSlice())))
				return
			}
			if r.Server.Of(st.nsp).Adapter().Sockets(roomSet(nil)).Contains(st.id) {
				set(fail("leaves-nothing", desc+" reported its disconnect but the adapter still knows it"))
				return
			}
			// (Event handlers that were already dispatched - each packet on its own goroutine - may still run after the disconnect handler;
			// the statement does not forbid that, so it is only counted.)
			_ = late
		}
		// the number of sockets the server lists == the number of live client sockets
		live := 0
		for _, st := range clis {
			if st.s.Connected() && !clientGone {
				live++
			}
		}
		if listedCount > live+engineAliveHere {
			set(fail("no-zombie", fmt.Sprintf("the server lists %d socket(s), %d client socket(s) are connected", listedCount, live)))
			return
		}
		// client side: a socket that had connected and is no longer connected reported its disconnect exactly once
		for i, st := range clis {
			mu.Lock()
			seq := append([]string{}, st.seq...)
			mu.Unlock()
			// Handlers of different occurrences run on different goroutines, so their ORDER of execution is not reliable; counts are:
			// every connection that was reported (connect) has its end reported (when the socket is no longer connected), and there are
			// never more disconnect reports than ends that actually happened (one per close of the manager, plus one namespace-level disconnect).
			nConnect, nDisconnect := 0, 0
			for _, e := range seq {
				if e == "connect" {
					nConnect++
				} else {
					nDisconnect++
				}
			}
			mu.Lock()
			mgrCloses := 0
			for _, e := range mgrEvents {
				if strings.HasPrefix(e, "close:") {
					mgrCloses++
				}
			}
			mu.Unlock()
			if !st.s.Connected() && nDisconnect < nConnect {
				set(fail("client-reported-exactly-once", fmt.Sprintf("client socket %s: events %v, Connected()=%v: %d connect report(s) but only %d disconnect report(s)", nsNames[i], seq, st.s.Connected(), nConnect, nDisconnect)))
				return
			}
			if nDisconnect > mgrCloses+1 {
				set(fail("client-reported-exactly-once", fmt.Sprintf("client socket %s: events %v: %d disconnect reports for %d close(s) of the manager", nsNames[i], seq, nDisconnect, mgrCloses)))
				return
			}
			// (A disconnect reported by a socket that never connected - Disconnect() while the CONNECT is pending - is outside the statement,
			// which speaks of sockets that had connected.)
		}
		// the Engine.IO session id of an ended connection is unknown to the server
		if live == 0 && engineAliveHere == 0 && c.Cause != "server-close" && c.Cause2 != "server-close" {
			for _, l := range r.Net.Links() {
				if mm := sidRe.FindSubmatch(l.RecS2C); mm != nil && strings.Contains(string(l.RecS2C), `0{"sid":"`+string(mm[1])) {
					rec := httptest.NewRecorder()
					r.Server.ServeHTTP(rec, httptest.NewRequest("GET", "/socket.io/?EIO=4&transport=polling&sid="+string(mm[1]), nil))
					if rec.Code != 400 || !strings.Contains(rec.Body.String(), `"code":1`) {
						set(fail("session-id-unknown", fmt.Sprintf("every socket ended, yet a poll with the old Engine.IO session id %s answers %d %q", mm[1], rec.Code, trunc(rec.Body.Bytes(), 80))))
						return
					}
					break
				}
			}
		}
	})
	if res == nil && msg != "" && !isBubbleDeadlock(msg) {
		res = fail("bubble-panic", "synctest: "+msg)
	}
	nontrivial = c.Phase == "middleware" || c.Phase == "burst" || c.Phase == "upgrade" || c.Phase == "connecting" || c.Phase == "joining" || c.Cause2 != "" || c.Cause == "cut-at-byte"
	return res, nontrivial, out
}

var c06EngineAlive int64

var c06Causes = []string{"client-disconnect", "manager-close", "server-disconnect", "server-disconnect-close", "disconnect-sockets", "disconnect-sockets-close", "server-close", "cut", "blackhole"}

func TestC06_CausesByPhases(t *testing.T) {
	setT(t)
	defer startWatchdog(t, 90*time.Second)()
	ev := NewEv(t, "C06", c06Check, "rapid over termination cause {client Disconnect, Manager.Close, server Disconnect(false|true), DisconnectSockets(false|true), Server.Close, cut, black-hole} x phase {while "+
		"connecting, while a namespace middleware runs, while a socket joins its first rooms through a slow adapter, connected idle, inside a burst both ways, during the upgrade} x transport x 1-2 namespaces x optional second cause at the same instant x optionally one "+
		"asynchronous lifecycle-handler dispatch held back for 1 / 50 / 700 ms (yield hook); verdict taken "+
		"before teardown, 25 virtual seconds after the cause: per server socket either alive (listed and its client answers an ack round trip) or ended (disconnect handler exactly once, disconnecting "+
		"before it, reason admissible for the cause, not listed, in no room, unknown to the adapter); listed sockets <= live clients; client sockets report once; old Engine.IO "+
		"sid answers 400 code 1; non-trivial = cause during connect / middleware / burst / upgrade, or two causes at once")
	rapidGuard(t, "C06", c06Check)
	runRapid(t, c06Check, tierN(8000, 80000), func(t *rapid.T) {
		c := c06Case{Transport: rapid.SampledFrom([]string{"polling", "websocket", "upgrade"}).Draw(t, "transport"), Namespaces: rapid.IntRange(1, 2).Draw(t, "namespaces"),
			Cause: rapid.SampledFrom(c06Causes).Draw(t, "cause"), Phase: rapid.SampledFrom([]string{"connecting", "middleware", "idle", "burst", "upgrade", "joining"}).Draw(t, "phase")}
		if c.Phase == "upgrade" {
			c.Transport = "upgrade"
		}
		if c.Phase == "joining" {
			c.SlowJoin = rapid.SampledFrom([]int{50, 400}).Draw(t, "slowJoin")
			c.JoinAt = rapid.IntRange(0, 1200).Draw(t, "joinAt")
		}
		if rapid.IntRange(0, 3).Draw(t, "two") == 0 {
			c.Cause2 = rapid.SampledFrom(c06Causes).Draw(t, "cause2")
			if c.Cause2 == c.Cause {
				c.Cause2 = ""
			}
		}
		if rapid.IntRange(0, 2).Draw(t, "hold") == 0 {
			c.HoldDispatch = rapid.IntRange(1, 24).Draw(t, "holdDispatch")
			c.HoldMs = rapid.SampledFrom([]int{1, 50, 700}).Draw(t, "holdMs")
		}
		if c.Phase == "joining" {
			// a black hole during the handshake keeps mutexes for as long as the handshake hangs (see below); it is exercised in the other phases
			if c.Cause == "blackhole" {
				c.Cause = "server-close"
			}
			if c.Cause2 == "blackhole" {
				c.Cause2 = ""
			}
		}
		if c.Phase == "connecting" && (c.Cause == "blackhole" || c.Cause2 == "blackhole") {
			// a black-holed dial keeps Manager.connectMu for as long as the dial hangs; a second socket's pending open then waits for that
			// mutex, which freezes virtual time (DESIGN.md §2.2): one namespace only in this combination
			c.Namespaces = 1
		}
		f, nt, _ := evalC06(c)
		ev.Case(c, nt, c.Phase, c.Cause)
		if nt {
			ev.Sample(c.Phase+c.Cause, c)
		}
		if f != nil {
			FailRapid(t, *f)
		}
	})
}

// ---- fault enumeration: cut at every k-th byte ---------------------------------------------------------------------------

const c06CheckCut = "c06-cut-enumeration"

func TestC06_CutEveryByte(t *testing.T) {
	setT(t)
	defer startWatchdog(t, 90*time.Second)()
	stride := tierV(7, 1)
	ev := NewEv(t, "C06", c06CheckCut, fmt.Sprintf("fault enumeration: a scripted session (connect 1-2 namespaces, 3 binary echo events per namespace, optional upgrade) is first run uncut to learn the byte length "+
		"of every connection in each direction, then re-run with the stream cut at every %d-th byte offset of every connection in either direction; same verdict as c06-lifecycle; "+
		"non-trivial = every cut case", stride))
	ev.Exhaustive()
	reported := map[string]bool{}
	idx := 0
	for _, tr := range []string{"websocket", "polling", "upgrade"} {
		for _, nn := range []int{1, 2} {
			_, _, base := evalC06(c06Case{Transport: tr, Namespaces: nn, Cause: "none", Phase: "idle"})
			for li, lb := range base.linkBytes {
				for dir := 0; dir < 2; dir++ {
					for k := 0; k <= lb[dir]; k += stride {
						idx++
						if !mine(idx) {
							continue
						}
						c := c06Case{Transport: tr, Namespaces: nn, Cause: "cut-at-byte", Phase: "idle", CutLink: li, CutDir: []string{"c2s", "s2c"}[dir], CutAt: k}
						f, _, _ := evalC06(c)
						ev.Case(c, true, tr)
						if k == 0 || k+stride > lb[dir] {
							ev.Sample(fmt.Sprint(tr, li, dir, k == 0), c)
						}
						if f != nil {
							f.Check = c06CheckCut
							if !reported[f.Sig()] {
								reported[f.Sig()] = true
								Report(t, *f)
							}
						}
					}
				}
			}
		}
	}
	ev.Class("alive-at-engine.io-level-but-connect-reply-lost-with-a-cut-poll-response", c06EngineAlive)
}

func init() {
	_ = c06EngineAlive
	registerReplay(c06Check, func(raw json.RawMessage) *Failure {
		f, _, _ := evalC06(decodeCase[c06Case](raw))
		return f
	})
	registerReplay(c06CheckCut, func(raw json.RawMessage) *Failure {
		f, _, _ := evalC06(decodeCase[c06Case](raw))
		return f
	})
}
