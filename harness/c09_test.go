package harness

// C09 — Socket.IO encoding round-trips, matches the v5 format, leaves its input intact. See DESIGN.md §3 C09.

import (
	"bytes"
	"encoding/json"
	"fmt"
	"reflect"
	"strings"
	"testing"
	"unicode/utf8"

	"github.com/karagenc/socket.io-go/parser"
	jsonparser "github.com/karagenc/socket.io-go/parser/json"
	"github.com/karagenc/socket.io-go/parser/json/serializer/stdjson"
	"pgregory.net/rapid"

	"verif/harness/refcodec"
)

const c09Check = "c09-roundtrip"

type c09Case struct {
	Type  int      `json:"type"` // 0 CONNECT 1 DISCONNECT 2 EVENT 3 ACK 4 CONNECT_ERROR (5/6 are reached by promotion)
	Nsp   string   `json:"nsp"`
	HasID bool     `json:"has_id"`
	ID    uint64   `json:"id"`
	Event string   `json:"event"`
	Args  []valArg `json:"args"`
}

func newSIOParser() parser.Parser { return jsonparser.NewCreator(0, stdjson.New())() }

// c09Class buckets a case for known-finding signatures.
func c09Class(c c09Case, trees []refcodec.Tree) string {
	var cls []string
	if strings.HasSuffix(c.Event, "\\") && (c.Type == 2) {
		cls = append(cls, "event-name-trailing-backslash")
	}
	bins, dynBin := 0, false
	for i, t := range trees {
		bins += t.CountBin()
		if sh := shapeByName(c.Args[i].Shape); sh != nil && sh.Dynamic && t.CountBin() > 0 {
			dynBin = true
		}
	}
	if bins > 0 {
		cls = append(cls, "binary")
	}
	if dynBin {
		cls = append(cls, "binary-in-dynamic")
	}
	if len(cls) == 0 {
		return "plain"
	}
	return strings.Join(cls, ",")
}

func c09Nontrivial(c c09Case, trees []refcodec.Tree) bool {
	bins, deep := 0, false
	for _, t := range trees {
		bins += t.CountBin()
		if t.MaxBinDepth() >= 2 {
			deep = true
		}
	}
	return deep || bins >= 3 || strings.ContainsAny(c.Event, "\"\\") || (c.HasID && c.ID > 1<<53)
}

// evalC09 checks the three clauses on one case.
func evalC09(c c09Case) *Failure {
	// Materialise the caller's values and take an independent snapshot (as trees) before encoding.
	callerArgs := make([]any, len(c.Args))
	trees := make([]refcodec.Tree, len(c.Args))
	types := make([]reflect.Type, len(c.Args))
	for i, a := range c.Args {
		callerArgs[i] = a.value()
		trees[i] = a.Tree
		types[i] = shapeByName(a.Shape).Type
	}
	class := c09Class(c, trees)
	fail := func(clause, detail string) *Failure {
		return &Failure{Property: "C09", Check: c09Check, Clause: clause, Class: class, Detail: detail, Case: c}
	}
	totalBins := 0
	for _, t := range trees {
		totalBins += t.CountBin()
	}

	encode := func() (frames [][]byte, hdr *parser.PacketHeader, err error, pmsg string) {
		hdr = &parser.PacketHeader{Type: parser.PacketType(c.Type), Namespace: c.Nsp}
		if c.HasID {
			id := c.ID
			hdr.ID = &id
		}
		var v any
		switch c.Type {
		case 2:
			w := make([]any, 0, len(callerArgs)+2)
			w = append(w, c.Event)
			w = append(w, callerArgs...)
			v = &w
		case 3:
			w := append(make([]any, 0, len(callerArgs)), callerArgs...)
			v = &w
		case 0, 4:
			if len(callerArgs) == 1 {
				m := callerArgs[0].(map[string]any) // control packets carry one object; Encode wants a pointer
				v = &m
			}
		}
		pmsg, _ = catchPanic(func() { frames, err = newSIOParser().Encode(hdr, v) })
		return
	}

	frames, hdr, err, pmsg := encode()
	if pmsg != "" {
		return fail("no-panic", "Encode panicked: "+pmsg)
	}
	if err != nil {
		return fail("encode-ok", "Encode of an accepted value failed: "+err.Error())
	}
	if len(frames) == 0 {
		return fail("encode-ok", "Encode returned no frame")
	}

	// (b) conformance with the v5 format.
	wantBinary := totalBins > 0 && (c.Type == 2 || c.Type == 3)
	wantType := c.Type
	if wantBinary {
		wantType += 3
	}
	wantPrefix := refcodec.EncodeSIOHeader(wantType, totalBins, c.Nsp, c.HasID, c.ID)
	if !bytes.HasPrefix(frames[0], wantPrefix) {
		return fail("conformance-header", fmt.Sprintf("text frame %q… does not start with the v5 header %q", trunc(frames[0], 60), wantPrefix))
	}
	if int(hdr.Type) != wantType {
		return fail("conformance-header", fmt.Sprintf("header type after Encode is %d, want %d", hdr.Type, wantType))
	}
	wantFrames := 1
	if wantBinary {
		wantFrames += totalBins
	}
	if len(frames) != wantFrames {
		return fail("conformance-attachments", fmt.Sprintf("%d frames produced, want %d (1 + %d attachments)", len(frames), wantFrames, totalBins))
	}
	jsonPart := frames[0][len(wantPrefix):]
	var expected *refcodec.Tree
	switch c.Type {
	case 2:
		t := refcodec.Tree{Kind: "arr", Arr: append([]refcodec.Tree{{Kind: "str", Str: c.Event}}, trees...)}
		expected = &t
	case 3:
		t := refcodec.Tree{Kind: "arr", Arr: append([]refcodec.Tree{}, trees...)}
		expected = &t
	case 0, 4:
		if len(trees) == 1 {
			expected = &trees[0]
		}
	}
	if expected == nil {
		if len(jsonPart) != 0 {
			return fail("conformance-payload", fmt.Sprintf("packet without payload carries %q", trunc(jsonPart, 40)))
		}
	} else {
		wire, err := refcodec.ParseJSONTree(jsonPart)
		if err != nil {
			return fail("conformance-payload", fmt.Sprintf("JSON part %q… is not valid JSON: %v", trunc(jsonPart, 60), err))
		}
		used := make([]int, len(frames)-1)
		resolved, err := wire.ResolvePlaceholders(frames[1:], used)
		if err != nil {
			return fail("conformance-placeholders", err.Error())
		}
		for k, u := range used {
			if u != 1 {
				return fail("conformance-placeholders", fmt.Sprintf("attachment %d is referenced %d times in %q", k, u, trunc(jsonPart, 80)))
			}
		}
		if d := treeDiff(*expected, resolved, "$"); d != "" {
			return fail("conformance-payload", "payload on the wire differs from the value given to Encode at "+d)
		}
	}

	// (c) the caller's values are unchanged, and encoding them again gives the same packet.
	for i := range callerArgs {
		if d := treeDiff(trees[i], toTree(callerArgs[i]), fmt.Sprintf("$arg%d", i)); d != "" {
			return fail("input-intact", "Encode changed the caller's value at "+d)
		}
	}
	frames2, _, err2, pmsg2 := encode()
	if pmsg2 != "" || err2 != nil {
		return fail("encode-again", fmt.Sprintf("second Encode of the same values failed: %v %s", err2, pmsg2))
	}
	p1, e1 := refcodec.DecodeSIOPacket(frames)
	p2, e2 := refcodec.DecodeSIOPacket(frames2)
	if e1 != nil || e2 != nil {
		return fail("encode-again", fmt.Sprintf("reference decoder rejects the frames: %v / %v", e1, e2))
	}
	if (p1.Payload == nil) != (p2.Payload == nil) || (p1.Payload != nil && treeDiff(*p1.Payload, *p2.Payload, "$") != "") || len(frames) != len(frames2) {
		return fail("encode-again", "encoding the same values a second time yields a different packet")
	}

	// (a) round trip through a fresh decoder, frame by frame.
	p := newSIOParser()
	finished := 0
	var gotHeader *parser.PacketHeader
	var gotEvent string
	var decode parser.Decode
	for i, fr := range frames {
		var aerr error
		if msg, _ := catchPanic(func() {
			aerr = p.Add(fr, func(h *parser.PacketHeader, ev string, d parser.Decode) {
				finished++
				gotHeader, gotEvent, decode = h, ev, d
			})
		}); msg != "" {
			return fail("no-panic", fmt.Sprintf("Add(frame %d) panicked: %s", i, msg))
		}
		if aerr != nil {
			return fail("round-trip-accept", fmt.Sprintf("Add(frame %d = %q…) of an encoded packet failed: %v", i, trunc(fr, 60), aerr))
		}
		if i < len(frames)-1 && finished != 0 {
			return fail("round-trip-finish", fmt.Sprintf("finish fired after frame %d of %d", i+1, len(frames)))
		}
	}
	if finished != 1 {
		return fail("round-trip-finish", fmt.Sprintf("finish fired %d times for one packet", finished))
	}
	if int(gotHeader.Type) != wantType {
		return fail("round-trip-header", fmt.Sprintf("decoded type %d, want %d", gotHeader.Type, wantType))
	}
	gn, wn := gotHeader.Namespace, c.Nsp
	if gn == "" {
		gn = "/"
	}
	if wn == "" {
		wn = "/"
	}
	if gn != wn {
		return fail("round-trip-header", fmt.Sprintf("decoded namespace %q, want %q", gn, wn))
	}
	if (gotHeader.ID != nil) != c.HasID || (c.HasID && *gotHeader.ID != c.ID) {
		return fail("round-trip-header", fmt.Sprintf("decoded ack id %v, want %v/%d", gotHeader.ID, c.HasID, c.ID))
	}
	if wantBinary && gotHeader.Attachments != totalBins {
		return fail("round-trip-header", fmt.Sprintf("decoded attachment count %d, want %d", gotHeader.Attachments, totalBins))
	}
	if c.Type == 2 && gotEvent != c.Event {
		return fail("round-trip-event-name", fmt.Sprintf("decoded event name %q, want %q", gotEvent, c.Event))
	}
	if c.Type == 1 || ((c.Type == 0 || c.Type == 4) && len(c.Args) == 0) {
		return nil
	}
	for round := 0; round < 2; round++ { // decoding twice must give the same (the library relies on it)
		var values []reflect.Value
		var derr error
		if msg, _ := catchPanic(func() { values, derr = decode(types...) }); msg != "" {
			return fail("no-panic", "decode panicked: "+msg)
		}
		if derr != nil {
			return fail("round-trip-decode", fmt.Sprintf("decode(%v) of an encoded packet failed: %v", types, derr))
		}
		if len(values) != len(types) {
			return fail("round-trip-decode", fmt.Sprintf("decode returned %d values for %d types", len(values), len(types)))
		}
		for i, v := range values {
			got := v
			if types[i].Kind() != reflect.Ptr && v.Kind() == reflect.Ptr {
				got = v.Elem()
			}
			if d := treeDiff(trees[i], valueTree(got), fmt.Sprintf("$arg%d", i)); d != "" {
				return fail("round-trip-value", fmt.Sprintf("decoded argument differs from the encoded one (decode #%d) at %s", round+1, d))
			}
		}
	}
	return nil
}

// ---- generator -----------------------------------------------------------------------------------------

func genNamespace(t *rapid.T) string {
	switch rapid.IntRange(0, 4).Draw(t, "nspkind") {
	case 0:
		return "/"
	case 1:
		return ""
	case 2:
		return rapid.SampledFrom([]string{"/a", "/chat", "/0", "/12", "/a/b", "/a b", "/ä", "/a\"", "/A", "/[", "/a-1", "/1-2", "/\\", "/日本", "/{}"}).Draw(t, "nsp")
	default:
		s := rapid.StringN(0, 8, -1).Draw(t, "nsptail")
		s = strings.ReplaceAll(s, ",", "_")
		return "/" + s
	}
}

func genEventName(t *rapid.T) string {
	switch rapid.IntRange(0, 3).Draw(t, "evkind") {
	case 0:
		return rapid.SampledFrom([]string{"a", "message", "a\\", "\\", "\"", "a\"b", "a\\\"", "\\\\", "e\\\\", "é", "a b", "", "a\nb", " ", "<>&", "[\"x\"]", "\"]", "x\",\"y", "\\u0041"}).Draw(t, "ev")
	case 1:
		return rapid.StringN(0, 10, -1).Draw(t, "evuni")
	default:
		return rapid.StringMatching(`[a-z:_\-]{1,8}`).Draw(t, "evascii")
	}
}

func genC09Args(t *rapid.T, maxArgs int, allowDynamic bool, g *valGen) []valArg {
	n := rapid.IntRange(0, maxArgs).Draw(t, "nargs")
	args := make([]valArg, 0, n)
	for i := 0; i < n; i++ {
		sh := shapes[rapid.IntRange(0, len(shapes)-1).Draw(t, fmt.Sprintf("shape%d", i))]
		if sh.Dynamic && !allowDynamic {
			sh = shapes[0]
		}
		v := sh.Gen(t, g)
		args = append(args, valArg{Shape: sh.Name, Tree: toTree(v)})
	}
	return args
}

func genC09Case(t *rapid.T) c09Case {
	c := c09Case{Nsp: genNamespace(t)}
	c.Type = rapid.SampledFrom([]int{2, 2, 2, 2, 3, 3, 0, 1, 4}).Draw(t, "type")
	g := &valGen{maxBin: 64, allowBin: true, maxBins: 6}
	switch c.Type {
	case 2:
		c.Event = genEventName(t)
		if !utf8.ValidString(c.Event) {
			c.Event = "e"
		}
		c.HasID = rapid.Bool().Draw(t, "hasid")
		c.Args = genC09Args(t, 5, true, g)
	case 3:
		c.HasID = true
		c.Args = genC09Args(t, 4, true, g)
	case 0:
		if rapid.Bool().Draw(t, "withauth") {
			m := map[string]any{}
			for i, n := 0, rapid.IntRange(0, 3).Draw(t, "authn"); i < n; i++ {
				m[rapid.SampledFrom([]string{"token", "sid", "pid", "offset", "x"}).Draw(t, "authk")] = genString(t, g)
			}
			c.Args = []valArg{{Shape: "mapany", Tree: toTree(m)}}
		}
	case 4:
		m := map[string]any{"message": genString(t, g)}
		c.Args = []valArg{{Shape: "mapany", Tree: toTree(m)}}
	}
	if c.HasID {
		if rapid.Bool().Draw(t, "idedge") {
			c.ID = rapid.SampledFrom([]uint64{0, 1, 9, 10, 1<<53 - 1, 1 << 53, 1<<53 + 1, 1<<63 - 1, 1 << 63, 1<<64 - 1}).Draw(t, "id")
		} else {
			c.ID = rapid.Uint64().Draw(t, "id")
		}
	}
	return c
}

func c09Trees(c c09Case) []refcodec.Tree {
	ts := make([]refcodec.Tree, len(c.Args))
	for i, a := range c.Args {
		ts[i] = a.Tree
	}
	return ts
}

func TestC09_RoundTrip(t *testing.T) {
	ev := NewEv(t, "C09", c09Check, "rapid: packet type (0-4, binary types by promotion), namespace, ack id over full uint64, event name = any valid UTF-8 (quotes, "+
		"backslashes, control chars), 0..5 arguments from a library of 16 Go shapes (scalars, slices, structs/pointers with tags, map[string]Binary, map[string]any, "+
		"[]any, any; Binary leaves at depth 0..4); oracle: round trip through a fresh Parser.Add + type-directed decode (twice), conformance with an independent "+
		"v5 reference (header bytes, JSON value, placeholder k <-> frame k+1 <-> Binary at that path), input intact + same packet on re-encode; "+
		"non-trivial = Binary at depth >= 2, or >= 3 attachments, or event name containing a quote or backslash, or ack id > 2^53")
	rapidGuard(t, "C09", c09Check)
	runRapid(t, c09Check, tierN(20000, 1600000), func(t *rapid.T) {
		c := genC09Case(t)
		trees := c09Trees(c)
		nt := c09Nontrivial(c, trees)
		cls := c09Class(c, trees)
		ev.Case(c, nt, "type="+fmt.Sprint(c.Type), cls)
		if nt {
			ev.Sample(cls, sampleOf(c))
		}
		if f := evalC09(c); f != nil {
			FailRapid(t, *f)
		}
	})
}

// ---- streams: several packets through ONE decoder, decoded later ------------------------------------------------------
//
// The client and the server hand the decode closure of a completed packet to another goroutine, so packet N is routinely
// decoded after the frames of packet N+1.. have been fed to the same Parser.

const c09CheckStream = "c09-stream"

type c09StreamCase struct {
	Packets []c09Case `json:"packets"`
	Order   []int     `json:"order"` // order in which the completed packets are decoded
}

func evalC09Stream(sc c09StreamCase) *Failure {
	fail := func(clause, detail string) *Failure {
		return &Failure{Property: "C09", Check: c09CheckStream, Clause: clause, Class: fmt.Sprintf("packets=%d", len(sc.Packets)), Detail: detail, Case: sc}
	}
	p := newSIOParser()
	type done struct {
		decode parser.Decode
		event  string
		header *parser.PacketHeader
	}
	var completed []done
	for pi, c := range sc.Packets {
		hdr := &parser.PacketHeader{Type: parser.PacketType(c.Type), Namespace: c.Nsp}
		if c.HasID {
			id := c.ID
			hdr.ID = &id
		}
		args := make([]any, 0, len(c.Args)+1)
		if c.Type == 2 {
			args = append(args, c.Event)
		}
		for _, a := range c.Args {
			args = append(args, a.value())
		}
		frames, err := newSIOParser().Encode(hdr, &args)
		if err != nil {
			return fail("encode-ok", fmt.Sprintf("packet %d: %v", pi, err))
		}
		before := len(completed)
		for fi, fr := range frames {
			var aerr error
			if msg, _ := catchPanic(func() {
				aerr = p.Add(fr, func(h *parser.PacketHeader, ev string, d parser.Decode) { completed = append(completed, done{d, ev, h}) })
			}); msg != "" {
				return fail("no-panic", fmt.Sprintf("Add(packet %d frame %d) panicked: %s", pi, fi, msg))
			}
			if aerr != nil {
				return fail("round-trip-accept", fmt.Sprintf("packet %d frame %d rejected: %v", pi, fi, aerr))
			}
		}
		if len(completed) != before+1 {
			return fail("round-trip-finish", fmt.Sprintf("feeding packet %d completed %d packets", pi, len(completed)-before))
		}
	}
	for _, pi := range sc.Order {
		c, d := sc.Packets[pi], completed[pi]
		if c.Type == 2 && d.event != c.Event {
			return fail("round-trip-event-name", fmt.Sprintf("packet %d: event %q, want %q", pi, d.event, c.Event))
		}
		types := make([]reflect.Type, len(c.Args))
		for i, a := range c.Args {
			types[i] = shapeByName(a.Shape).Type
		}
		var values []reflect.Value
		var derr error
		if msg, _ := catchPanic(func() { values, derr = d.decode(types...) }); msg != "" {
			return fail("no-panic", fmt.Sprintf("decode of packet %d panicked: %s", pi, msg))
		}
		if derr != nil {
			return fail("round-trip-decode", fmt.Sprintf("packet %d decoded after later packets were fed: %v", pi, derr))
		}
		if len(values) != len(types) {
			return fail("round-trip-decode", fmt.Sprintf("packet %d: %d values for %d types", pi, len(values), len(types)))
		}
		for i, v := range values {
			got := v
			if types[i].Kind() != reflect.Ptr && v.Kind() == reflect.Ptr {
				got = v.Elem()
			}
			if df := treeDiff(c.Args[i].Tree, valueTree(got), fmt.Sprintf("$packet%d.arg%d", pi, i)); df != "" {
				return fail("round-trip-value", "a packet decoded after later packets went through the same decoder differs from what was encoded at "+df)
			}
		}
	}
	return nil
}

func TestC09_Stream(t *testing.T) {
	ev := NewEv(t, "C09", c09CheckStream, "rapid: 2..5 event/ack packets (same generator) fed frame by frame through ONE Parser, their decode closures called afterwards in a drawn order "+
		"(as the client/server do on other goroutines); oracle: every packet decodes to what was encoded; non-trivial = >= 2 binary packets in the stream")
	rapidGuard(t, "C09", c09CheckStream)
	runRapid(t, c09CheckStream, tierN(6000, 300000), func(t *rapid.T) {
		n := rapid.IntRange(2, 5).Draw(t, "packets")
		sc := c09StreamCase{}
		bin := 0
		for i := 0; i < n; i++ {
			c := genC09Case(t)
			if c.Type != 2 && c.Type != 3 {
				c.Type, c.Event, c.Args = 2, "e", nil
			}
			sc.Packets = append(sc.Packets, c)
			for _, tr := range c09Trees(c) {
				if tr.CountBin() > 0 {
					bin++
					break
				}
			}
		}
		sc.Order = rapid.Permutation(seq(n)).Draw(t, "order")
		ev.Case(sc, bin >= 2, fmt.Sprintf("binary-packets=%d", min(bin, 3)))
		if bin >= 2 {
			ev.Sample(fmt.Sprint(n), sampleOf(sc))
		}
		if f := evalC09Stream(sc); f != nil {
			FailRapid(t, *f)
		}
	})
}

func seq(n int) []int {
	s := make([]int, n)
	for i := range s {
		s[i] = i
	}
	return s
}

func init() {
	registerReplay(c09Check, func(raw json.RawMessage) *Failure { return evalC09(decodeCase[c09Case](raw)) })
	registerReplay(c09CheckStream, func(raw json.RawMessage) *Failure { return evalC09Stream(decodeCase[c09StreamCase](raw)) })
}
