package harness

// C10 (process level) — whatever frames a peer sends, the error is reported (connection closed or error handlers invoked) while the
// process, its other connections and later connections keep working. DESIGN.md §3 C10. Two legs on the virtual-time network:
// a hostile hand-written client against the real server, and a hostile hand-written server against the real client (Manager).
// The parser-level check (c10_test.go) decides what the decoder does with the bytes; this one decides what the connection does with
// the decoder's verdict. A fresh parser of the repository, fed the same frames, predicts that verdict.

import (
	"encoding/json"
	"fmt"
	"net/http"
	"strings"
	"sync"
	"testing"
	"time"

	sio "github.com/karagenc/socket.io-go"
	eio "github.com/karagenc/socket.io-go/engine.io"
	eioparser "github.com/karagenc/socket.io-go/engine.io/parser"
	"github.com/karagenc/socket.io-go/parser"
	"nhooyr.io/websocket"
	"pgregory.net/rapid"

	"verif/harness/memnet"
)

const c10pCheck = "c10-process"

type c10pFrame struct {
	Data   string `json:"data"`
	Binary bool   `json:"binary"`
}

type c10pCase struct {
	Leg       string      `json:"leg"` // hostile-client | hostile-server
	Transport string      `json:"transport"`
	Frames    []c10pFrame `json:"frames"`
}

// handler families under the event names f0..f9 (same on both sides)
func c10pRegister(on func(event string, handler any), hit func(string)) {
	on("f0", func(b Bin) { hit("f0") })
	on("f1", func(m map[string]any) { hit("f1") })
	on("f2", func(a any) { hit("f2") })
	on("f3", func(v vInner) { hit("f3") })
	on("f4", func(v *vOuter) { hit("f4") })
	on("f5", func() { hit("f5") })
	on("f6", func(s string, b Bin) { hit("f6") })
	on("f7", func(a []any) { hit("f7") })
	on("f8", func(m map[string]Bin) { hit("f8") })
	on("f9", func(b []Bin) { hit("f9") })
}

// c10pPredict feeds the frames to a fresh parser of the repository: header-level verdict per frame, and for every completed EVENT
// packet of a family event whether decoding into the handler's types fails.
type c10pPrediction struct {
	addErrAt    int // index of the first frame Add rejects (-1 none)
	addErr      string
	decodeErrs  int  // completed family events whose decode fails
	control     bool // a completed packet is not a plain event/ack of "/" (CONNECT, DISCONNECT, CONNECT_ERROR, other namespace)
	idle        bool // after the last frame the parser is not waiting for attachments
	panicked    string
	completed   int
	familyEvent bool
}

func c10pPredict(frames []c10pFrame) c10pPrediction {
	pr := c10pPrediction{addErrAt: -1, idle: true}
	p := newSIOParser()
	famTypes := map[string]int{}
	for i := range c10Families {
		famTypes[fmt.Sprintf("f%d", i)] = i
	}
	msg, _ := catchPanic(func() {
		for i, fr := range frames {
			finished := false
			err := p.Add([]byte(fr.Data), func(h *parser.PacketHeader, ev string, d parser.Decode) {
				finished = true
				pr.completed++
				if h.Namespace != "" && h.Namespace != "/" {
					pr.control = true
				}
				switch h.Type {
				case parser.PacketTypeEvent, parser.PacketTypeBinaryEvent:
					if k, ok := famTypes[ev]; ok {
						pr.familyEvent = true
						if _, err := d(c10Families[k].Types...); err != nil {
							pr.decodeErrs++
						}
					}
				case parser.PacketTypeAck, parser.PacketTypeBinaryAck:
				default:
					pr.control = true
				}
			})
			if err != nil {
				pr.addErrAt, pr.addErr = i, err.Error()
				return
			}
			pr.idle = finished
		}
	})
	pr.panicked = msg
	return pr
}

func (c c10pCase) class(pr c10pPrediction) string {
	switch {
	case pr.addErrAt >= 0:
		return c.Leg + ",header-error"
	case pr.decodeErrs > 0:
		return c.Leg + ",decode-error"
	case pr.control:
		return c.Leg + ",control-packet"
	}
	return c.Leg + ",accepted"
}

func evalC10p(c c10pCase) (f *Failure, nontrivial bool) {
	pr := c10pPredict(c.Frames)
	class := c.class(pr)
	fail := func(clause, detail string) *Failure {
		return &Failure{Property: "C10", Check: c10pCheck, Clause: clause, Class: class, Detail: detail, Case: c}
	}
	if pr.panicked != "" {
		return nil, false // the parser-level check reports panics of the decoder itself
	}
	journal(c10pCheck, class, c)
	var res *Failure
	var msg string
	if c.Leg == "hostile-client" {
		msg = runRig(rigOpts{}, func(r *rig) { res = c10pHostileClient(c, pr, r, fail) })
	} else {
		withHooks(hookSet{}, func() { msg = inBubble(curT, func() { res = c10pHostileServer(c, pr, fail) }) })
	}
	if res == nil && msg != "" && !isBubbleDeadlock(msg) {
		res = fail("bubble-panic", "synctest: "+msg)
	}
	return res, pr.addErrAt >= 0 || pr.decodeErrs > 0
}

func c10pHostileClient(c c10pCase, pr c10pPrediction, r *rig, fail func(string, string) *Failure) *Failure {
	var mu sync.Mutex
	hits := map[string]int{}
	var sockErrs []string
	var hostileSock sio.ServerSocket
	r.Server.Use(func(s sio.ServerSocket, h *sio.Handshake) any {
		if string(h.Auth) == `{"hostile":true}` {
			mu.Lock()
			hostileSock = s
			mu.Unlock()
		}
		c10pRegister(s.OnEvent, func(e string) { mu.Lock(); hits[e]++; mu.Unlock() })
		s.OnEvent("rt", func(v int, ack func(int)) { ack(v) })
		s.OnError(func(err error) { mu.Lock(); sockErrs = append(sockErrs, err.Error()); mu.Unlock() })
		return nil
	})
	healthy := r.manager(c01Transports(c.Transport), nil).Socket("/", nil)
	healthy.Connect()
	tr := &http.Transport{DialContext: r.Net.Dial}
	defer tr.CloseIdleConnections()
	closed := ""
	var inbound []string
	cli, err := eio.Dial("http://x/socket.io", &eio.Callbacks{
		OnPacket: func(ps ...*eioparser.Packet) {
			mu.Lock()
			for _, p := range ps {
				if p.Type == eioparser.PacketTypeMessage {
					inbound = append(inbound, string(trunc(p.Data, 80)))
				}
			}
			mu.Unlock()
		},
		OnClose: func(reason eio.Reason, err error) { mu.Lock(); closed = string(reason); mu.Unlock() },
	}, &eio.ClientConfig{Transports: c01Transports(c.Transport), HTTPTransport: tr, WebSocketDialOptions: &websocket.DialOptions{HTTPClient: &http.Client{Transport: tr}}})
	if err != nil {
		return fail("rig-connect", "raw dial: "+err.Error())
	}
	send := func(fr c10pFrame) {
		p, _ := eioparser.NewPacket(eioparser.PacketTypeMessage, fr.Binary, []byte(fr.Data))
		cli.Send(p)
	}
	send(c10pFrame{Data: `0{"hostile":true}`})
	settle(time.Second)
	mu.Lock()
	joined := len(inbound) == 1 && strings.HasPrefix(inbound[0], "0{")
	hs := hostileSock
	mu.Unlock()
	// an acknowledgement is outstanding on the server's socket while the hostile frames arrive (its id is the first of the namespace: 0)
	q1 := 0
	if hs != nil {
		hs.Emit("q1", func(v string) { mu.Lock(); q1++; mu.Unlock() })
		settle(100 * time.Millisecond)
	}
	if !joined || !healthy.Connected() {
		return fail("rig-connect", fmt.Sprintf("raw peer did not join / (inbound %v) or the healthy client did not connect", inbound))
	}
	for _, fr := range c.Frames {
		send(fr)
		tick()
	}
	settle(3 * time.Second)
	mu.Lock()
	closedNow, nErrs := closed, len(sockErrs)
	mu.Unlock()
	// the verdict is reported
	if pr.addErrAt >= 0 && closedNow == "" {
		return fail("error-is-reported", fmt.Sprintf("frame %d (%q) is rejected by the decoder (%s) but the server neither closed the connection nor reported anything (socket errors %d)",
			pr.addErrAt, shortStr(c.Frames[pr.addErrAt].Data), pr.addErr, nErrs))
	}
	if pr.addErrAt < 0 && pr.decodeErrs > 0 && closedNow == "" && nErrs == 0 {
		return fail("error-is-reported", fmt.Sprintf("%d event(s) of the sequence cannot be decoded into their handler's parameters, yet no error handler ran and the connection stayed open", pr.decodeErrs))
	}
	// the offending connection, if it is still open and the decoder is between packets, still works
	if closedNow == "" && pr.addErrAt < 0 && pr.idle && !pr.control {
		send(c10pFrame{Data: `277["rt",41]`})
		settle(time.Second)
		mu.Lock()
		answered := false
		for _, in := range inbound {
			answered = answered || in == `377[41]`
		}
		closedNow = closed
		mu.Unlock()
		if !answered && closedNow == "" {
			return fail("connection-not-wedged", fmt.Sprintf("after the sequence the connection is open, the decoder is between packets, but a valid ack-carrying event is not answered (inbound %v)", inbound))
		}
	}
	// the server can still use the acknowledgement machinery of the offending socket: a second request returns, and is answered when the peer answers it
	if closedNow == "" && hs != nil && hs.Connected() {
		q2 := 0
		hs.Emit("q2", func(v string) { mu.Lock(); q2++; mu.Unlock() }) // (a mutex left held parks this goroutine: watchdog + real-clock replay)
		settle(200 * time.Millisecond)
		mu.Lock()
		id := ""
		for _, in := range inbound {
			if strings.HasSuffix(in, `["q2"]`) && strings.HasPrefix(in, "2") {
				id = strings.TrimSuffix(strings.TrimPrefix(in, "2"), `["q2"]`)
			}
		}
		stillOpen := closed == ""
		mu.Unlock()
		if stillOpen && pr.addErrAt < 0 && pr.idle && !pr.control {
			if id == "" {
				return fail("connection-not-wedged", fmt.Sprintf("after the sequence a server-side Emit with an ack function did not reach the peer (inbound %v)", inbound))
			}
			send(c10pFrame{Data: "3" + id + `["fine"]`})
			settle(500 * time.Millisecond)
			mu.Lock()
			n := q2
			mu.Unlock()
			if n != 1 {
				return fail("connection-not-wedged", fmt.Sprintf("after the sequence the peer answered the server's second ack-carrying event (id %s) but the callback ran %d times", id, n))
			}
		}
	}
	// other connections and later connections keep working
	ok := false
	healthy.Emit("rt", 5, func(v int) { mu.Lock(); ok = v == 5; mu.Unlock() })
	later := r.manager(c01Transports(c.Transport), nil).Socket("/", nil)
	okLater := false
	later.OnConnect(func() { later.Emit("rt", 6, func(v int) { mu.Lock(); okLater = v == 6; mu.Unlock() }) })
	later.Connect()
	settle(3 * time.Second)
	mu.Lock()
	defer mu.Unlock()
	if !ok {
		return fail("others-keep-working", "after the hostile sequence a healthy client on another connection no longer completes an ack round trip")
	}
	if !okLater {
		return fail("later-connections-work", "after the hostile sequence a new client cannot connect and complete an ack round trip")
	}
	go cli.Close()
	return nil
}

func c10pHostileServer(c c10pCase, pr c10pPrediction, fail func(string, string) *Failure) *Failure {
	var mu sync.Mutex
	net := memnet.New()
	var srvSock eio.ServerSocket
	var fromClient []string
	sendTo := func(s eio.ServerSocket, fr c10pFrame) {
		p, _ := eioparser.NewPacket(eioparser.PacketTypeMessage, fr.Binary, []byte(fr.Data))
		s.Send(p)
	}
	server := eio.NewServer(func(s eio.ServerSocket) *eio.Callbacks {
		mu.Lock()
		srvSock = s
		mu.Unlock()
		return &eio.Callbacks{OnPacket: func(ps ...*eioparser.Packet) {
			for _, p := range ps {
				if p.Type != eioparser.PacketTypeMessage {
					continue
				}
				d := string(p.Data)
				mu.Lock()
				fromClient = append(fromClient, shortStr(d))
				mu.Unlock()
				switch {
				case d == "0" || strings.HasPrefix(d, "0{"):
					sendTo(s, c10pFrame{Data: `0{"sid":"hostile-sid"}`})
				}
			}
		}}
	}, &eio.ServerConfig{})
	_ = server.Run()
	hs := &http.Server{Handler: server}
	go hs.Serve(net)
	tr := &http.Transport{DialContext: net.Dial, MaxIdleConnsPerHost: 8}
	m := sio.NewManager("http://x/engine.io", &sio.ManagerConfig{NoReconnection: true,
		EIO: eio.ClientConfig{Transports: c01Transports(c.Transport), HTTPTransport: tr, WebSocketDialOptions: &websocket.DialOptions{HTTPClient: &http.Client{Transport: tr}}}})
	var mgrClose, mgrErrs, disconnects []string
	hits := map[string]int{}
	m.OnClose(func(reason sio.Reason, err error) {
		mu.Lock()
		mgrClose = append(mgrClose, fmt.Sprintf("%s:%v", reason, err))
		mu.Unlock()
	})
	m.OnError(func(err error) { mu.Lock(); mgrErrs = append(mgrErrs, err.Error()); mu.Unlock() })
	sock := m.Socket("/", nil)
	c10pRegister(sock.OnEvent, func(e string) { mu.Lock(); hits[e]++; mu.Unlock() })
	sock.OnDisconnect(func(reason sio.Reason) { mu.Lock(); disconnects = append(disconnects, string(reason)); mu.Unlock() })
	connected := false
	sock.OnConnect(func() { mu.Lock(); connected = true; mu.Unlock() })
	sock.Connect()
	settle(time.Second)
	var res *Failure
	teardown := func() {
		m.Close()
		server.Close()
		hs.Close()
		net.Close()
		net.CutAll()
		tr.CloseIdleConnections()
		if !realClock {
			time.Sleep(10 * time.Minute)
			net.CutAll()
			time.Sleep(time.Minute)
		}
	}
	mu.Lock()
	ready := connected && srvSock != nil
	ss := srvSock
	mu.Unlock()
	if !ready {
		res = fail("rig-connect", fmt.Sprintf("the client did not connect to the hand-written server (from client %v)", fromClient))
		teardown()
		return res
	}
	// an acknowledgement is outstanding on the client's socket while the hostile frames arrive (its id is the socket's first: 0)
	sock.Emit("q1", func(v string) {})
	settle(100 * time.Millisecond)
	for _, fr := range c.Frames {
		sendTo(ss, fr)
		tick()
	}
	settle(3 * time.Second)
	mu.Lock()
	nClose, nErr, nDisc := len(mgrClose), len(mgrErrs), len(disconnects)
	mu.Unlock()
	switch {
	case pr.addErrAt >= 0 && nClose == 0 && nDisc == 0:
		res = fail("error-is-reported", fmt.Sprintf("frame %d (%q) is rejected by the decoder (%s) but the client reported nothing: manager close handlers %d, socket disconnect handlers %d, manager error handlers %d",
			pr.addErrAt, shortStr(c.Frames[pr.addErrAt].Data), pr.addErr, nClose, nDisc, nErr))
	case pr.addErrAt < 0 && pr.decodeErrs > 0 && nClose == 0 && nErr == 0 && nDisc == 0:
		res = fail("error-is-reported", fmt.Sprintf("%d event(s) of the sequence cannot be decoded into their handler's parameters, yet neither an error nor a close was reported", pr.decodeErrs))
	}
	if res == nil && pr.addErrAt < 0 && pr.idle && !pr.control && nClose == 0 && nDisc == 0 {
		// the connection is open and the decoder between packets: the client still works
		sock.Emit("rt", 41) // seen on the wire by the hand-written server
		settle(time.Second)
		mu.Lock()
		sent := false
		for _, d := range fromClient {
			sent = sent || strings.Contains(d, `["rt",41]`)
		}
		mu.Unlock()
		if !sent {
			res = fail("connection-not-wedged", fmt.Sprintf("after the sequence the client reports no close, but an event emitted now never reaches the server (from client %v)", fromClient))
		}
	}
	if res == nil && pr.addErrAt < 0 && pr.idle && !pr.control && nClose == 0 && nDisc == 0 {
		// the client can still use its acknowledgement machinery: a second request returns, and is answered when the server answers it
		q2 := 0
		sock.Emit("q2", func(v string) { mu.Lock(); q2++; mu.Unlock() })
		settle(200 * time.Millisecond)
		mu.Lock()
		id := ""
		for _, d := range fromClient {
			if strings.HasSuffix(d, `["q2"]`) && strings.HasPrefix(d, "2") {
				id = strings.TrimSuffix(strings.TrimPrefix(d, "2"), `["q2"]`)
			}
		}
		mu.Unlock()
		if id != "" {
			sendTo(ss, c10pFrame{Data: "3" + id + `["fine"]`})
			settle(500 * time.Millisecond)
		}
		mu.Lock()
		n := q2
		mu.Unlock()
		if id == "" || n != 1 {
			res = fail("connection-not-wedged", fmt.Sprintf("after the sequence the client's next ack-carrying event (id %q) was answered by the server, its callback ran %d times (from client %v)", id, n, fromClient))
		}
	}
	// nothing is wedged: every call returns (a self-deadlock parks this goroutine on a mutex; the watchdog and the real-clock replay decide)
	sock.Emit("x", 1)
	_ = sock.Connected()
	sock.Disconnect()
	teardown()
	return res
}

func shortStr(s string) string {
	if len(s) > 80 {
		return s[:80] + "…"
	}
	return s
}

// ---- generator ---------------------------------------------------------------------------------------------------------

var c10pJSONArgs = []string{`1`, `"s"`, `{}`, `[]`, `null`, `true`, `{"a":1}`, `[1,"x"]`, `{"_placeholder":true,"num":0}`, `{"a":{"_placeholder":true,"num":0}}`, `[{"_placeholder":true,"num":0}]`,
	`{"_placeholder":true,"num":-1}`, `{"_placeholder":true,"num":7}`, `{"_placeholder":true,"num":1.5}`, `{"_placeholder":"x","num":0}`, `{"_placeholder":true}`, `{"num":0}`, `"\ud800"`, `1e999`, `{"I":1,"S":2}`, `{"In":{"B":5}}`}

var c10pRaw = []string{``, `9`, `7`, `x`, `2`, `3`, `5`, `6`, `5-`, `51-`, `5x-["f0"]`, `2/`, `2/nsp`, `0/abc`, `2/abc,["f0",1]`, `31["x"]`, `3`, `3[`, `61-1[{"_placeholder":true,"num":0}]`, `4{"message":"x"}`, `4`, `1`, `0`, `0{"sid":"again"}`,
	`2184467440737095516150["f5"]`, `2-1["f5"]`, `2[]`, `2[1]`, `2{}`, `2"f5"`, `2["f5"`, `2["f1",{"a":`, `2["f5"]]`, `2 ["f5"]`, `2["f5"]`, "2[\"f5\"]\x00", `518446744073709551615-["f0",{"_placeholder":true,"num":0}]`, `50-["f0"]`,
	`5-1-["f0"]`, `51["f0"]`, `29999999999999999999999["f5"]`}

func genC10pFrames(t *rapid.T) []c10pFrame {
	var out []c10pFrame
	for i, n := 0, rapid.IntRange(1, 4).Draw(t, "packets"); i < n; i++ {
		switch rapid.IntRange(0, 5).Draw(t, "kind") {
		case 0: // raw hostile constant
			out = append(out, c10pFrame{Data: rapid.SampledFrom(c10pRaw).Draw(t, "raw"), Binary: rapid.IntRange(0, 5).Draw(t, "bin") == 0})
		case 1: // a text event for a family handler with a drawn JSON argument list
			fam := rapid.IntRange(0, 9).Draw(t, "family")
			var args []string
			for k, na := 0, rapid.IntRange(0, 3).Draw(t, "nargs"); k < na; k++ {
				args = append(args, rapid.SampledFrom(c10pJSONArgs).Draw(t, "arg"))
			}
			d := fmt.Sprintf(`2["f%d"`, fam)
			for _, a := range args {
				d += "," + a
			}
			out = append(out, c10pFrame{Data: d + "]"})
		case 2: // a binary event with a hostile count / placeholder numbers and 0..3 attachment frames (some sent as text, some missing)
			fam := rapid.IntRange(0, 9).Draw(t, "family")
			cnt := rapid.SampledFrom([]string{"1", "1", "2", "3", "0", "-1", "x", "", "50000000", "18446744073709551615", "9223372036854775808"}).Draw(t, "count")
			num := rapid.SampledFrom([]string{"0", "0", "1", "2", "-1", "7", "1.5", "\"0\"", "null", "9223372036854775807"}).Draw(t, "num")
			shape := rapid.SampledFrom([]string{`{"_placeholder":true,"num":%s}`, `{"a":{"_placeholder":true,"num":%s}}`, `[{"_placeholder":true,"num":%s}]`, `"s",{"_placeholder":true,"num":%s}`}).Draw(t, "shape")
			out = append(out, c10pFrame{Data: fmt.Sprintf(`5%s-["f%d",%s]`, cnt, fam, fmt.Sprintf(shape, num))})
			for k, na := 0, rapid.IntRange(0, 3).Draw(t, "attachments"); k < na; k++ {
				out = append(out, c10pFrame{Data: rapid.SampledFrom([]string{"att", "", `2["f5"]`, "\x00\x01"}).Draw(t, "att"), Binary: rapid.IntRange(0, 4).Draw(t, "attBinary") != 0})
			}
		case 3: // a mutated valid packet from the parser-level generator (random event names: exercises the header path)
			mc := genC10Mutated(t)
			for k, fr := range mc.Frames {
				if len(fr) > 4096 {
					fr = fr[:4096]
				}
				out = append(out, c10pFrame{Data: strings.ToValidUTF8(string(fr), "?"), Binary: k > 0}) // the case must survive its JSON form
			}
		case 5: // an ACK packet: for the id that is outstanding on the receiving side (0), or for one that was never issued, with a drawn payload
			id := rapid.SampledFrom([]string{"0", "0", "0", "7", "18446744073709551615"}).Draw(t, "ackID")
			switch rapid.IntRange(0, 3).Draw(t, "ackKind") {
			case 0:
				out = append(out, c10pFrame{Data: "3" + id + "[" + rapid.SampledFrom(c10pJSONArgs).Draw(t, "ackArg") + "]"})
			case 1:
				out = append(out, c10pFrame{Data: "3" + id + rapid.SampledFrom([]string{``, `[`, `["x"`, `{}`, `"x"`, `[1,`, `[["x"]]`}).Draw(t, "ackRaw")})
			case 2:
				out = append(out, c10pFrame{Data: "61-" + id + `[{"_placeholder":true,"num":0}]`}, c10pFrame{Data: "att", Binary: true})
			case 3:
				out = append(out, c10pFrame{Data: "3" + id + `["fine"]`})
			}
		case 4: // a valid event, so that hostile frames also come between and after valid traffic
			out = append(out, c10pFrame{Data: fmt.Sprintf(`2["f%d"]`, rapid.SampledFrom([]int{5, 2}).Draw(t, "validFamily"))})
		}
	}
	if len(out) > 12 {
		out = out[:12]
	}
	return out
}

func TestC10_Process(t *testing.T) {
	setT(t)
	defer startWatchdog(t, 60*time.Second)()
	ev := NewEv(t, "C10", c10pCheck, "rapid on the virtual-time network, two legs x {polling, websocket}: (hostile-client) a hand-written client joins / on the real server and sends 1..4 hostile packets (1..12 frames); "+
		"(hostile-server) a hand-written server answers the real client's CONNECT and then sends the same kind of sequence. Packets: 41 raw hostile constants (unknown types, missing counts, bad namespaces, ids out of range, "+
		"truncated JSON, control packets), text events for ten handler-signature families with arguments from 21 JSON snippets (placeholder look-alikes, surrogates, huge numbers), binary events with hostile counts / "+
		"placeholder numbers and 0..3 attachment frames (some as text, some missing), mutated valid packets of the parser-level generator, ACK packets (well-formed, truncated, wrongly typed, binary) for an acknowledgement that is outstanding on the receiving side or was never issued, valid events in between. A fresh parser of the repository fed the same frames "+
		"predicts the decoder's verdict; oracle: a header-level rejection => the connection is closed (server) / close or disconnect handlers run (client); an undecodable family event => an error handler runs or the "+
		"connection is closed; an open connection whose decoder is between packets still answers a valid ack-carrying event, and the server's own next ack-carrying event to it returns and is answered; a healthy client on another connection and a new client still round-trip; every API call "+
		"afterwards returns (a self-deadlock is caught by the watchdog and confirmed on the real clock); no crash (journal). non-trivial = the sequence contains a header-level rejection or an undecodable event")
	rapidGuard(t, "C10", c10pCheck)
	runRapid(t, c10pCheck, tierN(8000, 80000), func(t *rapid.T) {
		c := c10pCase{Leg: rapid.SampledFrom([]string{"hostile-client", "hostile-server"}).Draw(t, "leg"), Transport: rapid.SampledFrom([]string{"polling", "websocket"}).Draw(t, "transport"), Frames: genC10pFrames(t)}
		f, nt := evalC10p(c)
		pr := c10pPredict(c.Frames)
		ev.Case(c, nt, c.class(pr))
		if nt {
			ev.Sample(c.class(pr), c)
		}
		if f != nil {
			FailRapid(t, *f)
		}
	})
}

func init() {
	registerReplay(c10pCheck, func(raw json.RawMessage) *Failure {
		f, _ := evalC10p(decodeCase[c10pCase](raw))
		return f
	})
}
