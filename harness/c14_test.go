package harness

// C14 — heartbeats detect a dead peer within the configured bound and never kill a live one. DESIGN.md §3 C14.
// Engine.IO level rig on the virtual-time network. Dead peers: the link is silently black-holed at a drawn instant
// (1 ms resolution over two heartbeat periods), in both or one direction. Live peers: long idle runs with latency.

import (
	"encoding/json"
	"fmt"
	"net/http"
	"sync"
	"testing"
	"time"

	eio "github.com/karagenc/socket.io-go/engine.io"
	"github.com/karagenc/socket.io-go/engine.io/parser"
	"nhooyr.io/websocket"
	"pgregory.net/rapid"

	"verif/harness/memnet"
)

const c14Check = "c14-heartbeat"

type c14Case struct {
	Transport  string `json:"transport"` // polling | websocket | upgrade
	IntervalMs int    `json:"interval_ms"`
	TimeoutMs  int    `json:"timeout_ms"`
	Mode       string `json:"mode"`      // dead | live
	Direction  string `json:"direction"` // dead: both | c2s | s2c (which direction is black-holed)
	AtMs       int    `json:"at_ms"`     // dead: instant of the black-hole
	Periods    int    `json:"periods"`   // live: heartbeat periods to idle through
	LatencyMs  int    `json:"latency_ms"`
	TrafficMs  int    `json:"traffic_ms"` // live: an application message every TrafficMs (0 = fully idle)
	// forced schedule (upgrade only): the goroutine that swaps the transports on the server / on the client is held at the yield point just before
	// the swap for that much virtual time, so that a heartbeat falls due while the upgrade is half done (0 = no hold)
	SwapHoldMs       int `json:"swap_hold_ms"`
	ClientSwapHoldMs int `json:"client_swap_hold_ms"`
}

func (c c14Case) class() string {
	if c.Mode == "live" {
		if c.SwapHoldMs > 0 || c.ClientSwapHoldMs > 0 {
			return "live," + c.Transport + ",swap-held"
		}
		return "live," + c.Transport
	}
	return "dead," + c.Transport + "," + c.Direction
}

type c14Close struct {
	reason eio.Reason
	at     time.Time
}

func evalC14(c c14Case) (f *Failure, nontrivial bool) {
	class := c.class()
	fail := func(clause, detail string) *Failure {
		return &Failure{Property: "C14", Check: c14Check, Clause: clause, Class: class, Detail: detail, Case: c}
	}
	journal(c14Check, class, c)
	var res *Failure
	I, T := time.Duration(c.IntervalMs)*time.Millisecond, time.Duration(c.TimeoutMs)*time.Millisecond
	body := func() {
		start := time.Now()
		var mu sync.Mutex
		var srvClose, cliClose []c14Close
		gotS, gotC := 0, 0
		var pingsAtClient []time.Duration
		net := memnet.New()
		if c.LatencyMs > 0 {
			net.SetOnDial(func(l *memnet.Link) error { l.SetLatency(time.Duration(c.LatencyMs) * time.Millisecond); return nil })
		}
		var srv eio.ServerSocket
		server := eio.NewServer(func(s eio.ServerSocket) *eio.Callbacks {
			mu.Lock()
			srv = s
			mu.Unlock()
			return &eio.Callbacks{
				OnPacket: func(ps ...*parser.Packet) {
					mu.Lock()
					for _, p := range ps {
						if p.Type == parser.PacketTypeMessage {
							gotS++
						}
					}
					mu.Unlock()
				},
				OnClose: func(r eio.Reason, err error) {
					mu.Lock()
					srvClose = append(srvClose, c14Close{r, time.Now()})
					mu.Unlock()
				},
			}
		}, &eio.ServerConfig{PingInterval: I, PingTimeout: T})
		if err := server.Run(); err != nil {
			res = fail("rig", err.Error())
			return
		}
		hs := &http.Server{Handler: server}
		go hs.Serve(net)
		tr := &http.Transport{DialContext: net.Dial, MaxIdleConnsPerHost: 8}
		upgraded := false
		cli, err := eio.Dial("http://x/engine.io", &eio.Callbacks{
			OnPacket: func(ps ...*parser.Packet) {
				mu.Lock()
				for _, p := range ps {
					switch p.Type {
					case parser.PacketTypeMessage:
						gotC++
					case parser.PacketTypePing:
						pingsAtClient = append(pingsAtClient, time.Since(start))
					}
				}
				mu.Unlock()
			},
			OnClose: func(r eio.Reason, err error) {
				mu.Lock()
				cliClose = append(cliClose, c14Close{r, time.Now()})
				mu.Unlock()
			},
		}, &eio.ClientConfig{Transports: c01Transports(c.Transport), HTTPTransport: tr, UpgradeDone: func(string) { mu.Lock(); upgraded = true; mu.Unlock() },
			WebSocketDialOptions: &websocket.DialOptions{HTTPClient: &http.Client{Transport: tr}}})
		if err != nil {
			res = fail("rig", "dial: "+err.Error())
			return
		}
		teardown := func() {
			cli.Close()
			server.Close()
			hs.Close()
			net.Close()
			net.CutAll()
			tr.CloseIdleConnections()
			if !realClock {
				time.Sleep(10 * time.Minute)
				net.CutAll()
				time.Sleep(time.Minute)
			}
		}
		defer teardown()
		msg := func(side string) {
			p, _ := parser.NewPacket(parser.PacketTypeMessage, false, []byte("m"))
			if side == "c" {
				cli.Send(p)
			} else {
				mu.Lock()
				s := srv
				mu.Unlock()
				s.Send(p)
			}
		}
		if c.Mode == "live" {
			total := time.Duration(c.Periods) * (I + T)
			sent := 0
			if c.TrafficMs > 0 {
				for el := time.Duration(0); el < total; el += time.Duration(c.TrafficMs) * time.Millisecond {
					time.Sleep(time.Duration(c.TrafficMs) * time.Millisecond)
					msg("c")
					msg("s")
					sent++
					tick()
				}
			} else {
				time.Sleep(total)
			}
			settle(2*time.Second + 6*time.Duration(c.LatencyMs)*time.Millisecond)
			mu.Lock()
			if len(srvClose) > 0 || len(cliClose) > 0 {
				var when time.Duration
				var who string
				if len(srvClose) > 0 {
					when, who = srvClose[0].at.Sub(start), "server: "+string(srvClose[0].reason)
				} else {
					when, who = cliClose[0].at.Sub(start), "client: "+string(cliClose[0].reason)
				}
				res = fail("live-peer-not-killed", fmt.Sprintf("a live, answering peer was disconnected at %v (%s) with pingInterval %v, pingTimeout %v, latency %d ms; pings seen by the client: %d",
					when, who, I, T, c.LatencyMs, len(pingsAtClient)))
			}
			mu.Unlock()
			if res != nil {
				return
			}
			// every period brought a ping, and Send still works at the end
			mu.Lock()
			np := len(pingsAtClient)
			mu.Unlock()
			if want := int(total/(I+T+2*time.Duration(c.LatencyMs)*time.Millisecond)) - 1; np < want {
				res = fail("pings-keep-coming", fmt.Sprintf("%d pings reached the client in %v (interval %v): fewer than %d", np, total, I, want))
				return
			}
			mu.Lock()
			bs, bc := gotS, gotC
			mu.Unlock()
			msg("c")
			msg("s")
			settle(time.Second + 6*time.Duration(c.LatencyMs)*time.Millisecond)
			mu.Lock()
			if gotS != bs+1 || gotC != bc+1 {
				res = fail("still-usable", fmt.Sprintf("after %d idle periods a message each way arrived %d/%d times", c.Periods, gotS-bs, gotC-bc))
			}
			if c.TrafficMs > 0 && res == nil && (bs != sent || bc != sent) {
				res = fail("still-usable", fmt.Sprintf("%d messages were sent each way during the run, %d/%d arrived", sent, bs, bc))
			}
			mu.Unlock()
			return
		}
		// ---- dead peer
		time.Sleep(time.Duration(c.AtMs) * time.Millisecond)
		mu.Lock()
		premature := len(srvClose) > 0 || len(cliClose) > 0
		isUp := upgraded
		mu.Unlock()
		if premature {
			res = fail("live-peer-not-killed", "the connection closed before any fault was injected")
			return
		}
		_ = isUp
		t0 := time.Now()
		net.BlackholeAll(c.Direction != "s2c", c.Direction != "c2s")
		settle(3*(I+T) + 20*time.Second)
		hS, hC := net.LastHeard(true), net.LastHeard(false) // when the server / the client last heard anything from its peer
		mu.Lock()
		defer mu.Unlock()
		slack := 500 * time.Millisecond
		wsAllowance := time.Duration(0)
		if c.Transport != "polling" {
			wsAllowance = 5 * time.Second // nhooyr's Close waits up to 5 s for the peer's close frame on a dead link before the close is reported
		}
		check := func(side string, closes []c14Close, heard time.Time, deaf bool) {
			if res != nil {
				return
			}
			if len(closes) == 0 {
				res = fail("dead-peer-detected", fmt.Sprintf("%s side: the link was black-holed (%s) at %v and the connection is still open %v later (pingInterval %v, pingTimeout %v)",
					side, c.Direction, t0.Sub(start), time.Since(t0), I, T))
				return
			}
			if len(closes) > 1 {
				res = fail("closed-once", fmt.Sprintf("%s side: OnClose ran %d times", side, len(closes)))
				return
			}
			if heard.Before(t0.Add(-(I + T))) {
				heard = t0.Add(-(I + T)) // (never heard anything recently: cannot be later than that)
			}
			bound := heard.Add(I + T + slack + wsAllowance)
			if closes[0].at.After(bound) {
				res = fail("detected-within-bound", fmt.Sprintf("%s side last heard its peer at %v and closed at %v (%s): later than pingInterval %v + pingTimeout %v + %v slack (+%v WebSocket close allowance)",
					side, heard.Sub(start), closes[0].at.Sub(start), closes[0].reason, I, T, slack, wsAllowance))
				return
			}
			if deaf && closes[0].reason != eio.ReasonPingTimeout && closes[0].reason != eio.ReasonTransportError && closes[0].reason != eio.ReasonTransportClose {
				res = fail("reason", fmt.Sprintf("%s side closed with reason %q", side, closes[0].reason))
			}
		}
		check("server", srvClose, hS, c.Direction != "s2c")
		check("client", cliClose, hC, c.Direction != "c2s")
		if res == nil {
			// at least the side that went deaf first must say ping timeout (the other may see the resulting close instead)
			pt := false
			for _, cl := range append(append([]c14Close{}, srvClose...), cliClose...) {
				pt = pt || cl.reason == eio.ReasonPingTimeout
			}
			if !pt {
				res = fail("reason", fmt.Sprintf("a silently dead link was closed with reasons server=%v client=%v: neither side reports a ping timeout", srvClose[0].reason, cliClose[0].reason))
			}
		}
	}
	var held sync.Map
	var msg string
	withHooks(hookSet{point: func(site string) {
		hold := 0
		switch site {
		case "eio.serverSocket.upgradeTo:before-swap":
			hold = c.SwapHoldMs
		case "eio.clientSocket.finishUpgradeTo:before-swap":
			hold = c.ClientSwapHoldMs
		}
		if _, again := held.LoadOrStore(site, true); hold > 0 && !again {
			time.Sleep(time.Duration(hold) * time.Millisecond)
		}
	}}, func() { msg = inBubble(curT, body) })
	if res == nil && msg != "" && !isBubbleDeadlock(msg) {
		res = fail("bubble-panic", "synctest: "+msg)
	}
	if c.Mode == "dead" {
		nontrivial = c.Direction != "both" || c.Transport == "upgrade" || c.AtMs%c.IntervalMs < 6 || c.AtMs%c.IntervalMs > c.IntervalMs-6
	} else {
		nontrivial = c.LatencyMs > 0 || c.Periods >= 60 || c.SwapHoldMs > 0 || c.ClientSwapHoldMs > 0
	}
	return res, nontrivial
}

func genC14Case(t *rapid.T) c14Case {
	c := c14Case{Transport: rapid.SampledFrom([]string{"polling", "websocket", "upgrade"}).Draw(t, "transport"),
		IntervalMs: rapid.SampledFrom([]int{1000, 2000, 3000}).Draw(t, "interval"), TimeoutMs: rapid.SampledFrom([]int{1000, 2000, 3000}).Draw(t, "timeout")}
	if rapid.IntRange(0, 2).Draw(t, "live") == 0 {
		c.Mode = "live"
		c.Periods = rapid.SampledFrom([]int{30, 60, 200}).Draw(t, "periods")
		if c.Transport == "upgrade" && rapid.Bool().Draw(t, "latencyInsteadOfUpgrade") {
			c.Transport = "websocket" // latency on the polling POSTs during the transport swap freezes virtual time (DESIGN.md §2.2)
		}
		// a pong is in time if the round trip fits into pingTimeout: 2 x latency on WebSocket; on long-polling a ping may first have to wait for
		// the next poll request to arrive (2 x latency), then travels back (1 x) and the pong POST takes another one: 4 x latency
		div := 2
		if c.Transport == "polling" {
			div = 4
		}
		if c.Transport != "upgrade" {
			c.LatencyMs = rapid.SampledFrom([]int{0, 0, 1, 50, c.TimeoutMs/div - 10, c.TimeoutMs/div - 2}).Draw(t, "latency")
		}
		c.TrafficMs = rapid.SampledFrom([]int{0, 0, 333, 1700, c.IntervalMs, c.IntervalMs + 1}).Draw(t, "traffic")
		if c.Transport == "upgrade" {
			// the swap held across the instant of the first ping (both sides of it), or for a short while
			holds := []int{0, 0, 20, c.IntervalMs - 2, c.IntervalMs + 2, c.IntervalMs + 50, c.IntervalMs + c.TimeoutMs/2}
			c.SwapHoldMs = rapid.SampledFrom(holds).Draw(t, "swapHold")
			c.ClientSwapHoldMs = rapid.SampledFrom(holds).Draw(t, "clientSwapHold")
			// The client stops polling when the probe is answered and the server swaps when it has the UPGRADE packet, which the client sends at
			// the end of its own hold: a ping that falls due meanwhile cannot travel before both holds are over. Together they stay below
			// pingInterval + pingTimeout/2, so that its pong is still in time.
			if c.SwapHoldMs+c.ClientSwapHoldMs > c.IntervalMs+c.TimeoutMs/2 {
				c.ClientSwapHoldMs = 0
			}
		}
	} else {
		c.Mode = "dead"
		c.Direction = rapid.SampledFrom([]string{"both", "both", "c2s", "s2c"}).Draw(t, "direction")
		c.AtMs = rapid.IntRange(0, 2*c.IntervalMs+c.TimeoutMs).Draw(t, "at")
		if c.Transport == "upgrade" && rapid.Bool().Draw(t, "duringUpgrade") {
			c.AtMs = rapid.IntRange(0, 3).Draw(t, "atUpgrade") // while the upgrade is in progress (otherwise: on the upgraded connection)
		} else if rapid.Bool().Draw(t, "nearPing") {
			c.AtMs = c.IntervalMs*rapid.IntRange(1, 2).Draw(t, "k") + rapid.IntRange(-3, 3).Draw(t, "eps")
		}
	}
	return c
}

func TestC14_Heartbeat(t *testing.T) {
	setT(t)
	defer startWatchdog(t, 90*time.Second)()
	ev := NewEv(t, "C14", c14Check, "rapid on the virtual-time network at Engine.IO level, pingInterval/pingTimeout in {1,2,3} s, transports {polling, websocket, during the upgrade}. Dead peers: the link is "+
		"silently black-holed at a drawn instant (1 ms resolution over two periods, biased to within 3 ms of a ping) in both directions or one; oracle: each side closes exactly once, no later than "+
		"(last instant memnet delivered bytes from the peer to that side) + pingInterval + pingTimeout + 500 ms (+5 s on WebSocket for the WebSocket library's close wait), a ping-timeout reason is reported. "+
		"Live peers: 30..200 idle periods with link latency up to pingTimeout/2 and optional application traffic out of phase with the pings; oracle: no OnClose at all, pings keep coming, messages still flow. "+
		"During an upgrade the goroutine that swaps the transports (server and client side, yield point before the swap) is optionally held across the instant of the first ping. "+
		"non-trivial = one-directional loss, or during the upgrade, or within 5 ms of a ping; live: latency > 0, >= 60 periods or a held swap")
	rapidGuard(t, "C14", c14Check)
	runRapid(t, c14Check, tierN(6000, 80000), func(t *rapid.T) {
		c := genC14Case(t)
		f, nt := evalC14(c)
		ev.Case(c, nt, c.class())
		if nt {
			ev.Sample(c.class(), c)
		}
		if f != nil {
			FailRapid(t, *f)
		}
	})
}

func init() {
	registerReplay(c14Check, func(raw json.RawMessage) *Failure {
		f, _ := evalC14(decodeCase[c14Case](raw))
		return f
	})
}
