package harness

// C13 (server limits, end to end) — the server never accepts an inbound message larger than MaxBufferSize on any transport, however
// its size is declared or not declared, and closes that connection instead; every message within the limit announced in the handshake
// is accepted, in both directions. DESIGN.md §3 C13. Engine.IO level on the virtual-time network; the inbound side is driven by
// hand-written HTTP / WebSocket peers (so that a chunked body, which no client of the repository produces, is covered).

import (
	"bytes"
	"context"
	"encoding/json"
	"fmt"
	"io"
	"net/http"
	"strings"
	"sync"
	"testing"
	"time"

	eio "github.com/karagenc/socket.io-go/engine.io"
	"github.com/karagenc/socket.io-go/engine.io/parser"
	"nhooyr.io/websocket"
	"pgregory.net/rapid"

	"verif/harness/memnet"
)

const c13lCheck = "c13-limits"

type c13lCase struct {
	Limit  int64  `json:"limit"`  // MaxBufferSize (0 = default of 1e6); -1 = DisableMaxBufferSize
	Path   string `json:"path"`   // c2s-polling-length | c2s-polling-chunked | c2s-websocket | s2c-polling | s2c-websocket
	Size   int    `json:"size"`   // bytes of the message payload (the Engine.IO packet is one byte longer)
	Binary bool   `json:"binary"` // s2c and websocket only
	Before int    `json:"before"` // small messages sent before the big one (the connection is in use)
}

func (c c13lCase) class() string {
	l := fmt.Sprint(c.Limit)
	if c.Limit == 0 {
		l = "default"
	} else if c.Limit < 0 {
		l = "disabled"
	}
	return c.Path + ",limit=" + l
}

func evalC13l(c c13lCase) (f *Failure, nontrivial bool) {
	class := c.class()
	fail := func(clause, detail string) *Failure {
		return &Failure{Property: "C13", Check: c13lCheck, Clause: clause, Class: class, Detail: detail, Case: c}
	}
	journal(c13lCheck, class, c)
	var res *Failure
	body := func() {
		var mu sync.Mutex
		net := memnet.New()
		var gotS []int // sizes of the messages the server's OnPacket received
		var closesS []string
		var srv eio.ServerSocket
		cfg := &eio.ServerConfig{}
		if c.Limit > 0 {
			cfg.MaxBufferSize = c.Limit
		} else if c.Limit < 0 {
			cfg.DisableMaxBufferSize = true
		}
		server := eio.NewServer(func(s eio.ServerSocket) *eio.Callbacks {
			mu.Lock()
			srv = s
			mu.Unlock()
			return &eio.Callbacks{
				OnPacket: func(ps ...*parser.Packet) {
					mu.Lock()
					for _, p := range ps {
						if p.Type == parser.PacketTypeMessage {
							gotS = append(gotS, len(p.Data))
						}
					}
					mu.Unlock()
				},
				OnClose: func(r eio.Reason, err error) {
					mu.Lock()
					closesS = append(closesS, fmt.Sprintf("%s:%v", r, err))
					mu.Unlock()
				},
			}
		}, cfg)
		_ = server.Run()
		hs := &http.Server{Handler: server}
		go hs.Serve(net)
		tr := &http.Transport{DialContext: net.Dial, MaxIdleConnsPerHost: 8}
		hc := &http.Client{Transport: tr}
		var cleanup []func()
		defer func() {
			for _, f := range cleanup {
				f()
			}
			server.Close()
			hs.Close()
			net.Close()
			net.CutAll()
			tr.CloseIdleConnections()
			if !realClock {
				time.Sleep(10 * time.Minute)
				net.CutAll()
				time.Sleep(time.Minute)
			}
		}()
		payload := bytes.Repeat([]byte{'x'}, c.Size)
		packetLen := int64(c.Size) + 1
		var announced int64 = -2
		verdict := func(sent string) {
			// announced: maxPayload of the handshake (0 = no limit)
			mu.Lock()
			defer mu.Unlock()
			delivered := false
			for _, n := range gotS {
				delivered = delivered || n == c.Size
			}
			within := announced == 0 || packetLen <= announced
			beyond := announced > 0 && int64(c.Size) > announced+1 // one byte of slack either way: whether the type byte counts is not fixed by the text
			switch {
			case within && (!delivered || len(closesS) > 0):
				res = fail("within-limit-accepted", fmt.Sprintf("%s of %d bytes (packet %d bytes; the handshake announced maxPayload %d): delivered to the server's handler %v, server closes %v (handler saw sizes %v)",
					sent, c.Size, packetLen, announced, delivered, closesS, gotS))
			case beyond && delivered:
				res = fail("oversize-never-accepted", fmt.Sprintf("%s of %d bytes was delivered to the server's handler although MaxBufferSize is %d (announced maxPayload %d)", sent, c.Size, c.Limit, announced))
			case beyond && len(closesS) == 0:
				res = fail("oversize-closes-connection", fmt.Sprintf("%s of %d bytes exceeds MaxBufferSize %d; it was not delivered, but the connection was not closed either", sent, c.Size, c.Limit))
			}
		}
		wantAnnounced := c.Limit
		if c.Limit == 0 {
			wantAnnounced = 1e6
		} else if c.Limit < 0 {
			wantAnnounced = 0
		}
		checkAnnounced := func() bool {
			if announced != wantAnnounced {
				res = fail("handshake-announces-limit", fmt.Sprintf("the handshake announces maxPayload %d, the configuration says %d", announced, wantAnnounced))
				return false
			}
			return true
		}
		switch c.Path {
		case "c2s-polling-length", "c2s-polling-chunked", "c2s-jsonp-length", "c2s-jsonp-chunked":
			resp, err := hc.Get("http://x/engine.io/?EIO=4&transport=polling")
			if err != nil {
				res = fail("rig-connect", "handshake: "+err.Error())
				return
			}
			b, _ := io.ReadAll(resp.Body)
			resp.Body.Close()
			var open struct {
				Sid        string `json:"sid"`
				MaxPayload int64  `json:"maxPayload"`
			}
			if len(b) < 2 || json.Unmarshal(b[1:], &open) != nil || open.Sid == "" {
				res = fail("rig-connect", fmt.Sprintf("handshake body %q", trunc(b, 120)))
				return
			}
			announced = open.MaxPayload
			if !checkAnnounced() {
				return
			}
			jsonp := strings.HasPrefix(c.Path, "c2s-jsonp")
			post := func(data []byte) (int, error) {
				if jsonp {
					data = append([]byte("d="), data...) // the JSON-P way: a form field (the payloads used here need no escaping)
				}
				var rd io.Reader = bytes.NewReader(data)
				if strings.HasSuffix(c.Path, "-chunked") {
					rd = struct{ io.Reader }{rd} // no known length: Transfer-Encoding: chunked
				}
				u := "http://x/engine.io/?EIO=4&transport=polling&sid=" + open.Sid
				if jsonp {
					u += "&j=0"
				}
				req, _ := http.NewRequest("POST", u, rd)
				req.Header.Set("Content-Type", "text/plain;charset=UTF-8")
				if jsonp {
					req.Header.Set("Content-Type", "application/x-www-form-urlencoded")
				}
				resp, err := hc.Do(req)
				if err != nil {
					return 0, err
				}
				io.Copy(io.Discard, resp.Body)
				resp.Body.Close()
				return resp.StatusCode, nil
			}
			for i := 0; i < c.Before; i++ {
				if code, err := post([]byte("4small")); err != nil || code != 200 {
					res = fail("rig-connect", fmt.Sprintf("small POST: %d %v", code, err))
					return
				}
			}
			if jsonp {
				packetLen += 2 // "d=" is part of the body the limit applies to
			}
			code, err := post(append([]byte{'4'}, payload...))
			settle(2 * time.Second)
			verdict(fmt.Sprintf("POST (%s, status %d, err %v)", strings.TrimPrefix(c.Path, "c2s-"), code, err))
		case "c2s-websocket", "c2s-upgraded-websocket":
			ctx := context.Background()
			var conn *websocket.Conn
			if c.Path == "c2s-websocket" {
				var err error
				conn, _, err = websocket.Dial(ctx, "ws://x/engine.io/?EIO=4&transport=websocket", &websocket.DialOptions{HTTPClient: hc})
				if err != nil {
					res = fail("rig-connect", "websocket dial: "+err.Error())
					return
				}
				conn.SetReadLimit(-1)
				cleanup = append(cleanup, func() { conn.CloseNow() })
				_, b, err := conn.Read(ctx)
				var open struct {
					MaxPayload int64 `json:"maxPayload"`
				}
				if err != nil || len(b) < 2 || json.Unmarshal(b[1:], &open) != nil {
					res = fail("rig-connect", fmt.Sprintf("websocket open packet %q %v", trunc(b, 120), err))
					return
				}
				announced = open.MaxPayload
			} else {
				// the session starts on long-polling and is upgraded by hand: probe, answer, upgrade packet
				resp, err := hc.Get("http://x/engine.io/?EIO=4&transport=polling")
				if err != nil {
					res = fail("rig-connect", "handshake: "+err.Error())
					return
				}
				b, _ := io.ReadAll(resp.Body)
				resp.Body.Close()
				var open struct {
					Sid        string `json:"sid"`
					MaxPayload int64  `json:"maxPayload"`
				}
				if len(b) < 2 || json.Unmarshal(b[1:], &open) != nil || open.Sid == "" {
					res = fail("rig-connect", fmt.Sprintf("handshake body %q", trunc(b, 120)))
					return
				}
				announced = open.MaxPayload
				conn, _, err = websocket.Dial(ctx, "ws://x/engine.io/?EIO=4&transport=websocket&sid="+open.Sid, &websocket.DialOptions{HTTPClient: hc})
				if err != nil {
					res = fail("rig-connect", "websocket dial for the upgrade: "+err.Error())
					return
				}
				conn.SetReadLimit(-1)
				cleanup = append(cleanup, func() { conn.CloseNow() })
				_ = conn.Write(ctx, websocket.MessageText, []byte("2probe"))
				_, pong, err := conn.Read(ctx)
				if err != nil || string(pong) != "3probe" {
					res = fail("rig-connect", fmt.Sprintf("upgrade probe answered %q %v", trunc(pong, 40), err))
					return
				}
				_ = conn.Write(ctx, websocket.MessageText, []byte("5"))
				settle(100 * time.Millisecond)
			}
			if !checkAnnounced() {
				return
			}
			var err error
			for i := 0; i < c.Before; i++ {
				_ = conn.Write(ctx, websocket.MessageText, []byte("4small"))
			}
			if c.Binary {
				err = conn.Write(ctx, websocket.MessageBinary, payload)
				packetLen = int64(c.Size)
			} else {
				err = conn.Write(ctx, websocket.MessageText, append([]byte{'4'}, payload...))
			}
			settle(8 * time.Second) // the WebSocket library waits up to 5 s for the close handshake
			verdict(fmt.Sprintf("WebSocket message (write err %v)", err))
		case "s2c-polling", "s2c-websocket":
			var gotC []int
			var closesC []string
			transports := []string{"polling"}
			if c.Path == "s2c-websocket" {
				transports = []string{"websocket"}
			}
			var hr struct{ max int64 }
			cl, err := eio.Dial("http://x/engine.io", &eio.Callbacks{
				OnPacket: func(ps ...*parser.Packet) {
					mu.Lock()
					for _, p := range ps {
						if p.Type == parser.PacketTypeMessage {
							gotC = append(gotC, len(p.Data))
						}
					}
					mu.Unlock()
				},
				OnClose: func(r eio.Reason, err error) {
					mu.Lock()
					closesC = append(closesC, fmt.Sprintf("%s:%v", r, err))
					mu.Unlock()
				},
			}, &eio.ClientConfig{Transports: transports, HTTPTransport: tr, WebSocketDialOptions: &websocket.DialOptions{HTTPClient: hc}})
			if err != nil {
				res = fail("rig-connect", "dial: "+err.Error())
				return
			}
			cleanup = append(cleanup, func() { cl.Close() })
			_ = hr
			settle(100 * time.Millisecond)
			mu.Lock()
			s := srv
			mu.Unlock()
			if s == nil {
				res = fail("rig-connect", "no server socket")
				return
			}
			for i := 0; i < c.Before; i++ {
				p, _ := parser.NewPacket(parser.PacketTypeMessage, false, []byte("small"))
				s.Send(p)
			}
			p, _ := parser.NewPacket(parser.PacketTypeMessage, c.Binary, payload)
			s.Send(p)
			settle(8 * time.Second)
			mu.Lock()
			delivered := false
			for _, n := range gotC {
				delivered = delivered || n == c.Size
			}
			limit := wantAnnounced
			if (limit == 0 || packetLen <= limit) && (!delivered || len(closesC) > 0 || len(closesS) > 0) {
				res = fail("within-limit-accepted", fmt.Sprintf("server -> client message of %d bytes (limit %d): delivered to the client's handler %v, client closes %v, server closes %v (client saw sizes %v)",
					c.Size, limit, delivered, closesC, closesS, gotC))
			}
			mu.Unlock()
		}
	}
	var msg string
	withHooks(hookSet{}, func() { msg = inBubble(curT, body) })
	if res == nil && msg != "" && !isBubbleDeadlock(msg) {
		res = fail("bubble-panic", "synctest: "+msg)
	}
	lim := c.Limit
	if lim == 0 {
		lim = 1e6
	}
	d := int64(c.Size) - lim
	near32k := c.Size >= 32000 && c.Size <= 33000
	return res, (lim > 0 && d >= -16 && d <= 16) || near32k || (c.Limit < 0 && c.Size > 32768)
}

func genC13lCase(t *rapid.T) c13lCase {
	c := c13lCase{Limit: rapid.SampledFrom([]int64{100, 1000, 40000, 0, -1}).Draw(t, "limit"),
		Path:   rapid.SampledFrom([]string{"c2s-polling-length", "c2s-polling-chunked", "c2s-jsonp-length", "c2s-jsonp-chunked", "c2s-websocket", "c2s-upgraded-websocket", "s2c-polling", "s2c-websocket"}).Draw(t, "path"),
		Binary: rapid.Bool().Draw(t, "binary"), Before: rapid.IntRange(0, 2).Draw(t, "before")}
	lim := c.Limit
	if lim <= 0 {
		lim = 1e6
	}
	base := rapid.SampledFrom([]int64{lim, lim, lim, 32768, 65536, lim / 2, 2 * lim, 10 * lim, 0}).Draw(t, "base")
	size := base + int64(rapid.IntRange(-12, 12).Draw(t, "delta"))
	if size < 0 {
		size = 0
	}
	if size > 3_000_000 {
		size = 3_000_000
	}
	c.Size = int(size)
	if strings.HasPrefix(c.Path, "s2c") {
		// only messages within the limit are the subject in this direction
		if c.Limit >= 0 && int64(c.Size)+1 > lim {
			c.Size = int(lim) - 1 - rapid.IntRange(0, 12).Draw(t, "under")
			if c.Size < 0 {
				c.Size = 0
			}
		}
	}
	if !strings.HasSuffix(c.Path, "websocket") && !strings.HasPrefix(c.Path, "s2c") {
		c.Binary = false
	}
	return c
}

func TestC13_Limits(t *testing.T) {
	setT(t)
	defer startWatchdog(t, 90*time.Second)()
	ev := NewEv(t, "C13", c13lCheck, "rapid on the virtual-time network at Engine.IO level: MaxBufferSize in {100, 1000, 40000, default 1e6, disabled} x path {POST with Content-Length, POST with chunked body, the same two the JSON-P way (form field d, j= in the query), "+
		"WebSocket message (text / binary) on a session opened over WebSocket or upgraded to it by hand} from hand-written peers, and server -> client over {long-polling, WebSocket} to the real client; message sizes limit +- 12, limit/2, 2 x and 10 x the limit, "+
		"32768 +- 12, 65536 +- 12, 0; 0..2 small messages first. Oracle (limit = maxPayload announced in the handshake, which must equal the configuration): a packet within the limit is delivered to the "+
		"handler with its full length and nothing closes; a message more than one byte beyond the limit never reaches the handler and the connection is closed; with the limit disabled everything is accepted; "+
		"server -> client messages within the limit arrive intact on both transports; non-trivial = size within 16 bytes of the limit or of 32 KiB, or > 32 KiB with the limit disabled")
	rapidGuard(t, "C13", c13lCheck)
	runRapid(t, c13lCheck, tierN(6000, 60000), func(t *rapid.T) {
		c := genC13lCase(t)
		f, nt := evalC13l(c)
		ev.Case(c, nt, c.class())
		if nt {
			ev.Sample(c.class(), c)
		}
		if f != nil {
			FailRapid(t, *f)
		}
	})
}

func init() {
	registerReplay(c13lCheck, func(raw json.RawMessage) *Failure {
		f, _ := evalC13l(decodeCase[c13lCase](raw))
		return f
	})
}
