package harness

// C19 (end to end) — a packet handed to a connection's send path is transmitted as soon as the transport can take it; it never sits in
// a queue until a heartbeat, a poll timeout or some other packet flushes it. DESIGN.md §3 C19. Real server and real client on the
// virtual-time rig with a zero-latency network: every I/O step costs no virtual time, so the virtual time between Emit and the
// handler's entry is exactly the time the packet spent waiting for something other than the transport.

import (
	"encoding/json"
	"fmt"
	"runtime"
	"sort"
	"sync"
	"sync/atomic"
	"testing"
	"time"

	sio "github.com/karagenc/socket.io-go"
	"pgregory.net/rapid"
)

const c19eCheck = "c19-e2e-latency"

type c19eEmit struct {
	GapUs  int    `json:"gap_us"` // virtual time since the previous emit
	Dir    string `json:"dir"`    // c2s | s2c
	Burst  int    `json:"burst"`  // this many emits at the same instant (from as many goroutines)
	Binary bool   `json:"binary"`
}

type c19eCase struct {
	Transport string     `json:"transport"`
	LatencyMs int        `json:"latency_ms"` // one-way link latency
	Emits     []c19eEmit `json:"emits"`
	// upgrade only, forced schedule: SwapBurst events are emitted by the server from the yield point right before it swaps the transports, and
	// the first of them to reach the polling transport's Send is held at its entry for ParkSpins scheduler yields (no virtual time passes)
	SwapBurst int `json:"swap_burst"`
	ParkSpins int `json:"park_spins"`
}

func evalC19e(c c19eCase) (f *Failure, nontrivial bool) {
	class := fmt.Sprintf("%s,latency=%d", c.Transport, c.LatencyMs)
	if c.SwapBurst > 0 {
		class += ",burst-before-swap"
	}
	fail := func(clause, detail string) *Failure {
		return &Failure{Property: "C19", Check: c19eCheck, Clause: clause, Class: class, Detail: detail, Case: c}
	}
	journal(c19eCheck, class, c)
	var res *Failure
	msg := runRig(rigOpts{}, func(r *rig) {
		var mu sync.Mutex
		arrived := map[int]time.Duration{}
		start := time.Now()
		var ss sio.ServerSocket
		r.Server.Use(func(s sio.ServerSocket, _ *sio.Handshake) any {
			mu.Lock()
			ss = s
			mu.Unlock()
			s.OnEvent("e", func(tok int) { mu.Lock(); arrived[tok] = time.Since(start); mu.Unlock() })
			s.OnEvent("b", func(tok int, _ Bin) { mu.Lock(); arrived[tok] = time.Since(start); mu.Unlock() })
			return nil
		})
		if c.LatencyMs > 0 {
			r.Net.SetOnDial(func(l *memnetLink) error { l.SetLatency(time.Duration(c.LatencyMs) * time.Millisecond); return nil })
		}
		cli := r.manager(c01Transports(c.Transport), nil).Socket("/", nil)
		cli.OnEvent("e", func(tok int) { mu.Lock(); arrived[tok] = time.Since(start); mu.Unlock() })
		cli.OnEvent("b", func(tok int, _ Bin) { mu.Lock(); arrived[tok] = time.Since(start); mu.Unlock() })
		sent := map[int]time.Duration{}
		dirOf := map[int]string{}
		tok := 0
		if c.Transport == "upgrade" && c.SwapBurst > 0 {
			var swapImminent, parked atomic.Bool
			var sends atomic.Int64
			r.setPoint(func(site string) {
				switch site {
				case "eio.serverSocket.upgradeTo:before-swap":
					mu.Lock()
					s := ss
					mu.Unlock()
					if s == nil || !cli.Connected() || !swapImminent.CompareAndSwap(false, true) {
						return
					}
					for b := 0; b < c.SwapBurst; b++ {
						mu.Lock()
						tok++
						k := tok
						sent[k] = time.Since(start)
						dirOf[k] = "s2c from the yield point before the swap"
						mu.Unlock()
						go s.Emit("e", k)
					}
					for i := 0; i < 50000 && !parked.Load(); i++ {
						runtime.Gosched()
					}
				case "polling.ServerTransport.Send:enter":
					if swapImminent.Load() && sends.Add(1) == 1 {
						parked.Store(true)
						for i := 0; i < c.ParkSpins; i++ {
							runtime.Gosched()
						}
					}
				}
			})
		}
		cli.Connect()
		settle(3 * time.Second)
		r.setPoint(nil)
		mu.Lock()
		s := ss
		mu.Unlock()
		if s == nil || !cli.Connected() {
			res = fail("rig-connect", "not connected")
			return
		}
		for _, e := range c.Emits {
			time.Sleep(time.Duration(e.GapUs) * time.Microsecond)
			for b := 0; b < max(e.Burst, 1); b++ {
				mu.Lock()
				tok++
				k, e := tok, e
				sent[k] = time.Since(start)
				dirOf[k] = e.Dir
				mu.Unlock()
				do := func() {
					var em interface{ Emit(string, ...any) } = cli
					if e.Dir == "s2c" {
						em = s
					}
					if e.Binary {
						em.Emit("b", k, Bin([]byte("payload")))
					} else {
						em.Emit("e", k)
					}
				}
				if e.Burst > 1 {
					go do()
				} else {
					do()
				}
			}
			tick()
		}
		settle(70 * time.Second) // more than a poll timeout and two heartbeat periods: whatever was waiting for one has arrived by now
		mu.Lock()
		defer mu.Unlock()
		// The transport needs: websocket one link traversal; long-polling s2c one traversal when a poll is pending, else the rest of the
		// running cycle (<= 2 traversals) plus one; c2s a POST may have to wait for the previous POST's round trip (2 traversals) first.
		// Bound: 6 traversals + 20 ms of slack. Anything that waited for a heartbeat (25 s) or a poll timeout is far beyond it.
		bound := time.Duration(6*c.LatencyMs)*time.Millisecond + 20*time.Millisecond
		toks := make([]int, 0, len(sent))
		for k := range sent {
			toks = append(toks, k)
		}
		sort.Ints(toks)
		for _, k := range toks {
			at, ok := arrived[k]
			if !ok {
				res = fail("transmitted", fmt.Sprintf("emit %d (%s at %v) never arrived within 70 s", k, dirOf[k], sent[k]))
				return
			}
			if d := at - sent[k]; d > bound {
				res = fail("transmitted-at-once", fmt.Sprintf("emit %d (%s at %v over %s, one-way latency %d ms) reached its handler %v later; the transport needs at most %v",
					k, dirOf[k], sent[k], c.Transport, c.LatencyMs, d, bound))
				return
			}
		}
	})
	if res == nil && msg != "" && !isBubbleDeadlock(msg) {
		res = fail("bubble-panic", "synctest: "+msg)
	}
	n := 0
	for _, e := range c.Emits {
		n += max(e.Burst, 1)
	}
	return res, (n >= 3 || c.SwapBurst > 0) && c.Transport != "websocket"
}

func genC19eCase(t *rapid.T) c19eCase {
	c := c19eCase{Transport: rapid.SampledFrom([]string{"polling", "polling", "websocket", "upgrade"}).Draw(t, "transport"), LatencyMs: rapid.SampledFrom([]int{0, 0, 1, 20}).Draw(t, "latency")}
	if c.Transport == "upgrade" {
		c.SwapBurst = rapid.SampledFrom([]int{0, 1, 3}).Draw(t, "swapBurst")
		c.ParkSpins = rapid.SampledFrom([]int{0, 2000, 20000}).Draw(t, "parkSpins")
	}
	if rapid.IntRange(0, 3).Draw(t, "stream") == 0 {
		// a steady stream: 60..200 emits in one direction with the same sub-millisecond gap
		e := c19eEmit{GapUs: rapid.SampledFrom([]int{100, 500, 900}).Draw(t, "streamGap"), Dir: rapid.SampledFrom([]string{"c2s", "s2c"}).Draw(t, "streamDir"), Burst: 1}
		for i, n := 0, rapid.IntRange(60, 200).Draw(t, "streamLen"); i < n; i++ {
			c.Emits = append(c.Emits, e)
		}
	}
	for i, n := 0, rapid.IntRange(1, 12).Draw(t, "emits"); i < n; i++ {
		c.Emits = append(c.Emits, c19eEmit{
			GapUs:  rapid.SampledFrom([]int{0, 1, 50, 1000, 1000, 40000, 100000, 1000000, 24_999_000, 25_000_000, 25_001_000, 31_000_000}).Draw(t, "gap"),
			Dir:    rapid.SampledFrom([]string{"c2s", "s2c"}).Draw(t, "dir"),
			Burst:  rapid.SampledFrom([]int{1, 1, 1, 2, 5}).Draw(t, "burst"),
			Binary: rapid.IntRange(0, 3).Draw(t, "binary") == 0,
		})
	}
	return c
}

func TestC19_E2ELatency(t *testing.T) {
	setT(t)
	defer startWatchdog(t, 90*time.Second)()
	ev := NewEv(t, "C19", c19eCheck, "rapid on the virtual-time rig (real server, real client; long-polling, websocket, during/after the upgrade; one-way link latency 0 / 1 / 20 ms): 1..12 emit instants (a quarter of the cases start with a steady stream of 60..200 emits at a gap of 100..900 us) in either "+
		"direction separated by gaps from 0 to 31 s (including just before, at and after the 25 s heartbeat), single or in bursts of 2..5 from concurrent goroutines, text and binary; oracle: every event reaches its "+
		"handler within 6 link traversals + 20 ms of virtual time after Emit (with a zero-latency network: within 20 ms) - a packet that waited for a heartbeat, a poll timeout or another packet shows as seconds; "+
		"non-trivial = >= 3 emits over long-polling")
	rapidGuard(t, "C19", c19eCheck)
	runRapid(t, c19eCheck, tierN(6000, 60000), func(t *rapid.T) {
		c := genC19eCase(t)
		f, nt := evalC19e(c)
		ev.Case(c, nt, fmt.Sprintf("%s,latency=%d", c.Transport, c.LatencyMs))
		if nt {
			ev.Sample(c.Transport, c)
		}
		if f != nil {
			FailRapid(t, *f)
		}
	})
}

func init() {
	registerReplay(c19eCheck, func(raw json.RawMessage) *Failure {
		f, _ := evalC19e(decodeCase[c19eCase](raw))
		return f
	})
}
