package harness

// The rig: a real sio.Server and real sio.Manager clients over the in-memory network, normally inside a synctest bubble
// (virtual time). See DESIGN.md §2.2.

import (
	"github.com/NYTimes/gziphandler"
	"encoding/json"
	"fmt"
	"net/http"
	"os"
	"path/filepath"
	"runtime"
	"strings"
	"sync"
	"sync/atomic"
	"testing"
	"testing/synctest"
	"time"

	sio "github.com/karagenc/socket.io-go"
	"github.com/karagenc/socket.io-go/adapter"
	eio "github.com/karagenc/socket.io-go/engine.io"
	"github.com/karagenc/socket.io-go/parser"
	"nhooyr.io/websocket"

	"verif/harness/memnet"
)

type rigOpts struct {
	Recovery       bool
	RecoveryWindow time.Duration
	RecoveryUseMiddlewares bool
	CleanerPeriod  time.Duration // with Recovery: period of the log cleaner (hook constructor); 0 = production default (1 min)
	MaxBuffer      int64
	DisableMax     bool
	PingInterval   time.Duration
	PingTimeout    time.Duration
	ConnectTimeout time.Duration
	UpgradeTimeout time.Duration
	AcceptAny      bool
	Adapter        adapter.Creator
	Gzip           bool // the server sits behind a compression middleware (NYTimes/gziphandler, the one the repository's go.mod names)
	SlowJoin       int // wrap the adapter: every AddAll (a socket joining rooms, including its own at admission) yields the processor this many times first
}

// slowAdapter is a user-supplied adapter (the interface is public) whose AddAll takes a while, as an adapter backed by a remote store
// does. It yields the processor a number of times instead of sleeping: the library holds mutexes while a socket joins its first rooms,
// and virtual time cannot pass while another goroutine waits for such a mutex (DESIGN.md §2.2).
type slowAdapter struct {
	adapter.Adapter
	yields int
}

func (a *slowAdapter) AddAll(sid adapter.SocketID, rooms []adapter.Room) {
	for i := 0; i < a.yields; i++ {
		runtime.Gosched()
	}
	a.Adapter.AddAll(sid, rooms)
}

type rig struct {
	opts    rigOpts
	Net     *memnet.Net
	Server  *sio.Server
	hs      *http.Server
	mu      sync.Mutex
	mgrs    []*sio.Manager
	trs     []*http.Transport
	onPoint atomic.Pointer[func(site string)]
	closing atomic.Bool
	leaked  string
}

func (r *rig) point(site string) {
	if f := r.onPoint.Load(); f != nil {
		(*f)(site)
	}
}

func (r *rig) stop(site string) bool { return r.closing.Load() }

func (r *rig) setPoint(f func(site string)) {
	if f == nil {
		r.onPoint.Store(nil)
		return
	}
	r.onPoint.Store(&f)
}

func newRig(o rigOpts) *rig {
	r := &rig{opts: o, Net: memnet.New()}
	cfg := &sio.ServerConfig{
		EIO: eio.ServerConfig{PingInterval: o.PingInterval, PingTimeout: o.PingTimeout, MaxBufferSize: o.MaxBuffer, DisableMaxBufferSize: o.DisableMax,
			UpgradeTimeout: o.UpgradeTimeout},
		ConnectTimeout:     o.ConnectTimeout,
		AcceptAnyNamespace: o.AcceptAny,
		AdapterCreator:     o.Adapter,
	}
	if o.Recovery {
		w := o.RecoveryWindow
		if w == 0 {
			w = 2 * time.Minute
		}
		cfg.ServerConnectionStateRecovery = sio.ServerConnectionStateRecovery{Enabled: true, MaxDisconnectionDuration: w, UseMiddlewares: o.RecoveryUseMiddlewares}
		if o.CleanerPeriod != 0 && o.Adapter == nil {
			cfg.AdapterCreator = adapter.VerifNewSessionAwareAdapterCreator(w, o.CleanerPeriod)
		}
	}
	if o.SlowJoin > 0 {
		inner := cfg.AdapterCreator
		if inner == nil {
			inner = adapter.NewInMemoryAdapterCreator()
		}
		cfg.AdapterCreator = func(st adapter.SocketStore, pc parser.Creator) adapter.Adapter { return &slowAdapter{inner(st, pc), o.SlowJoin} }
	}
	if envStr("VERIF_DEBUG_LOG", "") != "" {
		cfg.Debugger = sio.NewPrintDebugger()
		cfg.EIO.Debugger = eio.NewPrintDebugger()
	}
	r.Server = sio.NewServer(cfg)
	if err := r.Server.Run(); err != nil {
		panic("rig: server.Run: " + err.Error())
	}
	var h http.Handler = r.Server
	if o.Gzip {
		// long-polling requests only: a WebSocket handshake must not pass through a compressing writer
		plain, zipped := h, gziphandler.GzipHandler(h)
		h = http.HandlerFunc(func(w http.ResponseWriter, req *http.Request) {
			if req.URL.Query().Get("transport") == "polling" {
				zipped.ServeHTTP(w, req)
				return
			}
			plain.ServeHTTP(w, req)
		})
	}
	r.hs = &http.Server{Handler: h}
	go r.hs.Serve(r.Net)
	return r
}

// manager creates a client Manager dialing the rig's server over memnet.
func (r *rig) manager(transports []string, tweak func(c *sio.ManagerConfig)) *sio.Manager {
	tr := &http.Transport{DialContext: r.Net.Dial, MaxIdleConnsPerHost: 8}
	cfg := &sio.ManagerConfig{
		EIO: eio.ClientConfig{Transports: transports, HTTPTransport: tr,
			WebSocketDialOptions: &websocket.DialOptions{HTTPClient: &http.Client{Transport: tr}}},
		NoReconnection: true,
	}
	if tweak != nil {
		tweak(cfg)
	}
	m := sio.NewManager("http://x/socket.io", cfg)
	r.mu.Lock()
	r.mgrs = append(r.mgrs, m)
	r.trs = append(r.trs, tr)
	r.mu.Unlock()
	return m
}

// teardown closes everything and drains the timers of the library (connect timeout 45 s, packet queue drain 2 min, …).
func (r *rig) teardown() {
	r.closing.Store(true)
	r.mu.Lock()
	mgrs, trs := r.mgrs, r.trs
	r.mu.Unlock()
	// The network goes first: a dial or a request hanging on a black-holed link holds the manager's mutexes, and Close would wait
	// for them - with virtual time frozen meanwhile (the verdicts have been taken by now).
	r.Net.SetRefuse(true)
	r.Net.CutAll()
	if !realClock {
		synctest.Wait()
	}
	for _, m := range mgrs {
		m.Close()
	}
	r.Server.Close()
	r.hs.Close()
	r.Net.Close()
	r.Net.CutAll()
	for _, tr := range trs {
		tr.CloseIdleConnections()
	}
	if realClock {
		time.Sleep(200 * time.Millisecond)
		return
	}
	time.Sleep(10 * time.Minute)
	r.Net.CutAll()
	time.Sleep(time.Minute)
}

// runRig runs body with a fresh rig inside a bubble. It returns the synctest panic message, if any ("" normally).
// Goroutines of third-party libraries that outlive the teardown make synctest panic at the end of the bubble; that is
// reported through leaked, not as a failure.
func runRig(o rigOpts, body func(r *rig)) (bubbleMsg string) {
	var r *rig
	withHooks(hookSet{
		point: func(site string) {
			if r != nil {
				r.point(site)
			}
		},
		stop: func(site string) bool { return r != nil && r.stop(site) },
	}, func() {
		bubbleMsg = inBubble(curT, func() {
			r = newRig(o)
			body(r)
			r.teardown()
		})
	})
	return
}

// quiesce waits until nothing in the bubble can make progress without time passing.
func quiesce() {
	if realClock {
		time.Sleep(50 * time.Millisecond)
		return
	}
	synctest.Wait()
}

// settle lets d of virtual time pass and then waits for quiescence.
func settle(d time.Duration) {
	if realClock {
		// real clock: long waits (heartbeat periods, drains) are capped; they only serve "nothing more happens" clauses
		time.Sleep(min(d, 7*time.Second) + 50*time.Millisecond)
		return
	}
	time.Sleep(d)
	synctest.Wait()
}

// ---- journal and watchdog -----------------------------------------------------------------------------------------

// journal records the case about to be executed, so that the driver can attribute a process crash (a panic on a
// library goroutine cannot be recovered by the harness) or a stall to it.
func journal(check, class string, c any) {
	tick()
	if envOut == "" {
		return
	}
	b, err := json.Marshal(map[string]any{"check": check, "class": class, "case": c})
	if err != nil {
		return
	}
	// (the group is part of the name: several groups of one property write to the same directory with the same shard numbers)
	_ = os.WriteFile(filepath.Join(envOut, fmt.Sprintf("journal-%s-%d.json", envStr("VERIF_GROUP", "g"), envShard)), b, 0o644)
}

var progress atomic.Int64

func tick() { progress.Add(1) }

// startWatchdog starts a real-time watchdog (outside any bubble). If the progress counter does not move for limit of
// real time, the process dumps its goroutines and exits with status 3 (the driver reports the journalled case as a
// stall: inconclusive, never a violation by itself).
func startWatchdog(t *testing.T, limit time.Duration) (stopFn func()) {
	done := make(chan struct{})
	go func() {
		last := progress.Load()
		lastChange := time.Now()
		tk := time.NewTicker(500 * time.Millisecond)
		defer tk.Stop()
		for {
			select {
			case <-done:
				return
			case <-tk.C:
				if p := progress.Load(); p != last {
					last, lastChange = p, time.Now()
				} else if time.Since(lastChange) > limit {
					buf := make([]byte, 1<<20)
					n := runtime.Stack(buf, true)
					s := string(buf[:n])
					mutex := strings.Contains(s, "sync.(*Mutex).Lock") || strings.Contains(s, "sync.(*RWMutex)")
					fmt.Printf("\nVERIF-STALL no progress for %v of real time (goroutine parked on a mutex: %v)\n%s\n", limit, mutex, s[:min(len(s), 60000)])
					flushAllEvidence()
					if mutex {
						os.Exit(4) // a goroutine waits for a mutex and nothing else moves: "mutex left held" where the check says so
					}
					os.Exit(3)
				}
			}
		}
	}()
	return func() { close(done) }
}

type memnetLink = memnet.Link
