package harness

// C03 — raw protocol peer variant: a hand-written Socket.IO peer (on the repository's eio package) answers an ack-carrying event
// with DUPLICATE ACK packets, ACKs for unknown ids and ACKs after the timeout — things the Go peer never does.

import (
	"encoding/json"
	"errors"
	"fmt"
	"net/http"
	"strings"
	"sync"
	"testing"
	"time"

	sio "github.com/karagenc/socket.io-go"
	eio "github.com/karagenc/socket.io-go/engine.io"
	"github.com/karagenc/socket.io-go/engine.io/parser"
	"nhooyr.io/websocket"
	"pgregory.net/rapid"

	"verif/harness/memnet"
	"verif/harness/refcodec"
)

const c03CheckRaw = "c03-raw-peer"

type c03RawCase struct {
	Emitter    string `json:"emitter"` // client | server (the Go side that emits with an ack)
	Transport  string `json:"transport"`
	TimeoutMs  int    `json:"timeout_ms"`
	Emits      int    `json:"emits"`
	Duplicates int    `json:"duplicates"`  // how many ACK packets the raw peer sends per request (>= 1)
	DelayMs    int    `json:"delay_ms"`    // before the first ACK
	UnknownIDs bool   `json:"unknown_ids"` // also send ACKs for ids that were never issued
	Binary     bool   `json:"binary"`      // ACKs carry an attachment
}

func evalC03Raw(c c03RawCase) *Failure {
	class := c.Emitter + "," + c.Transport
	fail := func(clause, detail string) *Failure {
		return &Failure{Property: "C03", Check: c03CheckRaw, Clause: clause, Class: class, Detail: detail, Case: c}
	}
	journal(c03CheckRaw, class, c)
	var res *Failure
	var mu sync.Mutex
	type call struct {
		at  time.Duration
		err error
		tok int64
	}
	calls := map[int64][]call{}
	body := func() {
		start := time.Now()
		net := memnet.New()
		tr := &http.Transport{DialContext: net.Dial, MaxIdleConnsPerHost: 8}
		// the raw peer's reaction to one inbound frame sequence
		dec := &refcodec.StreamDecoder{}
		var sendMu sync.Mutex
		react := func(send func(p *parser.Packet), ps ...*parser.Packet) {
			for _, p := range ps {
				if p.Type != parser.PacketTypeMessage {
					continue
				}
				pkt, err := dec.Add(p.Data, p.IsBinary)
				if dbgRaw {
					fmt.Printf("raw peer got %q bin=%v -> %v %v\n", p.Data, p.IsBinary, pkt, err)
				}
				if err != nil || pkt == nil {
					continue
				}
				if pkt.Header.Type == 0 { // CONNECT: as a server accept it; as a client it is the server's reply
					if c.Emitter == "server" {
						continue
					}
					reply, _ := parser.NewPacket(parser.PacketTypeMessage, false, []byte(`0{"sid":"raw-peer"}`))
					go send(reply)
					continue
				}
				if (pkt.Header.Type == 2 || pkt.Header.Type == 5) && pkt.Header.HasID && pkt.Payload != nil && len(pkt.Payload.Arr) >= 2 {
					id, tok := pkt.Header.ID, pkt.Payload.Arr[1].Num
					go func() {
						if c.DelayMs > 0 {
							time.Sleep(time.Duration(c.DelayMs) * time.Millisecond)
						}
						for i := 0; i < c.Duplicates; i++ {
							// the i-th duplicate carries token+i*1e6 so that a second delivery would be visible
							var frames [][]byte
							if c.Binary {
								frames = [][]byte{[]byte(fmt.Sprintf(`61-%d[%s%s,{"_placeholder":true,"num":0}]`, id, tok, strings.Repeat("0", 0)+dupSuffix(i))), []byte("att")}
							} else {
								frames = [][]byte{[]byte(fmt.Sprintf(`3%d[%s%s,null]`, id, tok, dupSuffix(i)))}
							}
							sendMu.Lock() // the frames of one packet travel together (the raw peer misbehaves only in the ways under test)
							for k, fr := range frames {
								m, _ := parser.NewPacket(parser.PacketTypeMessage, k > 0, fr)
								send(m)
							}
							sendMu.Unlock()
						}
						if c.UnknownIDs {
							m, _ := parser.NewPacket(parser.PacketTypeMessage, false, []byte(fmt.Sprintf(`3%d[1,null]`, id+1000)))
							sendMu.Lock()
							send(m)
							sendMu.Unlock()
						}
					}()
				}
			}
		}
		record := func(tok int64) func(err error, got int64, b Bin) {
			return func(err error, got int64, b Bin) {
				mu.Lock()
				calls[tok] = append(calls[tok], call{time.Since(start), err, got})
				mu.Unlock()
			}
		}
		emitAll := func(em sio.Socket) {
			for i := 0; i < c.Emits; i++ {
				tok := int64(i + 1)
				if c.TimeoutMs > 0 {
					em.Timeout(time.Duration(c.TimeoutMs)*time.Millisecond).Emit("req", tok, record(tok))
				} else {
					rec := record(tok)
					em.Emit("req", tok, func(got int64, b Bin) { rec(nil, got, b) })
				}
			}
		}
		if c.Emitter == "client" {
			server := eio.NewServer(func(s eio.ServerSocket) *eio.Callbacks {
				return &eio.Callbacks{OnPacket: func(ps ...*parser.Packet) { react(func(p *parser.Packet) { s.Send(p) }, ps...) }}
			}, nil)
			_ = server.Run()
			hs := &http.Server{Handler: server}
			go hs.Serve(net)
			m := sio.NewManager("http://x/socket.io", &sio.ManagerConfig{NoReconnection: true, EIO: eio.ClientConfig{Transports: c01Transports(c.Transport), HTTPTransport: tr,
				WebSocketDialOptions: &websocket.DialOptions{HTTPClient: &http.Client{Transport: tr}}}})
			s := m.Socket("/", nil)
			s.Connect()
			settle(2 * time.Second)
			if !s.Connected() {
				res = fail("rig-connect", "client did not connect to the raw peer")
			} else {
				emitAll(s)
				settle(10 * time.Second)
				// the socket remains usable: one more plain round trip
				ok := false
				s.Emit("req", int64(777), func(got int64, b Bin) { mu.Lock(); ok = isDupOf(got, 777, c.Duplicates); mu.Unlock() })
				settle(time.Duration(c.DelayMs)*time.Millisecond + 2*time.Second)
				mu.Lock()
				if !ok && res == nil {
					res = fail("remains-usable", "after duplicate/unknown ACKs a fresh ack round trip did not complete")
				}
				mu.Unlock()
			}
			m.Close()
			server.Close()
			hs.Close()
		} else {
			server := sio.NewServer(nil)
			_ = server.Run()
			var ss sio.ServerSocket
			server.OnConnection(func(s sio.ServerSocket) { mu.Lock(); ss = s; mu.Unlock() })
			hs := &http.Server{Handler: server}
			go hs.Serve(net)
			var cli eio.ClientSocket
			var err error
			cli, err = eio.Dial("http://x/socket.io", &eio.Callbacks{OnPacket: func(ps ...*parser.Packet) {
				react(func(p *parser.Packet) { cli.Send(p) }, ps...)
			}}, &eio.ClientConfig{Transports: c01Transports(c.Transport), HTTPTransport: tr,
				WebSocketDialOptions: &websocket.DialOptions{HTTPClient: &http.Client{Transport: tr}}})
			if err != nil {
				res = fail("rig-connect", "raw client dial: "+err.Error())
			} else {
				connect, _ := parser.NewPacket(parser.PacketTypeMessage, false, []byte("0"))
				cli.Send(connect)
				settle(2 * time.Second)
				mu.Lock()
				srv := ss
				mu.Unlock()
				if srv == nil {
					res = fail("rig-connect", "raw client was not accepted")
				} else {
					emitAll(srv)
					settle(10 * time.Second)
					ok := false
					srv.Emit("req", int64(777), func(got int64, b Bin) { mu.Lock(); ok = isDupOf(got, 777, c.Duplicates); mu.Unlock() })
					settle(time.Duration(c.DelayMs)*time.Millisecond + 2*time.Second)
					mu.Lock()
					if !ok && res == nil {
						res = fail("remains-usable", "after duplicate/unknown ACKs a fresh ack round trip did not complete")
					}
					mu.Unlock()
				}
				cli.Close()
			}
			server.Close()
			hs.Close()
		}
		net.Close()
		net.CutAll()
		tr.CloseIdleConnections()
		time.Sleep(10 * time.Minute)
		net.CutAll()
		time.Sleep(time.Minute)
	}
	msg := inBubble(curT, body)
	if res == nil && msg != "" && !isBubbleDeadlock(msg) {
		res = fail("bubble-panic", "synctest: "+msg)
	}
	if res != nil {
		return res
	}
	mu.Lock()
	defer mu.Unlock()
	for tok := int64(1); tok <= int64(c.Emits); tok++ {
		cs := calls[tok]
		T := time.Duration(c.TimeoutMs) * time.Millisecond
		if len(cs) > 1 {
			return fail("at-most-once", fmt.Sprintf("request %d: the peer sent %d ACK packets and the callback ran %d times (%+v)", tok, c.Duplicates, len(cs), cs))
		}
		late := c.TimeoutMs > 0 && c.DelayMs > c.TimeoutMs
		tie := c.TimeoutMs > 0 && c.DelayMs == c.TimeoutMs
		if len(cs) != 1 {
			return fail("exactly-once", fmt.Sprintf("request %d: the callback ran %d times", tok, len(cs)))
		}
		if late && !errors.Is(cs[0].err, sio.ErrAckTimeout) {
			return fail("timeout-wins", fmt.Sprintf("request %d: ACK sent %d ms after the request, timeout %v, but the callback got (%v, %d)", tok, c.DelayMs, T, cs[0].err, cs[0].tok))
		}
		// Which of several ACK packets for one id wins is not specified (they are dispatched concurrently): any of them is admissible,
		// an ACK meant for another request is not.
		if !late && !tie && (cs[0].err != nil || !isDupOf(cs[0].tok, tok, c.Duplicates)) {
			return fail("right-reply", fmt.Sprintf("request %d: callback got (%v, %d), want one of the ACKs sent for this request (token %d)", tok, cs[0].err, cs[0].tok, tok))
		}
	}
	return nil
}

// isDupOf reports whether got is the token carried by one of the n ACK packets sent for request tok.
func isDupOf(got, tok int64, n int) bool {
	for i := 0; i < max(1, n); i++ {
		want := tok
		if i > 0 {
			want = tok*1000000 + int64(i)
		}
		if got == want {
			return true
		}
	}
	return false
}

var dbgRaw = false

func dupSuffix(i int) string {
	if i == 0 {
		return ""
	}
	return fmt.Sprintf("%06d", i) // token*1e6+i written as digits appended: token "7" -> "7000001"
}

func TestC03_RawPeer(t *testing.T) {
	setT(t)
	defer startWatchdog(t, 60*time.Second)()
	ev := NewEv(t, "C03", c03CheckRaw, "rapid: a hand-written Socket.IO peer answers each ack-carrying event with 1..3 ACK packets (text or binary), optionally also ACKs for ids never issued, after a delay on either "+
		"side of the timeout; emitter = Go client or Go server; oracle: callback exactly once per request with the token of one of the ACKs sent for that very request (ErrAckTimeout when the ACK is late), a fresh round trip still works; "+
		"non-trivial = duplicates >= 2 or unknown ids or a late ACK")
	rapidGuard(t, "C03", c03CheckRaw)
	runRapid(t, c03CheckRaw, tierN(1200, 12000), func(t *rapid.T) {
		c := c03RawCase{Emitter: rapid.SampledFrom([]string{"client", "server"}).Draw(t, "emitter"), Transport: rapid.SampledFrom([]string{"polling", "websocket"}).Draw(t, "transport"),
			TimeoutMs: rapid.SampledFrom([]int{0, 1000}).Draw(t, "timeout"), Emits: rapid.IntRange(1, 4).Draw(t, "emits"), Duplicates: rapid.IntRange(1, 3).Draw(t, "dups"),
			UnknownIDs: rapid.Bool().Draw(t, "unknown"), Binary: rapid.Bool().Draw(t, "binary")}
		c.DelayMs = rapid.SampledFrom([]int{0, 10, 999, 1001, 1500}).Draw(t, "delay")
		nt := c.Duplicates >= 2 || c.UnknownIDs || (c.TimeoutMs > 0 && c.DelayMs > c.TimeoutMs)
		ev.Case(c, nt, c.Emitter+","+c.Transport)
		if nt {
			ev.Sample(c.Emitter, c)
		}
		if f := evalC03Raw(c); f != nil {
			FailRapid(t, *f)
		}
	})
}

func init() {
	registerReplay(c03CheckRaw, func(raw json.RawMessage) *Failure { return evalC03Raw(decodeCase[c03RawCase](raw)) })
}
