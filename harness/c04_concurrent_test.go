package harness

// C04 (membership changes concurrent with a broadcast) — interval semantics: a socket that is selected throughout must receive the
// broadcast (once), one that is selected at no time must not, nobody receives it twice. DESIGN.md §3 C04. The adapter releases its
// lock around every delivery; the yield hook at that point (inMemoryAdapter.apply:unlocked) lets the check place membership changes
// at chosen points INSIDE a broadcast, deterministically, instead of hoping for a lucky interleaving.

import (
	"encoding/json"
	"fmt"
	"sort"
	"strings"
	"sync"
	"testing"

	"github.com/karagenc/socket.io-go/adapter"
	"github.com/karagenc/socket.io-go/parser"
	"pgregory.net/rapid"
)

const c04cCheck = "c04-concurrent"

type c04cChange struct {
	AtHit int    `json:"at_hit"` // the change is made when the hook fires for the n-th time during the operation (0-based)
	Op    string `json:"op"`     // join | leave | disconnect | broadcast2 (a second broadcast, to all three rooms, made inside the first; then the only change)
	Sock  string `json:"sock"`
	Room  string `json:"room"`
	Async bool   `json:"async"` // made by another goroutine (the delivering goroutine waits for it) instead of the delivering goroutine itself
}

type c04cCase struct {
	Adapter string       `json:"adapter"`
	Matrix  int          `json:"matrix"` // membership of 4 sockets x 3 rooms before the operation (bit s*3+r)
	Op      string       `json:"op"`     // broadcast | fetch | sockets-join
	T       []string     `json:"t"`
	E       []string     `json:"e"`
	Changes []c04cChange `json:"changes"`
}

var c04cSocks = []string{"s0", "s1", "s2", "s3"}

func evalC04c(c c04cCase) (f *Failure, nontrivial bool) {
	class := c.Adapter + "," + c.Op
	fail := func(clause, detail string) *Failure {
		return &Failure{Property: "C04", Check: c04cCheck, Clause: clause, Class: class, Detail: detail, Case: c}
	}
	st := newC04(c.Adapter)
	rooms := map[string]map[string]bool{} // current membership (model)
	socks := map[string]*c04Socket{}
	for si, s := range c04cSocks {
		socks[s] = st.connect(adapter.SocketID(s))
		rooms[s] = map[string]bool{s: true}
		for ri, r := range c04Rooms {
			if c.Matrix&(1<<(si*3+ri)) != 0 {
				socks[s].Join(adapter.Room(r))
				rooms[s][r] = true
			}
		}
	}
	st.take()
	alive := map[string]bool{"s0": true, "s1": true, "s2": true, "s3": true}
	// per socket: was it selected in every state / in some state; and is there ONE target room it stayed in throughout
	snapshot := func() map[string]map[string]bool {
		out := map[string]map[string]bool{}
		for s, rs := range rooms {
			out[s] = map[string]bool{}
			for r := range rs {
				out[s][r] = true
			}
			out[s]["*connected"] = alive[s]
		}
		return out
	}
	states := []map[string]map[string]bool{snapshot()}
	var mu sync.Mutex
	hits := 0
	applied := 0
	nested := false
	second := false
	hook := func(site string) {
		if site != "inMemoryAdapter.apply:unlocked" {
			return
		}
		mu.Lock()
		if nested {
			mu.Unlock()
			return
		}
		n := hits
		hits++
		mu.Unlock()
		for _, ch := range c.Changes {
			if ch.AtHit != n {
				continue
			}
			do := func() {
				so := socks[ch.Sock]
				switch ch.Op {
				case "join":
					if alive[ch.Sock] {
						so.Join(adapter.Room(ch.Room))
						rooms[ch.Sock][ch.Room] = true
					}
				case "leave":
					so.Leave(adapter.Room(ch.Room))
					delete(rooms[ch.Sock], ch.Room)
				case "disconnect":
					so.Disconnect(false)
					rooms[ch.Sock] = map[string]bool{}
					alive[ch.Sock] = false
				case "broadcast2":
					mu.Lock()
					nested, second = true, true
					mu.Unlock()
					o2 := adapter.NewBroadcastOptions()
					o2.Rooms = roomSet(c04Rooms)
					st.adapter.Broadcast(&parser.PacketHeader{Type: parser.PacketTypeEvent, Namespace: "/"}, append(make([]any, 0, 4), "ev", "second"), o2)
					mu.Lock()
					nested = false
					mu.Unlock()
				}
			}
			if ch.Async {
				done := make(chan struct{})
				go func() { defer close(done); do() }()
				<-done
			} else {
				do()
			}
			applied++
			states = append(states, snapshot())
		}
	}
	opts := adapter.NewBroadcastOptions()
	opts.Rooms, opts.Except = roomSet(c.T), roomSet(c.E)
	var fetched []string
	var pm string
	withHooks(hookSet{point: hook}, func() {
		pm, _ = catchPanic(func() {
			switch c.Op {
			case "broadcast":
				vv := append(make([]any, 0, 4), "ev", "token")
				st.adapter.Broadcast(&parser.PacketHeader{Type: parser.PacketTypeEvent, Namespace: "/"}, vv, opts)
			case "fetch":
				for _, so := range st.adapter.FetchSockets(opts) {
					fetched = append(fetched, string(so.ID()))
				}
			case "sockets-join":
				st.adapter.AddSockets(opts, "joined")
			}
		})
	})
	if pm != "" {
		return fail("no-panic", fmt.Sprintf("%s panicked while memberships changed under it: %s", c.Op, pm)), applied > 0
	}
	count := map[string]int{}
	switch c.Op {
	case "broadcast":
		count2 := map[string]int{}
		for sid, frames := range st.take() {
			for _, f := range frames {
				if strings.Contains(f, `"second"`) {
					count2[string(sid)]++
				} else {
					count[string(sid)]++
				}
			}
		}
		if second {
			// the second broadcast, made while the first was under way: to all three rooms, nobody excepted, memberships unchanged
			for _, s := range c04cSocks {
				want := 0
				for _, r := range c04Rooms {
					if states[0][s][r] {
						want = 1
					}
				}
				if count2[s] != want {
					clause := "member-throughout-receives"
					if count2[s] > want {
						clause = "at-most-once"
					}
					return fail(clause, fmt.Sprintf("a second broadcast to %v, made inside a broadcast to %v except %v at the point where the adapter releases its lock: socket %s (rooms %v) was served %d times by the second one, want %d",
						c04Rooms, c.T, c.E, s, keys(states[0][s]), count2[s], want)), true
				}
			}
		}
	case "fetch":
		for _, s := range fetched {
			count[s]++
		}
	case "sockets-join":
		for _, s := range c04cSocks {
			if rs, ok := st.adapter.SocketRooms(adapter.SocketID(s)); ok && rs.Contains("joined") {
				count[s] = 1
			}
		}
	}
	for _, s := range c04cSocks {
		always, never := true, true
		for _, stt := range states {
			if stt[s]["*connected"] && selected(stt[s], c.T, c.E) { // a disconnected socket belongs to no room and is nobody's recipient
				never = false
			} else {
				always = false
			}
		}
		// "a member throughout": it stayed in one and the same target room (or T is empty and it stayed connected) and never touched an excepted room
		anchored := len(c.T) == 0
		for _, r := range c.T {
			in := true
			for _, stt := range states {
				in = in && stt[s][r]
			}
			anchored = anchored || in
		}
		n := count[s]
		desc := fmt.Sprintf("%s to %v except %v with %d membership change(s) made inside it (%v): socket %s (rooms before %v, after %v)", c.Op, c.T, c.E, applied, c.Changes, s, keys(states[0][s]), keys(states[len(states)-1][s]))
		switch {
		case n > 1:
			return fail("at-most-once", fmt.Sprintf("%s was served %d times", desc, n)), applied > 0
		case always && anchored && n != 1 && (c.Op != "sockets-join" || alive[s]):
			return fail("member-throughout-receives", fmt.Sprintf("%s was selected the whole time and was served %d times", desc, n)), applied > 0
		case never && n != 0:
			return fail("never-member-never-receives", fmt.Sprintf("%s was selected at no time and was served %d times", desc, n)), applied > 0
		}
	}
	return nil, applied > 0 && len(c.T) >= 2
}

func genC04cCase(t *rapid.T) c04cCase {
	c := c04cCase{Adapter: rapid.SampledFrom([]string{"in-memory", "session-aware"}).Draw(t, "adapter"), Matrix: rapid.IntRange(0, 1<<12-1).Draw(t, "matrix"),
		Op: rapid.SampledFrom([]string{"broadcast", "broadcast", "fetch", "sockets-join"}).Draw(t, "op")}
	for _, r := range c04Rooms {
		switch rapid.IntRange(0, 4).Draw(t, "te") {
		case 0, 1:
			c.T = append(c.T, r)
		case 2:
			c.E = append(c.E, r)
		}
	}
	for i, n := 0, rapid.IntRange(1, 3).Draw(t, "changes"); i < n; i++ {
		c.Changes = append(c.Changes, c04cChange{AtHit: rapid.IntRange(0, 3).Draw(t, "at"), Op: rapid.SampledFrom([]string{"join", "leave", "join", "leave", "disconnect"}).Draw(t, "chop"),
			Sock: rapid.SampledFrom(c04cSocks).Draw(t, "sock"), Room: rapid.SampledFrom(c04Rooms).Draw(t, "room"), Async: rapid.Bool().Draw(t, "async")})
	}
	sort.SliceStable(c.Changes, func(i, k int) bool { return c.Changes[i].AtHit < c.Changes[k].AtHit })
	if c.Op == "broadcast" && rapid.IntRange(0, 3).Draw(t, "second") == 0 {
		c.Changes = []c04cChange{{AtHit: rapid.IntRange(0, 2).Draw(t, "at2"), Op: "broadcast2", Async: rapid.Bool().Draw(t, "async2")}}
	}
	return c
}

func TestC04_Concurrent(t *testing.T) {
	ev := NewEv(t, "C04", c04cCheck, "rapid (plus an exhaustive sweep of single changes) on both adapters: 4 sockets x 3 rooms with a drawn membership matrix, an operation (Broadcast / FetchSockets / SocketsJoin) with drawn "+
		"(T, E), and 1..3 membership changes (join / leave / disconnect of any socket and room) made INSIDE the operation at the n-th firing of the yield hook that sits where the adapter releases its lock around a "+
		"delivery, by the delivering goroutine itself or by another goroutine; oracle (interval semantics): nobody is served twice; a socket selected in every state that stayed in one target room throughout (or T "+
		"empty) and never in an excepted room is served exactly once; a socket selected in no state is not served; non-trivial = >= 1 change applied inside an operation with >= 2 target rooms")
	rapidGuard(t, "C04", c04cCheck)
	// exhaustive: every matrix of 3 sockets x 2 rooms (s0..s2 x r0,r1), T = {r0, r1}, one change of every kind at hit 0 or 1
	n := 0
	for m := 0; m < 1<<12; m++ {
		if m&^0b011011011 != 0 {
			continue
		}
		for _, op := range []string{"broadcast", "fetch"} {
			for _, chop := range []string{"join", "leave"} {
				for _, sock := range []string{"s0", "s1", "s2"} {
					for _, room := range []string{"r0", "r1"} {
						for at := 0; at < 2; at++ {
							n++
							if !mine(n) {
								continue
							}
							c := c04cCase{Adapter: "in-memory", Matrix: m, Op: op, T: []string{"r0", "r1"}, Changes: []c04cChange{{AtHit: at, Op: chop, Sock: sock, Room: room}}}
							f, nt := evalC04c(c)
							ev.Case(c, nt, "exhaustive-single-change")
							if f != nil {
								failMu.Lock()
								lastFail[c04cCheck] = f // emitted by rapidGuard's cleanup
								failMu.Unlock()
								t.Fatalf("%s: %s", f.Sig(), f.Detail)
							}
						}
					}
				}
			}
		}
	}
	runRapid(t, c04cCheck, tierN(40000, 1500000), func(t *rapid.T) {
		c := genC04cCase(t)
		f, nt := evalC04c(c)
		ev.Case(c, nt, c.Adapter+","+c.Op)
		if nt {
			ev.Sample(c.Adapter+","+c.Op, c)
		}
		if f != nil {
			FailRapid(t, *f)
		}
	})
}

func init() {
	registerReplay(c04cCheck, func(raw json.RawMessage) *Failure {
		f, _ := evalC04c(decodeCase[c04cCase](raw))
		return f
	})
}
