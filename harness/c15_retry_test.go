//go:build verif

package harness

import (
	"encoding/json"
	"fmt"
	"sort"
	"sync"
	"sync/atomic"
	"testing"
	"time"

	sio "github.com/karagenc/socket.io-go"
	"pgregory.net/rapid"
)

// c15-retry-queue: the same clause as c15-reconnect ("non-volatile events emitted while the socket is disconnected are delivered exactly once,
// in order, after it (re)connects; volatile ones are dropped") for a socket configured with ClientSocketConfig.Retries > 0, where emits go
// through clientPacketQueue (client_packet_queue.go, an anchor of C15) instead of the socket's send buffer.
//
// Retries promises at-least-once: a packet whose acknowledgement does not arrive within AckTimeout, or that was in flight when the connection
// was lost, is legitimately sent again. The server of this check acknowledges every event at once and the links have no latency, and emits are
// kept 60 ms away from the instant the link is cut, so no packet is ever in that position: any duplicate is the queue's own doing.

// Run with VERIF_AS=C16 the check reports under C16: ack functions and handlers that call back into the socket while the retry queue works
// (an Emit that never returns is a mutex left held).
var c15RetryProp, c15CheckRetry = func() (string, string) {
	if envStr("VERIF_AS", "") == "C16" {
		return "C16", "c16-retry-queue-reentrancy"
	}
	return "C15", "c15-retry-queue"
}()

type c15rEmit struct {
	AtMs int    `json:"at_ms"` // -1: before Connect is called
	Kind string `json:"kind"`  // plain | ack | volatile | unacked (an event the server never acknowledges: given up after Retries + 1 timeouts; its ack function then emits again)
}

type c15rCase struct {
	Transport    string     `json:"transport"`
	Retries      int        `json:"retries"`
	AckTimeoutMs int        `json:"ack_timeout_ms"`
	ConnectMs    int        `json:"connect_ms"` // namespace middleware delay: the CONNECT stays pending that long
	DownAtMs     int        `json:"down_at_ms"` // -1: no outage
	OutageMs     int        `json:"outage_ms"`
	Emits        []c15rEmit `json:"emits"`
}

func (c c15rCase) upAt() int { return c.DownAtMs + c.OutageMs }

func (c c15rCase) class() string {
	cls := c.Transport
	if c.DownAtMs >= 0 {
		cls += ",outage"
	}
	if c.ConnectMs > 0 {
		cls += ",slow-connect"
	}
	return cls
}

func evalC15Retry(c c15rCase) (f *Failure, nontrivial bool) {
	c.Emits = append([]c15rEmit(nil), c.Emits...)
	sort.SliceStable(c.Emits, func(i, k int) bool { return c.Emits[i].AtMs < c.Emits[k].AtMs }) // tokens are numbered in emission order
	class := c.class()
	fail := func(clause, detail string) *Failure {
		return &Failure{Property: c15RetryProp, Check: c15CheckRetry, Clause: clause, Class: class, Detail: detail, Case: c}
	}
	journal(c15CheckRetry, class, c)
	var res *Failure
	msg := runRig(rigOpts{}, func(r *rig) {
		start := time.Now()
		var mu sync.Mutex
		var received []int
		r.Server.Use(func(s sio.ServerSocket, h *sio.Handshake) any {
			s.OnEvent("e", func(tok int, ack func(int)) {
				mu.Lock()
				received = append(received, tok)
				mu.Unlock()
				ack(tok)
			})
			s.OnEvent("n", func(tok int) { // never acknowledged
				mu.Lock()
				received = append(received, tok)
				mu.Unlock()
			})
			if c.ConnectMs > 0 {
				time.Sleep(time.Duration(c.ConnectMs) * time.Millisecond)
			}
			return nil
		})
		d, j := 100*time.Millisecond, float32(0)
		m := r.manager(c01Transports(c.Transport), func(cfg *sio.ManagerConfig) {
			cfg.NoReconnection = false
			cfg.ReconnectionDelay = &d
			cfg.ReconnectionDelayMax = &d
			cfg.RandomizationFactor = &j
		})
		cli := m.Socket("/", &sio.ClientSocketConfig{Retries: c.Retries, AckTimeout: time.Duration(c.AckTimeoutMs) * time.Millisecond})
		var cliErrs []string
		m.OnError(func(err error) { mu.Lock(); cliErrs = append(cliErrs, err.Error()); mu.Unlock() })
		type ackRec struct {
			err  error
			back int
		}
		acks := map[int][]ackRec{}
		emitState := map[int]string{}
		emit := func(tok int, e c15rEmit) {
			st := "offline"
			if cli.Connected() {
				st = "connected"
			}
			mu.Lock()
			emitState[tok] = st
			mu.Unlock()
			switch e.Kind {
			case "plain":
				cli.Emit("e", tok)
			case "volatile":
				cli.Volatile().Emit("e", tok)
			case "ack":
				cli.Emit("e", tok, func(err error, back int) {
					mu.Lock()
					acks[tok] = append(acks[tok], ackRec{err, back})
					mu.Unlock()
				})
			case "unacked":
				cli.Emit("n", tok, func(err error, back int) {
					mu.Lock()
					acks[tok] = append(acks[tok], ackRec{err, back})
					mu.Unlock()
					// the application reacts to the failure by telling the server something else, on the same socket
					cli.Emit("e", 1000+tok, func(err error, back int) {
						mu.Lock()
						acks[1000+tok] = append(acks[1000+tok], ackRec{err, back})
						mu.Unlock()
					})
				})
			}
		}
		type action struct {
			at int
			fn func()
		}
		var actions []action
		for i, e := range c.Emits {
			tok, e := i+1, e
			if e.AtMs < 0 {
				emit(tok, e)
				continue
			}
			actions = append(actions, action{e.AtMs, func() { emit(tok, e) }})
		}
		cli.Connect()
		if c.DownAtMs >= 0 {
			actions = append(actions, action{c.DownAtMs, func() { r.Net.SetRefuse(true); r.Net.CutAll() }}, action{c.upAt(), func() { r.Net.SetRefuse(false) }})
		}
		sort.SliceStable(actions, func(i, k int) bool { return actions[i].at < actions[k].at })
		for _, a := range actions {
			if w := time.Duration(a.at)*time.Millisecond - time.Since(start); w > 0 {
				time.Sleep(w)
			}
			a.fn()
		}
		// everything that is owed can be delivered without a single retry; leave room for a few anyway
		time.Sleep(time.Duration(c.ConnectMs+c.AckTimeoutMs*(c.Retries+3)+4000) * time.Millisecond)
		settle(0)
		// one more emit, on a goroutine of its own: an Emit that never returns (the queue's mutex left held) is reported, not waited for
		var probeReturned atomic.Bool
		go func() { cli.Emit("e", 9999); probeReturned.Store(true) }()
		for i := 0; i < 200 && !probeReturned.Load(); i++ {
			time.Sleep(100 * time.Millisecond) // up to 20 s, virtual or real
		}
		if !probeReturned.Load() {
			res = fail("emit-returns", "an Emit on the socket made after everything else has not returned 20 s later")
			return
		}
		settle(time.Second)
		mu.Lock()
		defer mu.Unlock()
		if !cli.Connected() {
			res = fail("reconnects", fmt.Sprintf("the socket is not connected %v after the server was reachable again (client errors %v)", time.Since(start)-time.Duration(max(c.upAt(), 0))*time.Millisecond, cliErrs))
			return
		}
		count := map[int]int{}
		var firsts []int
		for _, tok := range received {
			if tok < 1000 && count[tok] == 0 && c.Emits[tok-1].Kind != "volatile" {
				firsts = append(firsts, tok)
			}
			count[tok]++
		}
		for i, e := range c.Emits {
			tok := i + 1
			desc := fmt.Sprintf("emit %d (%s at %d ms, client %s at that moment)", tok, e.Kind, e.AtMs, emitState[tok])
			if e.Kind == "volatile" {
				// offline beyond doubt: before Connect was called, or inside the outage. (At the instants around a connect the socket's state may
				// change between the harness looking at it and the library looking at it.)
				offline := e.AtMs < 0 || c.DownAtMs >= 0 && e.AtMs >= c.DownAtMs+60 && e.AtMs < c.upAt()
				if offline && emitState[tok] == "offline" && count[tok] != 0 {
					res = fail("volatile-dropped-offline", fmt.Sprintf("%s was delivered although it is volatile and the socket was disconnected", desc))
					return
				}
				if count[tok] > 1 {
					res = fail("exactly-once", fmt.Sprintf("%s reached the server %d times", desc, count[tok]))
					return
				}
				continue
			}
			if e.Kind == "unacked" {
				// sent Retries + 1 times (at-least-once is the contract of Retries), then given up: the ack function hears about it once, and
				// what it emits in reaction is delivered like anything else
				if len(acks[tok]) != 1 || acks[tok][0].err == nil {
					res = fail("ack-callback-once", fmt.Sprintf("%s is never acknowledged (Retries %d, AckTimeout %d ms): its ack function ran with %v, want one call with an error (server received %v)", desc, c.Retries, c.AckTimeoutMs, acks[tok], received))
					return
				}
				if count[1000+tok] != 1 || len(acks[1000+tok]) != 1 || acks[1000+tok][0].err != nil {
					res = fail("offline-emit-delivered-once", fmt.Sprintf("%s: the event emitted from its ack function reached the server %d times, its own ack function ran with %v", desc, count[1000+tok], acks[1000+tok]))
					return
				}
				continue
			}
			if count[tok] != 1 {
				clause := "exactly-once"
				if count[tok] == 0 {
					clause = "offline-emit-delivered-once"
				}
				res = fail(clause, fmt.Sprintf("%s reached the server %d times; the server acknowledges at once, nothing was in flight when the link went down (server received %v, client errors %v)", desc, count[tok], received, cliErrs))
				return
			}
			if e.Kind == "ack" {
				if len(acks[tok]) != 1 || acks[tok][0].err != nil || acks[tok][0].back != tok {
					res = fail("ack-callback-once", fmt.Sprintf("%s was delivered once and acknowledged with %d; its callback ran with %v (server received %v, client errors %v)", desc, tok, acks[tok], received, cliErrs))
					return
				}
			}
		}
		if !sort.IntsAreSorted(firsts) {
			res = fail("in-order", fmt.Sprintf("the queued events arrived in the order %v (client errors %v)", firsts, cliErrs))
		}
	})
	if res == nil && msg != "" && !isBubbleDeadlock(msg) {
		res = fail("bubble-panic", "synctest: "+msg)
	}
	offline := 0
	for _, e := range c.Emits {
		if e.Kind != "volatile" && (e.AtMs < c.ConnectMs || c.DownAtMs >= 0 && e.AtMs >= c.DownAtMs && e.AtMs < c.upAt()+100+c.ConnectMs) {
			offline++
		}
	}
	return res, offline >= 2
}

func genC15Retry(t *rapid.T) c15rCase {
	c := c15rCase{Transport: rapid.SampledFrom([]string{"websocket", "polling"}).Draw(t, "transport"), Retries: rapid.IntRange(1, 3).Draw(t, "retries"),
		AckTimeoutMs: rapid.SampledFrom([]int{500, 1500}).Draw(t, "ackTimeout"), ConnectMs: rapid.SampledFrom([]int{0, 0, 150, 400}).Draw(t, "connectMs"),
		DownAtMs: -1}
	if rapid.IntRange(0, 3).Draw(t, "outage") != 0 {
		c.DownAtMs = rapid.IntRange(1500, 3000).Draw(t, "down")
		c.OutageMs = rapid.SampledFrom([]int{300, 1000, 2500}).Draw(t, "outageMs")
	}
	end := 4000
	if c.DownAtMs >= 0 {
		end = c.upAt() + 100 + c.ConnectMs + 1500
	}
	for i, n := 0, rapid.IntRange(1, 10).Draw(t, "emits"); i < n; i++ {
		e := c15rEmit{Kind: rapid.SampledFrom([]string{"plain", "plain", "ack", "ack", "volatile"}).Draw(t, "kind")}
		switch rapid.IntRange(0, 5).Draw(t, "where") {
		case 0:
			e.AtMs = -1
		case 1:
			e.AtMs = rapid.IntRange(0, c.ConnectMs+20).Draw(t, "atConnect") // while the first CONNECT is pending
		case 2, 3:
			if c.DownAtMs >= 0 {
				e.AtMs = rapid.IntRange(c.DownAtMs, c.upAt()+100+c.ConnectMs+20).Draw(t, "atOutage") // offline, or while the reconnecting CONNECT is pending
				break
			}
			fallthrough
		default:
			e.AtMs = rapid.IntRange(0, end).Draw(t, "at")
		}
		// keep emits away from the instant at which the link goes down: a packet in flight there is legitimately sent again
		if c.DownAtMs >= 0 && e.AtMs > c.DownAtMs-60 && e.AtMs < c.DownAtMs+60 {
			e.AtMs = c.DownAtMs + 60
		}
		c.Emits = append(c.Emits, e)
	}
	// (without an outage only: an event that is never acknowledged holds the queue up for seconds, so that what is in flight when a link goes
	// down can no longer be told from the case - and that is legitimately sent again)
	if c.DownAtMs < 0 && rapid.IntRange(0, 1).Draw(t, "unacked") == 0 {
		c.Emits[rapid.IntRange(0, len(c.Emits)-1).Draw(t, "which")].Kind = "unacked"
	}
	return c
}

func TestC15_RetryQueue(t *testing.T) {
	setT(t)
	defer startWatchdog(t, 90*1e9)()
	ev := NewEv(t, c15RetryProp, c15CheckRetry, "virtual-time rig, a client socket with Retries 1..3 and AckTimeout {0.5, 1.5 s} (emits go through the retry queue), transports {websocket, polling}, CONNECT pending "+
		"{0, 150, 400 ms}, optional outage of {0.3, 1, 2.5 s} (links cut, dials refused), 1..10 emits of kind plain / with ack function / volatile placed before Connect, while the first CONNECT is pending, "+
		"online, offline and while the reconnecting CONNECT is pending; the server acknowledges every event at once; oracle: every queued event reaches the server exactly once and in emission order, "+
		"its ack function runs once with the server's value, volatile events emitted offline never arrive; non-trivial = >= 2 queued emits made while the socket was not connected")
	rapidGuard(t, c15RetryProp, c15CheckRetry)
	runRapid(t, c15CheckRetry, tierN(1500, 30000), func(t *rapid.T) {
		c := genC15Retry(t)
		f, nt := evalC15Retry(c)
		ev.Case(c, nt, c.class())
		if nt {
			ev.Sample(c.class(), c)
		}
		if f != nil {
			FailRapid(t, *f)
		}
	})
}

func init() {
	registerReplay(c15CheckRetry, func(raw json.RawMessage) *Failure {
		f, _ := evalC15Retry(decodeCase[c15rCase](raw))
		return f
	})
}
