package refcodec

import (
	"bytes"
	"encoding/json"
	"errors"
	"fmt"
	"math/big"
	"sort"
	"strconv"
	"strings"
)

// Socket.IO v5 packet framing, from the protocol document:
//
//	<packet type>[<# of binary attachments>-][<namespace>,][<acknowledgment id>][JSON-stringified payload without binary]
//	+ binary attachments extracted, each replaced by {"_placeholder":true,"num":<index>}
//
// Types: 0 CONNECT, 1 DISCONNECT, 2 EVENT, 3 ACK, 4 CONNECT_ERROR, 5 BINARY_EVENT, 6 BINARY_ACK.

type SIOHeader struct {
	Type        int
	Attachments int // only meaningful for types 5 and 6
	Namespace   string
	HasID       bool
	ID          uint64
	JSON        []byte // rest of the text frame (may be empty)
}

func (h SIOHeader) Binary() bool { return h.Type == 5 || h.Type == 6 }

// EncodeSIOHeader produces the header prefix (everything before the JSON part).
func EncodeSIOHeader(typ int, attachments int, namespace string, hasID bool, id uint64) []byte {
	var b bytes.Buffer
	b.WriteByte(byte('0' + typ))
	if typ == 5 || typ == 6 {
		b.WriteString(strconv.Itoa(attachments))
		b.WriteByte('-')
	}
	if namespace != "" && namespace != "/" {
		b.WriteString(namespace)
		b.WriteByte(',')
	}
	if hasID {
		b.WriteString(strconv.FormatUint(id, 10))
	}
	return b.Bytes()
}

var (
	ErrSIOEmpty       = errors.New("refcodec: empty frame")
	ErrSIOType        = errors.New("refcodec: invalid packet type")
	ErrSIOAttachments = errors.New("refcodec: invalid attachment count")
	ErrSIONamespace   = errors.New("refcodec: namespace without terminating comma")
	ErrSIOID          = errors.New("refcodec: ack id not representable")
)

// ParseSIOHeader reads the header of a text frame the way the reference implementation (socket.io-parser) does.
func ParseSIOHeader(frame []byte) (h SIOHeader, err error) {
	if len(frame) == 0 {
		return h, ErrSIOEmpty
	}
	if frame[0] < '0' || frame[0] > '6' {
		return h, ErrSIOType
	}
	h.Type = int(frame[0] - '0')
	rest := frame[1:]
	if h.Binary() {
		i := bytes.IndexByte(rest, '-')
		if i <= 0 {
			return h, ErrSIOAttachments
		}
		for _, c := range rest[:i] {
			if c < '0' || c > '9' {
				return h, ErrSIOAttachments
			}
		}
		n, perr := strconv.ParseUint(string(rest[:i]), 10, 31)
		if perr != nil {
			return h, ErrSIOAttachments
		}
		h.Attachments = int(n)
		rest = rest[i+1:]
	}
	h.Namespace = "/"
	if len(rest) > 0 && rest[0] == '/' {
		i := bytes.IndexByte(rest, ',')
		if i < 0 {
			// The reference parser takes the rest of the string as namespace; there is then no payload.
			h.Namespace = string(rest)
			rest = nil
		} else {
			h.Namespace = string(rest[:i])
			rest = rest[i+1:]
		}
	}
	if len(rest) > 0 && rest[0] >= '0' && rest[0] <= '9' {
		i := 0
		for i < len(rest) && rest[i] >= '0' && rest[i] <= '9' {
			i++
		}
		id, perr := strconv.ParseUint(string(rest[:i]), 10, 64)
		if perr != nil {
			return h, ErrSIOID
		}
		h.HasID, h.ID = true, id
		rest = rest[i:]
	}
	h.JSON = rest
	return h, nil
}

// ---- value trees -----------------------------------------------------------------------------

// Tree is a JSON value with binary leaves (attachments put back in place of their placeholders).
type Tree struct {
	Kind string          `json:"k"` // null | bool | num | str | arr | obj | bin
	Bool bool            `json:"b,omitempty"`
	Num  string          `json:"n,omitempty"` // decimal text of the number
	Str  string          `json:"s,omitempty"`
	Arr  []Tree          `json:"a,omitempty"`
	Obj  map[string]Tree `json:"o,omitempty"`
	Bin  []byte          `json:"bin"` // nil and empty are kept apart (null vs "")
}

func (t Tree) String() string {
	switch t.Kind {
	case "null":
		return "null"
	case "bool":
		return strconv.FormatBool(t.Bool)
	case "num":
		return t.Num
	case "str":
		return strconv.Quote(t.Str)
	case "bin":
		if len(t.Bin) > 16 {
			return fmt.Sprintf("<bin %d bytes %x…>", len(t.Bin), t.Bin[:16])
		}
		return fmt.Sprintf("<bin %x>", t.Bin)
	case "arr":
		parts := make([]string, len(t.Arr))
		for i, e := range t.Arr {
			parts[i] = e.String()
		}
		return "[" + strings.Join(parts, ",") + "]"
	case "obj":
		keys := make([]string, 0, len(t.Obj))
		for k := range t.Obj {
			keys = append(keys, k)
		}
		sort.Strings(keys)
		parts := make([]string, len(keys))
		for i, k := range keys {
			parts[i] = strconv.Quote(k) + ":" + t.Obj[k].String()
		}
		return "{" + strings.Join(parts, ",") + "}"
	}
	return "<?" + t.Kind + ">"
}

func numEqual(a, b string) bool {
	if a == b {
		return true
	}
	ra, ok1 := new(big.Rat).SetString(a)
	rb, ok2 := new(big.Rat).SetString(b)
	if ok1 && ok2 {
		return ra.Cmp(rb) == 0
	}
	return false
}

// Equal compares two trees (numbers numerically, nil and empty binary alike).
func (t Tree) Equal(o Tree) bool { return t.Diff(o, "$") == "" }

// Diff returns "" if equal, else the path and description of the first difference.
func (t Tree) Diff(o Tree, path string) string {
	if t.Kind != o.Kind {
		return fmt.Sprintf("%s: %s vs %s", path, t.String(), o.String())
	}
	switch t.Kind {
	case "bool":
		if t.Bool != o.Bool {
			return fmt.Sprintf("%s: %v vs %v", path, t.Bool, o.Bool)
		}
	case "num":
		if !numEqual(t.Num, o.Num) {
			return fmt.Sprintf("%s: %s vs %s", path, t.Num, o.Num)
		}
	case "str":
		if t.Str != o.Str {
			return fmt.Sprintf("%s: %q vs %q", path, t.Str, o.Str)
		}
	case "bin":
		if !bytes.Equal(t.Bin, o.Bin) {
			return fmt.Sprintf("%s: %s vs %s", path, t.String(), o.String())
		}
	case "arr":
		if len(t.Arr) != len(o.Arr) {
			return fmt.Sprintf("%s: array length %d vs %d", path, len(t.Arr), len(o.Arr))
		}
		for i := range t.Arr {
			if d := t.Arr[i].Diff(o.Arr[i], fmt.Sprintf("%s[%d]", path, i)); d != "" {
				return d
			}
		}
	case "obj":
		if len(t.Obj) != len(o.Obj) {
			return fmt.Sprintf("%s: object with %d vs %d keys (%s vs %s)", path, len(t.Obj), len(o.Obj), t.String(), o.String())
		}
		keys := make([]string, 0, len(t.Obj))
		for k := range t.Obj {
			keys = append(keys, k)
		}
		sort.Strings(keys)
		for _, k := range keys {
			ov, ok := o.Obj[k]
			if !ok {
				return fmt.Sprintf("%s: key %q missing on one side", path, k)
			}
			if d := t.Obj[k].Diff(ov, path+"."+k); d != "" {
				return d
			}
		}
	}
	return ""
}

// ParseJSONTree parses JSON text into a Tree (numbers kept as text). Placeholders are NOT resolved.
func ParseJSONTree(b []byte) (Tree, error) {
	dec := json.NewDecoder(bytes.NewReader(b))
	dec.UseNumber()
	var v any
	if err := dec.Decode(&v); err != nil {
		return Tree{}, err
	}
	if dec.More() {
		return Tree{}, errors.New("refcodec: trailing data after JSON value")
	}
	return fromAny(v), nil
}

func fromAny(v any) Tree {
	switch x := v.(type) {
	case nil:
		return Tree{Kind: "null"}
	case bool:
		return Tree{Kind: "bool", Bool: x}
	case json.Number:
		return Tree{Kind: "num", Num: x.String()}
	case string:
		return Tree{Kind: "str", Str: x}
	case []any:
		t := Tree{Kind: "arr", Arr: make([]Tree, len(x))}
		for i, e := range x {
			t.Arr[i] = fromAny(e)
		}
		return t
	case map[string]any:
		t := Tree{Kind: "obj", Obj: make(map[string]Tree, len(x))}
		for k, e := range x {
			t.Obj[k] = fromAny(e)
		}
		return t
	}
	return Tree{Kind: "?"}
}

// IsPlaceholder reports whether t is exactly {"_placeholder":true,"num":k} with k a non-negative integer.
func (t Tree) IsPlaceholder() (k int, ok bool) {
	if t.Kind != "obj" || len(t.Obj) != 2 {
		return 0, false
	}
	p, ok1 := t.Obj["_placeholder"]
	n, ok2 := t.Obj["num"]
	if !ok1 || !ok2 || p.Kind != "bool" || !p.Bool || n.Kind != "num" {
		return 0, false
	}
	v, err := strconv.ParseUint(n.Num, 10, 31)
	if err != nil {
		return 0, false
	}
	return int(v), true
}

// ResolvePlaceholders replaces every placeholder by the attachment it names. used counts how often each attachment was
// referenced. An out-of-range placeholder is an error.
func (t Tree) ResolvePlaceholders(attachments [][]byte, used []int) (Tree, error) {
	if k, ok := t.IsPlaceholder(); ok {
		if k >= len(attachments) {
			return t, fmt.Errorf("refcodec: placeholder num %d with %d attachments", k, len(attachments))
		}
		used[k]++
		return Tree{Kind: "bin", Bin: attachments[k]}, nil
	}
	switch t.Kind {
	case "arr":
		out := Tree{Kind: "arr", Arr: make([]Tree, len(t.Arr))}
		for i, e := range t.Arr {
			r, err := e.ResolvePlaceholders(attachments, used)
			if err != nil {
				return t, err
			}
			out.Arr[i] = r
		}
		return out, nil
	case "obj":
		out := Tree{Kind: "obj", Obj: make(map[string]Tree, len(t.Obj))}
		for k, e := range t.Obj {
			r, err := e.ResolvePlaceholders(attachments, used)
			if err != nil {
				return t, err
			}
			out.Obj[k] = r
		}
		return out, nil
	}
	return t, nil
}

// CountBin counts binary leaves.
func (t Tree) CountBin() int {
	n := 0
	switch t.Kind {
	case "bin":
		return 1
	case "arr":
		for _, e := range t.Arr {
			n += e.CountBin()
		}
	case "obj":
		for _, e := range t.Obj {
			n += e.CountBin()
		}
	}
	return n
}

// MaxBinDepth returns the deepest nesting level at which a binary leaf occurs (0 = the tree itself is one; -1 none).
func (t Tree) MaxBinDepth() int {
	switch t.Kind {
	case "bin":
		return 0
	case "arr":
		best := -1
		for _, e := range t.Arr {
			if d := e.MaxBinDepth(); d >= 0 && d+1 > best {
				best = d + 1
			}
		}
		return best
	case "obj":
		best := -1
		for _, e := range t.Obj {
			if d := e.MaxBinDepth(); d >= 0 && d+1 > best {
				best = d + 1
			}
		}
		return best
	}
	return -1
}

// ---- whole packets -----------------------------------------------------------------------------

// SIOPacket is a decoded Socket.IO packet with attachments back in place.
type SIOPacket struct {
	Header  SIOHeader
	Payload *Tree // nil when the packet has no JSON part
}

// DecodeSIOPacket decodes a complete packet from its frames (frames[0] text, the rest attachments).
func DecodeSIOPacket(frames [][]byte) (SIOPacket, error) {
	var p SIOPacket
	if len(frames) == 0 {
		return p, ErrSIOEmpty
	}
	h, err := ParseSIOHeader(frames[0])
	if err != nil {
		return p, err
	}
	p.Header = h
	want := 0
	if h.Binary() {
		want = h.Attachments
	}
	if len(frames)-1 != want {
		return p, fmt.Errorf("refcodec: header announces %d attachments, %d frames follow", want, len(frames)-1)
	}
	if len(h.JSON) == 0 {
		return p, nil
	}
	t, err := ParseJSONTree(h.JSON)
	if err != nil {
		return p, fmt.Errorf("refcodec: payload: %w", err)
	}
	used := make([]int, want)
	if h.Binary() {
		t, err = t.ResolvePlaceholders(frames[1:], used)
		if err != nil {
			return p, err
		}
		for k, u := range used {
			if u != 1 {
				return p, fmt.Errorf("refcodec: attachment %d referenced %d times", k, u)
			}
		}
	}
	p.Payload = &t
	return p, nil
}

// StreamDecoder reassembles packets from a sequence of Engine.IO message frames and checks contiguity: a text frame where
// an attachment is due, or a binary frame where none is due, is an error.
type StreamDecoder struct {
	pending [][]byte
	need    int
}

func (d *StreamDecoder) Add(frame []byte, binary bool) (pkt *SIOPacket, err error) {
	if d.need > 0 {
		if !binary {
			return nil, fmt.Errorf("refcodec: text frame %q arrived while %d attachment(s) of the previous packet were due", truncate(frame, 40), d.need)
		}
		d.pending = append(d.pending, frame)
		d.need--
		if d.need > 0 {
			return nil, nil
		}
		p, err := DecodeSIOPacket(d.pending)
		d.pending = nil
		if err != nil {
			return nil, err
		}
		return &p, nil
	}
	if binary {
		return nil, fmt.Errorf("refcodec: binary frame (%d bytes) arrived while no attachment was due", len(frame))
	}
	h, err := ParseSIOHeader(frame)
	if err != nil {
		return nil, err
	}
	if h.Binary() && h.Attachments > 0 {
		d.pending = [][]byte{frame}
		d.need = h.Attachments
		return nil, nil
	}
	p, err := DecodeSIOPacket([][]byte{frame})
	if err != nil {
		return nil, err
	}
	return &p, nil
}

func truncate(b []byte, n int) []byte {
	if len(b) > n {
		return b[:n]
	}
	return b
}
