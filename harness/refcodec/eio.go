// Package refcodec holds from-scratch reference encoders/decoders for Engine.IO v4 and Socket.IO v5, written from the
// protocol documents. It shares no code with the repository under test.
package refcodec

import (
	"encoding/base64"
	"errors"
)

// EIOPacket is an Engine.IO packet as the protocol sees it.
type EIOPacket struct {
	Type   byte // 0..6
	Binary bool // only for messages (type 4)
	Data   []byte
}

// EncodeEIO encodes one packet. Binary packets are sent as raw bytes when the transport supports binary frames and as
// 'b' + standard base64 otherwise; text packets are the type digit followed by the data.
func EncodeEIO(p EIOPacket, supportsBinary bool) []byte {
	if p.Binary {
		if supportsBinary {
			return append([]byte(nil), p.Data...)
		}
		out := make([]byte, 1+base64.StdEncoding.EncodedLen(len(p.Data)))
		out[0] = 'b'
		base64.StdEncoding.Encode(out[1:], p.Data)
		return out
	}
	out := make([]byte, 0, 1+len(p.Data))
	out = append(out, '0'+p.Type)
	return append(out, p.Data...)
}

// EncodeEIOPayload encodes a long-polling payload: packets (base64 form for binary) separated by 0x1e.
func EncodeEIOPayload(ps []EIOPacket) []byte {
	var out []byte
	for i, p := range ps {
		if i > 0 {
			out = append(out, 0x1e)
		}
		out = append(out, EncodeEIO(p, false)...)
	}
	return out
}

// EncodeWTFrame encodes a WebTransport frame: header (binary flag in the top bit, 7-bit length, 126 => 16-bit
// big-endian length follows, 127 => 64-bit big-endian length follows) and then the packet in its binary-capable form.
func EncodeWTFrame(p EIOPacket) []byte {
	body := EncodeEIO(p, true)
	n := len(body)
	var h []byte
	switch {
	case n < 126:
		h = []byte{byte(n)}
	case n < 65536:
		h = []byte{126, byte(n >> 8), byte(n)}
	default:
		h = []byte{127, byte(uint64(n) >> 56), byte(uint64(n) >> 48), byte(uint64(n) >> 40), byte(uint64(n) >> 32),
			byte(n >> 24), byte(n >> 16), byte(n >> 8), byte(n)}
	}
	if p.Binary {
		h[0] |= 0x80
	}
	return append(h, body...)
}

var ErrShort = errors.New("refcodec: short input")

// DecodeWTFrame decodes one frame from the front of b and returns the rest.
func DecodeWTFrame(b []byte) (p EIOPacket, rest []byte, err error) {
	if len(b) < 1 {
		return p, nil, ErrShort
	}
	bin := b[0]&0x80 != 0
	n := uint64(b[0] & 0x7f)
	b = b[1:]
	switch n {
	case 126:
		if len(b) < 2 {
			return p, nil, ErrShort
		}
		n = uint64(b[0])<<8 | uint64(b[1])
		b = b[2:]
	case 127:
		if len(b) < 8 {
			return p, nil, ErrShort
		}
		n = 0
		for i := 0; i < 8; i++ {
			n = n<<8 | uint64(b[i])
		}
		b = b[8:]
	}
	if uint64(len(b)) < n {
		return p, nil, ErrShort
	}
	body, rest := b[:n], b[n:]
	if bin {
		return EIOPacket{Type: 4, Binary: true, Data: append([]byte(nil), body...)}, rest, nil
	}
	if len(body) >= 1 && body[0] == 'b' {
		// The reference Engine.IO decoder treats any text packet starting with 'b' as base64 binary, on every transport.
		d, err := base64.StdEncoding.DecodeString(string(body[1:]))
		if err != nil {
			return p, rest, errors.New("refcodec: bad base64 frame")
		}
		return EIOPacket{Type: 4, Binary: true, Data: d}, rest, nil
	}
	if len(body) < 1 || body[0] < '0' || body[0] > '6' {
		return p, rest, errors.New("refcodec: bad text frame")
	}
	return EIOPacket{Type: body[0] - '0', Data: append([]byte(nil), body[1:]...)}, rest, nil
}
