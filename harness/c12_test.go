package harness

// C12 — middlewares gate admission and events: nothing passes that a middleware rejected. DESIGN.md §3 C12.

import (
	"encoding/json"
	"errors"
	"fmt"
	"reflect"
	"sort"
	"strconv"
	"strings"
	"sync"
	"testing"
	"time"

	sio "github.com/karagenc/socket.io-go"
	"pgregory.net/rapid"
)

// ---- namespace middleware chains -----------------------------------------------------------------------------------------

const c12CheckNsp = "c12-namespace-chain"

type c12MW struct {
	Verdict string `json:"verdict"` // accept | error | string | struct
	SlowMs  int    `json:"slow_ms"`
}

type c12NspCase struct {
	Namespace string  `json:"namespace"` // "/" or "/adm"
	Transport string  `json:"transport"`
	Chain     []c12MW `json:"chain"`
	Clients   int     `json:"clients"`
	// a broadcast is issued this many ms after the clients start connecting (while slow middlewares still run)
	BroadcastAtMs int `json:"broadcast_at_ms"`
	// connection state recovery enabled on the server (middlewares are skipped for RECOVERED sockets only), and clients whose CONNECT
	// claims a session that does not exist ({pid, offset} in the auth payload): not recovered, so the chain applies in full
	Recovery     bool `json:"recovery"`
	ClaimSession bool `json:"claim_session"`
}

type c12Rejection struct {
	Code   int    `json:"code"`
	Reason string `json:"reason"`
}

func (c c12NspCase) firstReject() int {
	for i, m := range c.Chain {
		if m.Verdict != "accept" {
			return i
		}
	}
	return -1
}

func evalC12Nsp(c c12NspCase) (f *Failure, nontrivial bool) {
	class := fmt.Sprintf("chain=%d,reject=%d", len(c.Chain), c.firstReject())
	fail := func(clause, detail string) *Failure {
		return &Failure{Property: "C12", Check: c12CheckNsp, Clause: clause, Class: class, Detail: detail, Case: c}
	}
	journal(c12CheckNsp, class, c)
	var res *Failure
	set := func(f *Failure) {
		if res == nil {
			res = f
		}
	}
	msg := runRig(rigOpts{Recovery: c.Recovery}, func(r *rig) {
		var mu sync.Mutex
		nsp := r.Server.Of(c.Namespace)
		invoked := map[sio.SocketID][]int{} // server socket id -> middleware indices in invocation order
		inChain := map[sio.SocketID]bool{}
		connHandler := map[sio.SocketID]int{}
		var violations []string
		for i, m := range c.Chain {
			i, m := i, m
			nsp.Use(func(s sio.ServerSocket, h *sio.Handshake) any {
				id := s.ID()
				mu.Lock()
				invoked[id] = append(invoked[id], i)
				inChain[id] = true
				mu.Unlock()
				check := func(when string) {
					for _, o := range nsp.Sockets() {
						if o.ID() == id {
							mu.Lock()
							violations = append(violations, fmt.Sprintf("socket %s is listed in the namespace %s middleware %d", id, when, i))
							mu.Unlock()
						}
					}
					if s.Connected() {
						mu.Lock()
						violations = append(violations, fmt.Sprintf("socket %s reports Connected()==true %s middleware %d", id, when, i))
						mu.Unlock()
					}
					if n := s.Rooms().Cardinality(); n != 0 {
						mu.Lock()
						violations = append(violations, fmt.Sprintf("socket %s is in %d room(s) %s middleware %d", id, n, when, i))
						mu.Unlock()
					}
				}
				check("at the start of")
				if m.SlowMs > 0 {
					time.Sleep(time.Duration(m.SlowMs) * time.Millisecond)
					check("at the end of slow")
				}
				mu.Lock()
				inChain[id] = false
				mu.Unlock()
				switch m.Verdict {
				case "error":
					return fmt.Errorf("rejected by %d", i)
				case "string":
					return fmt.Sprintf("rejected by %d", i)
				case "struct":
					return &c12Rejection{Code: i, Reason: "rejected"}
				// rejections whose value is the zero value of its type: not nil, so they reject like any other
				case "empty-string":
					return ""
				case "zero-struct":
					return c12Rejection{}
				case "zero-int":
					return 0
				case "false":
					return false
				}
				return nil
			})
		}
		nsp.OnConnection(func(s sio.ServerSocket) {
			mu.Lock()
			connHandler[s.ID()]++
			mu.Unlock()
		})
		type cliState struct {
			sock        sio.ClientSocket
			connected   int
			connectErrs []any
			got         []string
		}
		clients := make([]*cliState, c.Clients)
		for i := range clients {
			st := &cliState{}
			clients[i] = st
			m := r.manager(c01Transports(c.Transport), nil)
			s := m.Socket(c.Namespace, nil)
			if c.ClaimSession {
				s.SetAuth(map[string]any{"pid": fmt.Sprintf("no-such-session-%d", i), "offset": "zzzz"})
			}
			st.sock = s
			s.OnConnect(func() { mu.Lock(); st.connected++; mu.Unlock() })
			s.OnConnectError(func(err any) { mu.Lock(); st.connectErrs = append(st.connectErrs, err); mu.Unlock() })
			s.OnEvent("bc", func(tag string, _ int) { // (no trailing string parameter: known finding KF-C01-1 with recovery enabled)
				mu.Lock()
				st.got = append(st.got, tag)
				mu.Unlock()
			})
		}
		for _, st := range clients {
			st.sock.Connect()
		}
		if c.BroadcastAtMs > 0 {
			settle(time.Duration(c.BroadcastAtMs) * time.Millisecond)
			mu.Lock()
			anyInChain := false
			for _, v := range inChain {
				anyInChain = anyInChain || v
			}
			mu.Unlock()
			if anyInChain {
				nontrivial = true
			}
			nsp.Emit("bc", "early", 0)
		}
		settle(10 * time.Second)
		nsp.Emit("bc", "late", 0)
		settle(time.Second)

		mu.Lock()
		defer mu.Unlock()
		if len(violations) > 0 {
			set(fail("not-attached-before-accepted", violations[0]))
			return
		}
		j := c.firstReject()
		wantIdx := []int{}
		for i := range c.Chain {
			wantIdx = append(wantIdx, i)
			if i == j {
				break
			}
		}
		if len(invoked) != c.Clients && len(c.Chain) > 0 {
			set(fail("chain-runs", fmt.Sprintf("the middleware chain ran for %d sockets, %d clients connected", len(invoked), c.Clients)))
			return
		}
		for id, idx := range invoked {
			if fmt.Sprint(idx) != fmt.Sprint(wantIdx) {
				set(fail("chain-order", fmt.Sprintf("socket %s: middlewares ran as %v, want %v (first rejection stops the chain)", id, idx, wantIdx)))
				return
			}
		}
		listed := map[sio.SocketID]bool{}
		for _, s := range nsp.Sockets() {
			listed[s.ID()] = true
		}
		for ci, st := range clients {
			if j < 0 {
				// all accepted
				if st.connected != 1 || len(st.connectErrs) != 0 || !st.sock.Connected() {
					set(fail("accepted-connects", fmt.Sprintf("client %d: every middleware accepted but connect fired %d times, connect_error %v, Connected()=%v", ci, st.connected, st.connectErrs, st.sock.Connected())))
					return
				}
				id := st.sock.ID()
				if !listed[id] || connHandler[id] != 1 {
					set(fail("accepted-attached", fmt.Sprintf("client %d (socket %s): listed=%v, connection handler ran %d times", ci, id, listed[id], connHandler[id])))
					return
				}
				rooms, ok := nsp.Adapter().SocketRooms(id)
				if !ok || !rooms.Contains(sio.Room(id)) {
					set(fail("accepted-attached", fmt.Sprintf("client %d (socket %s) is not in its own room after connecting", ci, id)))
					return
				}
				late := 0
				for _, g := range st.got {
					if g == "late" {
						late++
					}
					if g == "early" && c.BroadcastAtMs > 0 {
						// an early broadcast may legitimately reach a socket only if it had already been admitted by then; with slow middlewares
						// (the only cases that set BroadcastAtMs) admission happens after the chain, i.e. after the broadcast
						total := 0
						for _, m := range c.Chain {
							total += m.SlowMs
						}
						if total > c.BroadcastAtMs {
							set(fail("no-broadcast-in-chain", fmt.Sprintf("client %d received the broadcast issued at %d ms although its middleware chain takes %d ms", ci, c.BroadcastAtMs, total)))
							return
						}
					}
				}
				if late != 1 {
					set(fail("accepted-reachable", fmt.Sprintf("client %d received the broadcast issued after admission %d times", ci, late)))
					return
				}
			} else {
				if st.connected != 0 || st.sock.Connected() {
					set(fail("rejected-not-connected", fmt.Sprintf("client %d: middleware %d rejected but connect fired %d times / Connected()=%v", ci, j, st.connected, st.sock.Connected())))
					return
				}
				if len(st.connectErrs) != 1 {
					set(fail("rejected-connect-error", fmt.Sprintf("client %d: middleware %d rejected, connect_error fired %d times (%v)", ci, j, len(st.connectErrs), st.connectErrs)))
					return
				}
				got := st.connectErrs[0]
				switch c.Chain[j].Verdict {
				case "error", "string":
					want := fmt.Sprintf("rejected by %d", j)
					e, isErr := got.(error)
					if !isErr || e.Error() != want {
						set(fail("rejection-carried", fmt.Sprintf("client %d: connect_error carries %#v, want the message %q", ci, got, want)))
						return
					}
				case "empty-string":
					if e, isErr := got.(error); !isErr || e.Error() != "" {
						set(fail("rejection-carried", fmt.Sprintf("client %d: connect_error carries %#v, want the empty message", ci, got)))
						return
					}
				case "zero-struct", "zero-int", "false":
					b, _ := json.Marshal(got)
					want := map[string]string{"zero-struct": `{"code":0,"reason":""}`, "zero-int": "0", "false": "false"}[c.Chain[j].Verdict]
					if string(b) != want {
						set(fail("rejection-carried", fmt.Sprintf("client %d: connect_error carries %s, want %s", ci, b, want)))
						return
					}
				case "struct":
					b, _ := json.Marshal(got)
					var back c12Rejection
					if json.Unmarshal(b, &back) != nil || back.Code != j || back.Reason != "rejected" {
						set(fail("rejection-carried", fmt.Sprintf("client %d: connect_error carries %s, want {code:%d, reason:rejected}", ci, b, j)))
						return
					}
				}
				if len(st.got) != 0 {
					set(fail("rejected-unreachable", fmt.Sprintf("client %d was rejected but received broadcasts %v", ci, st.got)))
					return
				}
			}
		}
		if j >= 0 {
			if len(listed) != 0 || len(connHandler) != 0 {
				set(fail("rejected-leaves-nothing", fmt.Sprintf("after the rejections the namespace lists %d sockets and the connection handler ran for %d", len(listed), len(connHandler))))
				return
			}
			if n := nsp.Adapter().Sockets(roomSet(nil)).Cardinality(); n != 0 {
				set(fail("rejected-leaves-nothing", fmt.Sprintf("after the rejections %d socket(s) are still known to the adapter (in a room)", n)))
				return
			}
		}
	})
	if res == nil && msg != "" && !isBubbleDeadlock(msg) {
		res = fail("bubble-panic", "synctest: "+msg)
	}
	if len(c.Chain) >= 2 && c.firstReject() >= 1 {
		nontrivial = true
	}
	return res, nontrivial
}

func TestC12_NamespaceChain(t *testing.T) {
	setT(t)
	defer startWatchdog(t, 60*time.Second)()
	ev := NewEv(t, "C12", c12CheckNsp, "rapid on the virtual-time rig (connection state recovery off / on, clients optionally claiming a session that does not exist): chains of 0..5 namespace middlewares, each accept / reject with error / string / struct / a value that is the zero value of its type (\"\", struct{}, 0, false), optionally slow (virtual delay), on / and a custom "+
		"namespace, 1..4 clients connecting concurrently, a broadcast issued while sockets are still in the chain; oracle: invocation indices 0..j in order (j = first rejecter), inside every middleware the "+
		"socket is not listed, in no room, Connected()==false; all accept => connect once, listed, own room, connection handler once, reachable; reject => connect_error carrying exactly that rejection, "+
		"no connect, no handler, nothing listed or in a room; non-trivial = chain >= 2 with a rejection at index >= 1, or a broadcast issued while a socket was in the chain")
	rapidGuard(t, "C12", c12CheckNsp)
	runRapid(t, c12CheckNsp, tierN(9000, 100000), func(t *rapid.T) {
		c := c12NspCase{Namespace: rapid.SampledFrom([]string{"/", "/adm"}).Draw(t, "nsp"), Transport: rapid.SampledFrom([]string{"polling", "websocket"}).Draw(t, "transport"),
			Clients: rapid.IntRange(1, 4).Draw(t, "clients"), Recovery: rapid.IntRange(0, 2).Draw(t, "recovery") == 0}
		c.ClaimSession = c.Recovery && rapid.Bool().Draw(t, "claim")
		n := rapid.IntRange(0, 5).Draw(t, "chain")
		slow := rapid.Bool().Draw(t, "slow")
		for i := 0; i < n; i++ {
			m := c12MW{Verdict: rapid.SampledFrom([]string{"accept", "accept", "accept", "accept", "accept", "error", "string", "struct", "empty-string", "zero-struct", "zero-int", "false"}).Draw(t, "verdict")}
			if slow && rapid.Bool().Draw(t, "isSlow") {
				m.SlowMs = rapid.SampledFrom([]int{10, 100, 1000}).Draw(t, "slowMs")
			}
			c.Chain = append(c.Chain, m)
		}
		if slow {
			c.BroadcastAtMs = rapid.SampledFrom([]int{5, 50, 500}).Draw(t, "broadcastAt")
		}
		f, nt := evalC12Nsp(c)
		ev.Case(c, nt, fmt.Sprintf("chain=%d", len(c.Chain)))
		if nt {
			ev.Sample(fmt.Sprint(len(c.Chain), c.firstReject()), c)
		}
		if f != nil {
			FailRapid(t, *f)
		}
	})
}

// ---- per-socket event middlewares ------------------------------------------------------------------------------------------

const c12CheckEvent = "c12-event-chain"

type c12EventCase struct {
	Transport string `json:"transport"`
	Chain     []bool `json:"chain"`     // true = accept
	Variadic  bool   `json:"variadic"`  // middleware declared func(string, ...any) error instead of func(string, []any) error
	Signature string `json:"signature"` // string-first | int-first | none | string-ack | binary
	Events    int    `json:"events"`
	ClientAck bool   `json:"client_ack"` // the client asks for an acknowledgement although the handler takes no ack function (signatures without ack)
	Handlers  int    `json:"handlers"`   // handlers registered for the event: 1 = OnEvent; 2 = OnEvent twice; 3 = OnEvent twice + OnceEvent (0 is read as 1)
	// Burst: the events (then 4..24 of them) are emitted back to back, so that several of one socket are in the chain at once, and every
	// middleware decides by the arguments: it rejects the events with an odd number and accepts the even ones (Chain only gives the length).
	Burst bool `json:"burst"`
}

// c12Index recovers the number of the event from the arguments a middleware or handler was given; ok is false when the arguments do not
// belong to one and the same event.
func c12Index(sig string, args []any) (idx int, ok bool) {
	num := func(v any, prefix string) (int, bool) {
		var s string
		switch x := v.(type) {
		case string:
			s = x
		case Bin:
			s = string(x)
		case []byte:
			s = string(x)
		default:
			return 0, false
		}
		if !strings.HasPrefix(s, prefix) {
			return 0, false
		}
		n, err := strconv.Atoi(s[len(prefix):])
		return n, err == nil
	}
	asInt := func(v any) (int, bool) {
		switch x := v.(type) {
		case int:
			return x, true
		case float64:
			return int(x), true
		case int64:
			return int(x), true
		}
		return 0, false
	}
	switch sig {
	case "string-first":
		if len(args) < 2 {
			return 0, false
		}
		a, ok1 := num(args[0], "hi")
		b, ok2 := asInt(args[1])
		return a, ok1 && ok2 && a == b
	case "int-first":
		if len(args) < 2 {
			return 0, false
		}
		a, ok1 := asInt(args[0])
		b, ok2 := num(args[1], "hi")
		return a, ok1 && ok2 && a == b
	case "binary":
		if len(args) < 2 {
			return 0, false
		}
		a, ok1 := num(args[0], "bin")
		b, ok2 := num(args[1], "tail")
		return a, ok1 && ok2 && a == b
	}
	return 0, false
}

func evalC12Event(c c12EventCase) (f *Failure, nontrivial bool) {
	class := c.Signature
	fail := func(clause, detail string) *Failure {
		return &Failure{Property: "C12", Check: c12CheckEvent, Clause: clause, Class: class, Detail: detail, Case: c}
	}
	journal(c12CheckEvent, class, c)
	var res *Failure
	firstReject := -1
	for i, a := range c.Chain {
		if !a {
			firstReject = i
			break
		}
	}
	msg := runRig(rigOpts{}, func(r *rig) {
		var mu sync.Mutex
		type seen struct {
			mw   int
			name string
			args []any
		}
		var mwSeen []seen
		handlerRuns := 0
		var handlerArgs [][]any
		var errs []string
		order := []string{}
		r.Server.Use(func(s sio.ServerSocket, _ *sio.Handshake) any {
			for i, accept := range c.Chain {
				i, accept := i, accept
				body := func(name string, v []any) error {
					mu.Lock()
					mwSeen = append(mwSeen, seen{i, name, append([]any{}, v...)})
					order = append(order, fmt.Sprintf("mw%d", i))
					mu.Unlock()
					if c.Burst {
						if idx, ok := c12Index(c.Signature, v); !ok || idx%2 == 1 {
							return errors.New("event rejected")
						}
						return nil
					}
					if !accept {
						return errors.New("event rejected")
					}
					return nil
				}
				if c.Variadic {
					s.Use(func(name string, v ...any) error { return body(name, v) })
				} else {
					s.Use(func(name string, v []any) error { return body(name, v) })
				}
			}
			s.OnError(func(err error) { mu.Lock(); errs = append(errs, err.Error()); mu.Unlock() })
			ran := func(args ...any) {
				mu.Lock()
				handlerRuns++
				handlerArgs = append(handlerArgs, args)
				order = append(order, "handler")
				mu.Unlock()
			}
			for h := 0; h < max(c.Handlers, 1); h++ {
				on := s.OnEvent
				if h == 2 {
					on = s.OnceEvent
				}
				switch c.Signature {
				case "string-first":
					on("ev", func(a string, b int) { ran(a, b) })
				case "int-first":
					on("ev", func(a int, b string) { ran(a, b) })
				case "none":
					on("ev", func() { ran() })
				case "string-ack":
					on("ev", func(a string, ack func(string)) { ran(a); ack("ok:" + a) })
				case "binary":
					on("ev", func(a Bin, b string) { ran(string(a), b) })
				}
			}
			return nil
		})
		cli := r.manager(c01Transports(c.Transport), nil).Socket("/", nil)
		cli.Connect()
		settle(time.Second)
		if !cli.Connected() {
			res = fail("rig-connect", "client did not connect")
			return
		}
		acks := 0
		for i := 0; i < c.Events; i++ {
			extra := []any{}
			if c.ClientAck {
				extra = append(extra, func() {})
			}
			switch c.Signature {
			case "string-first":
				cli.Emit("ev", append([]any{fmt.Sprintf("hi%d", i), i}, extra...)...)
			case "int-first":
				cli.Emit("ev", append([]any{i, fmt.Sprintf("hi%d", i)}, extra...)...)
			case "none":
				cli.Emit("ev", extra...)
			case "string-ack":
				cli.Emit("ev", fmt.Sprintf("hi%d", i), func(reply string) { mu.Lock(); acks++; mu.Unlock() })
			case "binary":
				cli.Emit("ev", append([]any{Bin(fmt.Sprintf("bin%d", i)), fmt.Sprintf("tail%d", i)}, extra...)...)
			}
			if !c.Burst {
				settle(100 * time.Millisecond)
			}
		}
		settle(time.Second)
		mu.Lock()
		defer mu.Unlock()
		if c.Burst {
			// several events of one socket were in the chain at once; every middleware invocation and every handler run must have been
			// given the arguments of one event, and exactly the events the chain accepted (even numbers) reach the handlers
			for _, s := range mwSeen {
				if _, ok := c12Index(c.Signature, s.args); !ok || s.name != "ev" {
					res = fail("middleware-sees-arguments", fmt.Sprintf("middleware %d was given (%q, %v): not the arguments of one emitted event", s.mw, s.name, s.args))
					return
				}
			}
			handled := map[int]int{}
			for _, a := range handlerArgs {
				idx, ok := c12Index(c.Signature, a)
				if !ok {
					res = fail("accepted-event-handled-once", fmt.Sprintf("a handler ran with %v: not the arguments of one emitted event", a))
					return
				}
				handled[idx]++
			}
			H := max(c.Handlers, 1)
			for i := 0; i < c.Events; i++ {
				switch {
				case len(c.Chain) > 0 && i%2 == 1 && handled[i] != 0:
					res = fail("rejected-event-not-handled", fmt.Sprintf("event %d was rejected by the chain (odd number) but a handler ran for it %d times (handled %v)", i, handled[i], handled))
				case (len(c.Chain) == 0 || i%2 == 0) && (handled[i] < min(H, 2) || handled[i] > H):
					res = fail("accepted-event-handled-once", fmt.Sprintf("event %d was accepted by the chain; with %d handlers registered they ran %d times for it (handled %v, errors %v)", i, H, handled[i], handled, errs))
				}
				if res != nil {
					return
				}
			}
			return
		}
		wantMW := len(c.Chain)
		if firstReject >= 0 {
			wantMW = firstReject + 1
		}
		// (with several handlers for one event the chain may run once per packet or once per handler: the property does not say)
		H := max(c.Handlers, 1)
		wantRuns := c.Events * min(H, 2) // OnEvent handlers run for every event ...
		if H == 3 && c.Events > 0 {
			wantRuns++ // ... the OnceEvent handler for one
		}
		if len(mwSeen) < wantMW*c.Events || len(mwSeen) > wantMW*c.Events*H || (wantMW > 0 && len(mwSeen)%wantMW != 0) {
			res = fail("event-chain-runs", fmt.Sprintf("%d events (%d handlers each) through a chain of %d (first rejection %d): middlewares were invoked %d times, want %d..%d (errors %v)",
				c.Events, H, len(c.Chain), firstReject, len(mwSeen), wantMW*c.Events, wantMW*c.Events*H, errs))
			return
		}
		for _, s := range mwSeen {
			if s.name != "ev" {
				res = fail("middleware-sees-event-name", fmt.Sprintf("middleware %d was given the event name %q, the client emitted %q (args seen %v)", s.mw, s.name, "ev", s.args))
				return
			}
			wantArgs := map[string]int{"string-first": 2, "int-first": 2, "none": 0, "string-ack": 1, "binary": 2}[c.Signature]
			if len(s.args) < wantArgs {
				res = fail("middleware-sees-arguments", fmt.Sprintf("middleware %d was given %d argument(s) %v, the event carries %d", s.mw, len(s.args), s.args, wantArgs))
				return
			}
		}
		if firstReject >= 0 {
			if handlerRuns != 0 {
				res = fail("rejected-event-not-handled", fmt.Sprintf("middleware %d rejected every event but the handler ran %d times", firstReject, handlerRuns))
				return
			}
			if len(errs) < c.Events || len(errs) > c.Events*H {
				res = fail("rejected-event-reported", fmt.Sprintf("%d events were rejected (%d handlers each), the socket's error handlers fired %d times", c.Events, H, len(errs)))
				return
			}
		} else {
			if handlerRuns != wantRuns {
				res = fail("accepted-event-handled-once", fmt.Sprintf("%d accepted events with %d handlers registered: handlers ran %d times, want %d (errors %v)", c.Events, H, handlerRuns, wantRuns, errs))
				return
			}
			if c.Signature == "string-ack" && acks != c.Events {
				res = fail("accepted-event-handled-once", fmt.Sprintf("%d acks arrived for %d events", acks, c.Events))
				return
			}
			// every middleware of an event runs before its handler
			pending := 0
			if H > 1 {
				order = nil // the interleaving of several handlers' chains is not prescribed
			}
			for _, o := range order {
				if o == "handler" {
					if pending < len(c.Chain) {
						res = fail("middleware-before-handler", fmt.Sprintf("a handler ran after only %d of %d middlewares (%v)", pending, len(c.Chain), order))
						return
					}
					pending -= len(c.Chain)
				} else {
					pending++
				}
			}
			if len(errs) != 0 {
				res = fail("accepted-event-no-error", fmt.Sprintf("accepted events produced errors %v", errs))
				return
			}
		}
		_ = reflect.TypeOf
		_ = sort.Ints
	})
	if res == nil && msg != "" && !isBubbleDeadlock(msg) {
		res = fail("bubble-panic", "synctest: "+msg)
	}
	return res, len(c.Chain) >= 1 && (c.Signature == "int-first" || c.Signature == "none" || c.Signature == "binary")
}

func TestC12_EventChain(t *testing.T) {
	setT(t)
	defer startWatchdog(t, 60*time.Second)()
	ev := NewEv(t, "C12", c12CheckEvent, "rapid on the rig: chains of 0..3 per-socket event middlewares (ServerSocket.Use, both accepted declarations), accept/reject, event signatures {string first, "+
		"non-string first, no arguments, with ack function, binary first}, 1..3 handlers registered for the event (OnEvent, OnEvent again, OnceEvent), the client optionally asking for an acknowledgement the handler does not take, 1..4 events; oracle: every middleware up to the first rejecter sees the emitted event name and the arguments, before the handler; "+
		"rejected => no handler runs and the error handlers fire (once per event or per handler); accepted => every On handler once per event, the Once handler once (ack returns); "+
		"burst mode: 4..24 events back to back with middlewares that decide by the arguments (odd numbers rejected): every invocation sees the arguments of one event, exactly the accepted events are handled; "+
		"non-trivial = a chain >= 1 on an event whose first argument is not a string")
	rapidGuard(t, "C12", c12CheckEvent)
	runRapid(t, c12CheckEvent, tierN(8000, 60000), func(t *rapid.T) {
		c := c12EventCase{Transport: rapid.SampledFrom([]string{"polling", "websocket"}).Draw(t, "transport"), Variadic: rapid.Bool().Draw(t, "variadic"),
			Signature: rapid.SampledFrom([]string{"string-first", "int-first", "none", "string-ack", "binary"}).Draw(t, "signature"), Events: rapid.IntRange(1, 4).Draw(t, "events"), Handlers: rapid.SampledFrom([]int{1, 1, 2, 3}).Draw(t, "handlers"), ClientAck: rapid.IntRange(0, 2).Draw(t, "clientAck") == 0}
		for i, n := 0, rapid.IntRange(0, 3).Draw(t, "chain"); i < n; i++ {
			c.Chain = append(c.Chain, rapid.IntRange(0, 3).Draw(t, "accept") > 0)
		}
		if c.Signature != "none" && c.Signature != "string-ack" && rapid.IntRange(0, 2).Draw(t, "burst") == 0 {
			c.Burst, c.Events = true, rapid.IntRange(4, 24).Draw(t, "burstEvents")
		}
		f, nt := evalC12Event(c)
		ev.Case(c, nt, c.Signature)
		if nt {
			ev.Sample(c.Signature, c)
		}
		if f != nil {
			FailRapid(t, *f)
		}
	})
}

func init() {
	registerReplay(c12CheckNsp, func(raw json.RawMessage) *Failure {
		f, _ := evalC12Nsp(decodeCase[c12NspCase](raw))
		return f
	})
	registerReplay(c12CheckEvent, func(raw json.RawMessage) *Failure {
		f, _ := evalC12Event(decodeCase[c12EventCase](raw))
		return f
	})
}
