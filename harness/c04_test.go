package harness

// C04 — a broadcast reaches exactly the sockets its rooms and exclusions select, once (adapter level). DESIGN.md §3 C04.
// The real adapters run on top of a recording SocketStore whose sockets behave like serverSocket (Join -> AddAll,
// Leave -> Delete, Disconnect -> DeleteAll + removal from the store).

import (
	"encoding/json"
	"fmt"
	"sort"
	"strings"
	"sync"
	"testing"
	"time"

	mapset "github.com/deckarep/golang-set/v2"
	"github.com/karagenc/socket.io-go/adapter"
	"github.com/karagenc/socket.io-go/parser"
	jsonparser "github.com/karagenc/socket.io-go/parser/json"
	"github.com/karagenc/socket.io-go/parser/json/serializer/stdjson"
	"pgregory.net/rapid"
)

// ---- recording store ------------------------------------------------------------------------------------------------

type c04Store struct {
	mu       sync.Mutex
	sockets  map[adapter.SocketID]*c04Socket
	adapter  adapter.Adapter
	received map[adapter.SocketID][]string // sid -> text frames received, in order
	frames   map[adapter.SocketID]int      // sid -> total frames
}

type c04Socket struct {
	id    adapter.SocketID
	store *c04Store
}

func newC04Store() *c04Store {
	return &c04Store{sockets: map[adapter.SocketID]*c04Socket{}, received: map[adapter.SocketID][]string{}, frames: map[adapter.SocketID]int{}}
}

func (s *c04Store) SendBuffers(sid adapter.SocketID, buffers [][]byte) bool {
	s.mu.Lock()
	defer s.mu.Unlock()
	if _, ok := s.sockets[sid]; !ok {
		return false
	}
	s.received[sid] = append(s.received[sid], string(buffers[0]))
	s.frames[sid] += len(buffers)
	return true
}

func (s *c04Store) Get(sid adapter.SocketID) (adapter.Socket, bool) {
	s.mu.Lock()
	defer s.mu.Unlock()
	so, ok := s.sockets[sid]
	if !ok {
		return nil, false
	}
	return so, true
}

func (s *c04Store) GetAll() []adapter.Socket {
	s.mu.Lock()
	defer s.mu.Unlock()
	out := make([]adapter.Socket, 0, len(s.sockets))
	for _, so := range s.sockets {
		out = append(out, so)
	}
	return out
}

func (s *c04Store) Remove(sid adapter.SocketID) {
	s.mu.Lock()
	delete(s.sockets, sid)
	s.mu.Unlock()
}

func (s *c04Store) connect(id adapter.SocketID) *c04Socket {
	so := &c04Socket{id: id, store: s}
	s.mu.Lock()
	s.sockets[id] = so
	s.mu.Unlock()
	s.adapter.AddAll(id, []adapter.Room{adapter.Room(id)}) // every socket joins the room named after its id on connect
	return so
}

func (s *c04Store) take() map[adapter.SocketID][]string {
	s.mu.Lock()
	defer s.mu.Unlock()
	r := s.received
	s.received = map[adapter.SocketID][]string{}
	return r
}

func (so *c04Socket) ID() adapter.SocketID            { return so.id }
func (so *c04Socket) Join(room ...adapter.Room)       { so.store.adapter.AddAll(so.id, room) }
func (so *c04Socket) Leave(room adapter.Room)         { so.store.adapter.Delete(so.id, room) }
func (so *c04Socket) Emit(eventName string, v ...any) {}
func (so *c04Socket) To(room ...adapter.Room) *adapter.BroadcastOperator {
	return so.Broadcast().To(room...)
}
func (so *c04Socket) In(room ...adapter.Room) *adapter.BroadcastOperator { return so.To(room...) }
func (so *c04Socket) Except(room ...adapter.Room) *adapter.BroadcastOperator {
	return so.Broadcast().Except(room...)
}
func (so *c04Socket) Broadcast() *adapter.BroadcastOperator {
	return adapter.NewBroadcastOperator("/", so.store.adapter, func(string) bool { return false }).Except(adapter.Room(so.id))
}
func (so *c04Socket) Disconnect(close bool) {
	so.store.adapter.DeleteAll(so.id)
	so.store.Remove(so.id)
}

func newC04(kind string) *c04Store {
	st := newC04Store()
	pc := jsonparser.NewCreator(0, stdjson.New())
	if kind == "session-aware" {
		st.adapter = adapter.VerifNewSessionAwareAdapterCreator(time.Hour, 0)(st, pc)
	} else {
		st.adapter = adapter.NewInMemoryAdapterCreator()(st, pc)
	}
	return st
}

func roomSet(rs []string) mapset.Set[adapter.Room] {
	s := mapset.NewSet[adapter.Room]()
	for _, r := range rs {
		s.Add(adapter.Room(r))
	}
	return s
}

// selected is the property's selection rule.
func selected(rooms map[string]bool, T, E []string) bool {
	in := len(T) == 0
	for _, r := range T {
		if rooms[r] {
			in = true
		}
	}
	for _, r := range E {
		if rooms[r] {
			return false
		}
	}
	return in
}

// ---- (i) exhaustive 3 sockets x 3 rooms ----------------------------------------------------------------------------------

const c04CheckEnum = "c04-adapter-enum"

type c04EnumCase struct {
	Adapter string   `json:"adapter"`
	Matrix  int      `json:"matrix"` // bit (s*3+r) set = socket s is in room r
	T       []string `json:"to"`
	E       []string `json:"except"`
}

var (
	c04Socks = []string{"s0", "s1", "s2"}
	c04Rooms = []string{"r0", "r1", "r2"}
)

func subsets(items []string) [][]string {
	var out [][]string
	for m := 0; m < 1<<len(items); m++ {
		var s []string
		for i, it := range items {
			if m&(1<<i) != 0 {
				s = append(s, it)
			}
		}
		out = append(out, s)
	}
	return out
}

func evalC04Enum(c c04EnumCase) *Failure {
	fail := func(clause, detail string) *Failure {
		return &Failure{Property: "C04", Check: c04CheckEnum, Clause: clause, Class: c.Adapter, Detail: detail, Case: c}
	}
	st := newC04(c.Adapter)
	model := map[string]map[string]bool{}
	for si, s := range c04Socks {
		so := st.connect(adapter.SocketID(s))
		model[s] = map[string]bool{s: true}
		for ri, r := range c04Rooms {
			if c.Matrix&(1<<(si*3+ri)) != 0 {
				so.Join(adapter.Room(r))
				model[s][r] = true
			}
		}
	}
	st.take()
	opts := adapter.NewBroadcastOptions()
	opts.Rooms, opts.Except = roomSet(c.T), roomSet(c.E)
	var pm string
	v := []any{"ev", "token"}
	vv := make([]any, 0, 4)
	vv = append(vv, v...)
	pm, _ = catchPanic(func() {
		st.adapter.Broadcast(&parser.PacketHeader{Type: parser.PacketTypeEvent, Namespace: "/"}, vv, opts)
	})
	if pm != "" {
		return fail("no-panic", "Broadcast panicked: "+pm)
	}
	got := st.take()
	for _, s := range c04Socks {
		want := 0
		if selected(model[s], c.T, c.E) {
			want = 1
		}
		if n := len(got[adapter.SocketID(s)]); n != want {
			return fail("recipients", fmt.Sprintf("socket %s (rooms %v) received the broadcast to %v except %v %d times, want %d", s, keys(model[s]), c.T, c.E, n, want))
		}
	}
	return nil
}

func keys(m map[string]bool) []string {
	var out []string
	for k, v := range m {
		if v {
			out = append(out, k)
		}
	}
	sort.Strings(out)
	return out
}

func TestC04_AdapterExhaustive(t *testing.T) {
	ev := NewEv(t, "C04", c04CheckEnum, "exhaustive: every membership matrix of 3 sockets x 3 rooms (512, built by joins; every socket also in its own id room) x every T subset of rooms x every E subset of rooms "+
		"(64) on both adapters; a second sweep lets T and E also range over the sockets' own id rooms (sampled matrices in quick, all in thorough); oracle: recipients == selection rule, once each; "+
		"non-trivial = a recipient in >= 2 target rooms or T and E intersect")
	ev.Exhaustive()
	reported := map[string]bool{}
	run := func(c c04EnumCase) {
		nt := false
		for _, r := range c.T {
			for _, e := range c.E {
				if r == e {
					nt = true
				}
			}
		}
		for si := range c04Socks {
			n := 0
			for ri, r := range c04Rooms {
				if c.Matrix&(1<<(si*3+ri)) != 0 && contains(c.T, r) {
					n++
				}
			}
			if n >= 2 {
				nt = true
			}
		}
		ev.Case(c, nt, c.Adapter)
		if nt && c.Matrix == 0x1ff {
			ev.Sample(c.Adapter+fmt.Sprint(len(c.T)), c)
		}
		if f := evalC04Enum(c); f != nil && !reported[f.Sig()] {
			reported[f.Sig()] = true
			Report(t, *f)
		}
	}
	roomSubsets := subsets(c04Rooms)
	allSubsets := subsets(append(append([]string{}, c04Rooms...), c04Socks...))
	idx := 0
	for _, ad := range []string{"memory", "session-aware"} {
		for m := 0; m < 512; m++ {
			idx++
			if !mine(idx) {
				continue
			}
			for _, T := range roomSubsets {
				for _, E := range roomSubsets {
					run(c04EnumCase{Adapter: ad, Matrix: m, T: T, E: E})
				}
			}
			// second sweep: own-id rooms as members of T / E
			if thorough() || m%37 == 0 {
				for _, T := range allSubsets {
					for _, E := range allSubsets {
						if len(T)+len(E) > 0 && (hasSock(T) || hasSock(E)) {
							run(c04EnumCase{Adapter: ad, Matrix: m, T: T, E: E})
						}
					}
				}
			}
		}
	}
}

func contains(xs []string, x string) bool {
	for _, y := range xs {
		if x == y {
			return true
		}
	}
	return false
}

func hasSock(xs []string) bool {
	for _, x := range xs {
		if strings.HasPrefix(x, "s") {
			return true
		}
	}
	return false
}

// ---- (ii) stateful histories ----------------------------------------------------------------------------------------------

const c04CheckHist = "c04-adapter-history"

type c04Op struct {
	Op     string   `json:"op"` // connect prejoin join leave leaveall1 disconnect socketsjoin socketsleave disconnectsockets broadcast sockbroadcast operator
	Sock   string   `json:"sock,omitempty"`
	Rooms  []string `json:"rooms,omitempty"`
	T      []string `json:"to,omitempty"`
	E      []string `json:"except,omitempty"`
	Binary bool     `json:"binary,omitempty"`
	Chain  []string `json:"chain,omitempty"` // operator algebra: sequence of to:x / except:x / local / compress / in:x applied to a stored base operator
}

type c04HistCase struct {
	Adapter string  `json:"adapter"`
	Ops     []c04Op `json:"ops"`
}

func evalC04Hist(c c04HistCase) (f *Failure, nontrivial bool) {
	fail := func(clause, detail string) *Failure {
		return &Failure{Property: "C04", Check: c04CheckHist, Clause: clause, Class: c.Adapter, Detail: detail, Case: c}
	}
	st := newC04(c.Adapter)
	model := map[string]map[string]bool{} // connected sockets -> rooms
	socks := map[string]*c04Socket{}
	pending := map[string]map[string]bool{} // sockets that joined rooms before the socket store knows them (membership exists, nothing can be delivered yet)
	token := 0
	allRooms := []string{"r0", "r1", "r2", "r3", "r4"}
	allSocks := []string{"s0", "s1", "s2", "s3", "s4", "s5"}

	checkState := func(step int) *Failure {
		// Sockets(R) for a few R, SocketRooms(s) for all s
		probes := [][]string{nil, {"r0"}, {"r1", "r2"}, {"r3", "r4", "r0"}}
		for _, R := range probes {
			got := st.adapter.Sockets(roomSet(R))
			for _, s := range allSocks {
				want := false
				if rooms, ok := model[s]; ok {
					want = selected(rooms, R, nil)
				} // (a socket the socket store does not know yet is in rooms but is nobody's recipient: Sockets() leaves it out)
				if got.Contains(adapter.SocketID(s)) != want {
					return fail("sockets-query", fmt.Sprintf("after step %d: Sockets(%v) contains %s = %v, model says %v (rooms %v)", step, R, s, !want, want, keys(model[s])))
				}
			}
		}
		for _, s := range allSocks {
			got, ok := st.adapter.SocketRooms(adapter.SocketID(s))
			rooms, connected := model[s]
			if !connected {
				rooms, connected = pending[s]
			}
			if !connected {
				if ok && got.Cardinality() > 0 {
					return fail("disconnected-in-no-room", fmt.Sprintf("after step %d: disconnected socket %s still has rooms %v", step, s, got.ToSlice()))
				}
				continue
			}
			if !ok {
				return fail("membership", fmt.Sprintf("after step %d: SocketRooms(%s) unknown, model has %v", step, s, keys(rooms)))
			}
			var g []string
			for _, r := range got.ToSlice() {
				g = append(g, string(r))
			}
			sort.Strings(g)
			if fmt.Sprint(g) != fmt.Sprint(keys(rooms)) {
				return fail("membership", fmt.Sprintf("after step %d: SocketRooms(%s) = %v, net effect of joins and leaves is %v", step, s, g, keys(rooms)))
			}
		}
		return nil
	}

	expectBroadcast := func(step int, what string, T, E []string, sender string, emit func(tok string, bin bool), bin bool) *Failure {
		token++
		tok := fmt.Sprintf("t%d", token)
		st.take()
		if pm, _ := catchPanic(func() { emit(tok, bin) }); pm != "" {
			return fail("no-panic", fmt.Sprintf("step %d %s panicked: %s", step, what, pm))
		}
		got := st.take()
		for _, s := range allSocks {
			want := 0
			if rooms, ok := model[s]; ok && s != sender && selected(rooms, T, E) {
				want = 1
			}
			n := 0
			for _, fr := range got[adapter.SocketID(s)] {
				if strings.Contains(fr, tok) {
					n++
				}
			}
			if n != want {
				f := fail("recipients", fmt.Sprintf("step %d %s to %v except %v (sender %q): socket %s (connected %v, rooms %v) received it %d times, want %d",
					step, what, T, E, sender, s, model[s] != nil, keys(model[s]), n, want))
				if s == sender && !model[sender][sender] {
					f.Class = "sender-left-own-room" // KF-C04-1
				}
				return f
			}
			if want == 1 {
				inT := 0
				for _, r := range T {
					if model[s][r] {
						inT++
					}
				}
				if inT >= 2 {
					nontrivial = true
				}
			}
		}
		for _, r := range T {
			if contains(E, r) {
				nontrivial = true
			}
		}
		if sender != "" && selected(model[sender], T, nil) {
			nontrivial = true
		}
		return nil
	}

	applyToSelected := func(T, E []string, fn func(s string)) {
		var sel []string
		for s, rooms := range model {
			if selected(rooms, T, E) {
				sel = append(sel, s)
			}
		}
		for _, s := range sel {
			fn(s)
		}
	}

	for i, op := range c.Ops {
		var pm string
		switch op.Op {
		case "connect":
			if _, ok := model[op.Sock]; ok {
				continue
			}
			pm, _ = catchPanic(func() { socks[op.Sock] = st.connect(adapter.SocketID(op.Sock)) })
			model[op.Sock] = map[string]bool{op.Sock: true}
			for r := range pending[op.Sock] {
				model[op.Sock][r] = true // rooms joined before the admission are kept
			}
			delete(pending, op.Sock)
		case "prejoin":
			if _, ok := model[op.Sock]; ok {
				continue
			}
			pm, _ = catchPanic(func() {
				rs := make([]adapter.Room, len(op.Rooms))
				for k, r := range op.Rooms {
					rs[k] = adapter.Room(r)
				}
				st.adapter.AddAll(adapter.SocketID(op.Sock), rs)
			})
			if pending[op.Sock] == nil {
				pending[op.Sock] = map[string]bool{}
			}
			for _, r := range op.Rooms {
				pending[op.Sock][r] = true
			}
		case "leaveall1":
			if _, ok := model[op.Sock]; !ok {
				continue
			}
			pm, _ = catchPanic(func() {
				for _, r := range keys(model[op.Sock]) {
					socks[op.Sock].Leave(adapter.Room(r))
				}
			})
			model[op.Sock] = map[string]bool{}
		case "join":
			if _, ok := model[op.Sock]; !ok {
				continue
			}
			pm, _ = catchPanic(func() {
				rs := make([]adapter.Room, len(op.Rooms))
				for k, r := range op.Rooms {
					rs[k] = adapter.Room(r)
				}
				socks[op.Sock].Join(rs...)
			})
			for _, r := range op.Rooms {
				model[op.Sock][r] = true
			}
		case "leave":
			if _, ok := model[op.Sock]; !ok {
				continue
			}
			pm, _ = catchPanic(func() { socks[op.Sock].Leave(adapter.Room(op.Rooms[0])) })
			delete(model[op.Sock], op.Rooms[0])
		case "disconnect":
			if _, ok := model[op.Sock]; !ok {
				continue
			}
			pm, _ = catchPanic(func() { socks[op.Sock].Disconnect(false) })
			delete(model, op.Sock)
		case "socketsjoin":
			pm, _ = catchPanic(func() {
				o := adapter.NewBroadcastOptions()
				o.Rooms, o.Except = roomSet(op.T), roomSet(op.E)
				rs := make([]adapter.Room, len(op.Rooms))
				for k, r := range op.Rooms {
					rs[k] = adapter.Room(r)
				}
				st.adapter.AddSockets(o, rs...)
			})
			applyToSelected(op.T, op.E, func(s string) {
				for _, r := range op.Rooms {
					model[s][r] = true
				}
			})
		case "socketsleave":
			pm, _ = catchPanic(func() {
				o := adapter.NewBroadcastOptions()
				o.Rooms, o.Except = roomSet(op.T), roomSet(op.E)
				rs := make([]adapter.Room, len(op.Rooms))
				for k, r := range op.Rooms {
					rs[k] = adapter.Room(r)
				}
				st.adapter.DelSockets(o, rs...)
			})
			applyToSelected(op.T, op.E, func(s string) {
				for _, r := range op.Rooms {
					delete(model[s], r)
				}
			})
		case "disconnectsockets":
			pm, _ = catchPanic(func() {
				o := adapter.NewBroadcastOptions()
				o.Rooms, o.Except = roomSet(op.T), roomSet(op.E)
				st.adapter.DisconnectSockets(o, false)
			})
			applyToSelected(op.T, op.E, func(s string) { delete(model, s) })
		case "broadcast":
			if f := expectBroadcast(i, "Broadcast", op.T, op.E, "", func(tok string, bin bool) {
				o := adapter.NewBroadcastOptions()
				o.Rooms, o.Except = roomSet(op.T), roomSet(op.E)
				v := make([]any, 0, 5)
				v = append(v, "ev", tok)
				if bin {
					v = append(v, Bin("payload"))
				}
				st.adapter.Broadcast(&parser.PacketHeader{Type: parser.PacketTypeEvent, Namespace: "/"}, v, o)
			}, op.Binary); f != nil {
				return f, nontrivial
			}
		case "sockbroadcast":
			if _, ok := model[op.Sock]; !ok {
				continue
			}
			if f := expectBroadcast(i, "socket.To/Except", op.T, op.E, op.Sock, func(tok string, bin bool) {
				b := socks[op.Sock].Broadcast()
				for _, r := range op.T {
					b = b.To(adapter.Room(r))
				}
				for _, r := range op.E {
					b = b.Except(adapter.Room(r))
				}
				b.Emit("ev", tok)
			}, false); f != nil {
				return f, nontrivial
			}
		case "operator":
			// a stored base operator is reused after children were derived from it: deriving must not change the base
			base := adapter.NewBroadcastOperator("/", st.adapter, func(string) bool { return false })
			var bT, bE []string
			for _, r := range op.T {
				base = base.To(adapter.Room(r))
				bT = append(bT, r)
			}
			for _, r := range op.E {
				base = base.Except(adapter.Room(r))
				bE = append(bE, r)
			}
			child := base
			cT, cE := append([]string{}, bT...), append([]string{}, bE...)
			for _, step := range op.Chain {
				kind, arg, _ := strings.Cut(step, ":")
				switch kind {
				case "to":
					child = child.To(adapter.Room(arg))
					cT = append(cT, arg)
				case "in":
					child = child.In(adapter.Room(arg))
					cT = append(cT, arg)
				case "except":
					child = child.Except(adapter.Room(arg))
					cE = append(cE, arg)
				case "local":
					child = child.Local()
				case "compress":
					child = child.Compress(true)
				}
			}
			if f := expectBroadcast(i, "derived operator", cT, cE, "", func(tok string, bin bool) { child.Emit("ev", tok) }, false); f != nil {
				f.Clause = "operator-algebra"
				return f, nontrivial
			}
			if f := expectBroadcast(i, "base operator after deriving children", bT, bE, "", func(tok string, bin bool) { base.Emit("ev", tok) }, false); f != nil {
				f.Clause = "operator-immutable"
				return f, nontrivial
			}
			// FetchSockets through the operator
			var fetched []string
			for _, s := range child.FetchSockets() {
				fetched = append(fetched, string(s.ID()))
			}
			sort.Strings(fetched)
			var want []string
			for s, rooms := range model {
				if selected(rooms, cT, cE) {
					want = append(want, s)
				}
			}
			sort.Strings(want)
			if fmt.Sprint(fetched) != fmt.Sprint(want) {
				return fail("fetch-sockets", fmt.Sprintf("step %d: FetchSockets(to %v except %v) = %v, want %v", i, cT, cE, fetched, want)), nontrivial
			}
		}
		if pm != "" {
			return fail("no-panic", fmt.Sprintf("step %d %s panicked: %s", i, op.Op, pm)), nontrivial
		}
		if f := checkState(i); f != nil {
			return f, nontrivial
		}
	}
	_ = allRooms
	return nil, nontrivial
}

func genRoomsOrIDs(t *rapid.T, label string, maxN int) []string {
	n := rapid.IntRange(0, maxN).Draw(t, label+"n")
	var out []string
	for i := 0; i < n; i++ {
		out = append(out, rapid.SampledFrom([]string{"r0", "r1", "r2", "r3", "r4", "r0", "r1", "s0", "s1", "s2", "nope"}).Draw(t, label))
	}
	return out
}

// KF-C04-1: sender exclusion relies on the sender still being in the room named after its id.
func c04KF1Active() bool {
	return kfActive("KF-C04-1", func() (bool, string) {
		f, _ := evalC04Hist(c04HistCase{Adapter: "memory", Ops: []c04Op{{Op: "connect", Sock: "s0"}, {Op: "connect", Sock: "s1"},
			{Op: "leave", Sock: "s0", Rooms: []string{"s0"}}, {Op: "sockbroadcast", Sock: "s0"}}})
		if f != nil {
			return true, f.Detail
		}
		return false, ""
	})
}

func genC04Hist(t *rapid.T) c04HistCase {
	c := c04HistCase{Adapter: rapid.SampledFrom([]string{"memory", "session-aware"}).Draw(t, "adapter")}
	kf1 := c04KF1Active()
	sock := rapid.SampledFrom([]string{"s0", "s1", "s2", "s3", "s4", "s5"})
	room := rapid.SampledFrom([]string{"r0", "r1", "r2", "r3", "r4"})
	for _, s := range []string{"s0", "s1", "s2"} {
		c.Ops = append(c.Ops, c04Op{Op: "connect", Sock: s})
	}
	n := rapid.IntRange(3, 30).Draw(t, "ops")
	leftOwn, leftOwnEver := map[string]bool{}, map[string]bool{}
	for i := 0; i < n; i++ {
		op := c04Op{}
		switch rapid.IntRange(0, 17).Draw(t, "op") {
		case 16:
			op = c04Op{Op: "leaveall1", Sock: sock.Draw(t, "sock")} // leaves every room it is in, one Leave at a time, its own-id room included
		case 17:
			op = c04Op{Op: "prejoin", Sock: sock.Draw(t, "sock"), Rooms: rapid.SliceOfN(room, 1, 2).Draw(t, "rooms")} // joins rooms BEFORE it is known to the socket store (as a namespace middleware or a recovered session does)
		case 0:
			op = c04Op{Op: "connect", Sock: sock.Draw(t, "sock")}
		case 1, 2, 3:
			op = c04Op{Op: "join", Sock: sock.Draw(t, "sock"), Rooms: rapid.SliceOfN(room, 1, 3).Draw(t, "rooms")}
		case 4, 5:
			op = c04Op{Op: "leave", Sock: sock.Draw(t, "sock"), Rooms: []string{rapid.SampledFrom([]string{"r0", "r1", "r2", "r3", "r4", "s0", "s1"}).Draw(t, "room")}}
		case 6:
			op = c04Op{Op: "disconnect", Sock: sock.Draw(t, "sock")}
		case 7:
			op = c04Op{Op: "socketsjoin", T: genRoomsOrIDs(t, "T", 2), E: genRoomsOrIDs(t, "E", 1), Rooms: rapid.SliceOfN(room, 1, 2).Draw(t, "rooms")}
		case 8:
			op = c04Op{Op: "socketsleave", T: genRoomsOrIDs(t, "T", 2), E: genRoomsOrIDs(t, "E", 1), Rooms: rapid.SliceOfN(room, 1, 2).Draw(t, "rooms")}
		case 9:
			if rapid.IntRange(0, 2).Draw(t, "rare") == 0 {
				op = c04Op{Op: "disconnectsockets", T: genRoomsOrIDs(t, "T", 2), E: genRoomsOrIDs(t, "E", 1)}
			} else {
				op = c04Op{Op: "broadcast", T: genRoomsOrIDs(t, "T", 3), E: genRoomsOrIDs(t, "E", 2)}
			}
		case 10, 11, 12:
			op = c04Op{Op: "broadcast", T: genRoomsOrIDs(t, "T", 3), E: genRoomsOrIDs(t, "E", 2), Binary: rapid.Bool().Draw(t, "bin")}
		case 13, 14:
			op = c04Op{Op: "sockbroadcast", Sock: sock.Draw(t, "sock"), T: genRoomsOrIDs(t, "T", 3), E: genRoomsOrIDs(t, "E", 2)}
		default:
			op = c04Op{Op: "operator", T: genRoomsOrIDs(t, "T", 2), E: genRoomsOrIDs(t, "E", 1)}
			for j, k := 0, rapid.IntRange(1, 4).Draw(t, "chain"); j < k; j++ {
				op.Chain = append(op.Chain, rapid.SampledFrom([]string{"to:r0", "to:r1", "to:r2", "in:r3", "except:r0", "except:r1", "except:s0", "local", "compress", "to:s1"}).Draw(t, "chainstep"))
			}
		}
		// KF-C04-1 (a broadcast THROUGH a socket that has left its own-id room reaches that socket) is excluded by construction while it is
		// open: such a broadcast is replaced by an adapter broadcast and counted. Leaving the own-id room as such stays in the domain.
		switch {
		case op.Op == "leave" && len(op.Rooms) == 1 && op.Rooms[0] == op.Sock:
			leftOwn[op.Sock] = true
		case op.Op == "disconnect" || op.Op == "connect":
			delete(leftOwn, op.Sock)
		case op.Op == "disconnectsockets":
			leftOwn = map[string]bool{} // (which sockets it hits depends on the membership; be conservative the other way round below)
		case op.Op == "leaveall1":
			leftOwn[op.Sock] = true
		}
		if kf1 && op.Op == "sockbroadcast" && leftOwnEver[op.Sock] {
			c04Excluded++
			op = c04Op{Op: "broadcast", T: op.T, E: op.E}
		}
		if leftOwn[op.Sock] {
			leftOwnEver[op.Sock] = true
		}
		c.Ops = append(c.Ops, op)
	}
	return c
}

var c04Excluded int64

func TestC04_AdapterHistory(t *testing.T) {
	ev := NewEv(t, "C04", c04CheckHist, "rapid stateful histories over <= 6 sockets and <= 5 rooms (+ own-id rooms and unknown rooms in T/E): connect/join/leave/disconnect, SocketsJoin/SocketsLeave/"+
		"DisconnectSockets with their own (T,E), adapter broadcasts (text and binary), broadcasts through a socket (sender exclusion), operator algebra with a stored base operator reused after deriving "+
		"children, FetchSockets; after every step Sockets(R) and SocketRooms(s) == model; oracle: recipients as a multiset == selection rule minus sender; "+
		"non-trivial = a recipient in >= 2 target rooms, or T and E intersect, or a broadcast through a socket that is itself in T")
	rapidGuard(t, "C04", c04CheckHist)
	runRapid(t, c04CheckHist, tierN(4000, 200000), func(t *rapid.T) {
		c := genC04Hist(t)
		f, nt := evalC04Hist(c)
		ev.Case(c, nt, c.Adapter)
		if nt {
			ev.Sample(c.Adapter, c)
		}
		if f != nil {
			FailRapid(t, *f)
		}
	})
	for i := int64(0); i < c04Excluded; i++ {
		ev.Excluded("KF-C04-1")
	}
}

func init() {
	registerReplay(c04CheckEnum, func(raw json.RawMessage) *Failure { return evalC04Enum(decodeCase[c04EnumCase](raw)) })
	registerReplay(c04CheckHist, func(raw json.RawMessage) *Failure {
		f, _ := evalC04Hist(decodeCase[c04HistCase](raw))
		return f
	})
}
