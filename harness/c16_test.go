package harness

// C16 — the public API is safe under arbitrary concurrent use: no data race, no deadlock, no mutex left held.
// DESIGN.md §3 C16. Random concurrent programs over the exported API run on the real clock over memnet (mode M: no bubble, so a
// goroutine that legitimately waits for a lock is not mistaken for a stall), built with -race (group variant "race").

import (
	"encoding/json"
	"fmt"
	"os"
	"regexp"
	"runtime"
	"sort"
	"strings"
	"sync"
	"sync/atomic"
	"testing"
	"time"

	mapset "github.com/deckarep/golang-set/v2"
	sio "github.com/karagenc/socket.io-go"
	"github.com/karagenc/socket.io-go/adapter"
	"pgregory.net/rapid"
)

const c16Check = "c16-programs"

type c16Op struct {
	Side string `json:"side"` // ss (server socket) | cs (client socket) | nsp | mgr
	Who  int    `json:"who"`  // client index
	Code int    `json:"code"`
	Arg  int    `json:"arg"`
	Via  string `json:"via"` // direct | event (performed inside the peer-triggered event handler) | ack (inside an ack callback)
}

type c16Case struct {
	Procs       int       `json:"gomaxprocs"`
	Transport   string    `json:"transport"`
	Clients     int       `json:"clients"`
	Recovery    bool      `json:"recovery"`
	YieldEvery  int       `json:"yield_every"`  // every n-th hook hit yields (0 = never)
	Lifecycle   []c16Op   `json:"lifecycle"`    // operations performed from connection / disconnecting / disconnect / connect handlers
	Programs    [][]c16Op `json:"programs"`     // one slice per goroutine
	CloseServer bool      `json:"close_server"` // the last act of goroutine 0 is Server.Close
}

const (
	c16SSOps  = 22
	c16CSOps  = 20
	c16NspOps = 16
	c16MgrOps = 10
)

func (c c16Case) class() string {
	return fmt.Sprintf("%s,procs=%d", c.Transport, c.Procs)
}

// handlers used for On/Once/Off: distinct top-level functions touching only atomics
var c16Hits atomic.Int64

func c16H1(int)                 { c16Hits.Add(1) }
func c16H2(int)                 { c16Hits.Add(1) }
func c16H3(int)                 { c16Hits.Add(1) }
func c16LD1(sio.Reason)         { c16Hits.Add(1) }
func c16LD2(sio.Reason)         { c16Hits.Add(1) }
func c16LC1()                   { c16Hits.Add(1) }
func c16LC2()                   { c16Hits.Add(1) }
func c16LE1(error)              { c16Hits.Add(1) }
func c16LCE(any)                { c16Hits.Add(1) }
func c16NC1(sio.ServerSocket)   { c16Hits.Add(1) }
func c16NC2(sio.ServerSocket)   { c16Hits.Add(1) }
func c16MO()                    { c16Hits.Add(1) }
func c16MC(sio.Reason, error)   { c16Hits.Add(1) }
func c16ME(error)               { c16Hits.Add(1) }
func c16MR(uint32)              { c16Hits.Add(1) }
func c16MF()                    { c16Hits.Add(1) }
func c16MW(string, []any) error { c16Hits.Add(1); return nil }

var c16IntHandlers = []func(int){c16H1, c16H2, c16H3}
var c16Rooms = []sio.Room{"r0", "r1", "r2"}
var c16Events = []string{"x", "y"}

type c16World struct {
	c        c16Case
	r        *rig
	nsp      *sio.Namespace
	mu       sync.Mutex
	ss       map[int]sio.ServerSocket // latest server socket per client index
	mgrs     []*sio.Manager
	cs       []sio.ClientSocket
	opsDone  atomic.Int64
	inFlight sync.Map // goroutine label -> description of the operation in progress
	hooks    atomic.Int64
}

func (w *c16World) serverSocket(i int) sio.ServerSocket {
	w.mu.Lock()
	defer w.mu.Unlock()
	return w.ss[i]
}

// ---- operations ------------------------------------------------------------------------------------------------------

func (w *c16World) doSS(s sio.ServerSocket, code, arg int) {
	if s == nil {
		return
	}
	room := c16Rooms[arg%len(c16Rooms)]
	ev := c16Events[arg%len(c16Events)]
	h := c16IntHandlers[arg%len(c16IntHandlers)]
	switch code % c16SSOps {
	case 0:
		s.Emit(ev, arg)
	case 1:
		s.Timeout(100*time.Millisecond).Emit("ackme", arg, func(err error, v int) { c16Hits.Add(1) })
	case 2:
		s.Join(room)
	case 3:
		s.Leave(room)
	case 4:
		_ = s.Rooms().Cardinality()
	case 5:
		s.To(room).Emit(ev, arg)
	case 6:
		s.Broadcast().Emit(ev, arg)
	case 7:
		s.OnEvent(ev, h)
	case 8:
		s.OnceEvent(ev, h)
	case 9:
		s.OffEvent(ev, h)
	case 10:
		s.OffEvent(ev)
	case 11:
		_, _, _ = s.Connected(), s.ID(), s.Recovered()
	case 12:
		s.Use(c16MW)
	case 13:
		s.OnDisconnect(c16LD1)
		s.OnceDisconnecting(c16LD2)
	case 14:
		s.OffDisconnect(c16LD1)
		s.OffDisconnecting()
	case 15:
		s.OnError(c16LE1)
		s.OffError(c16LE1)
	case 16:
		s.Except(room).Emit(ev, arg)
	case 17:
		s.Emit("ackme", arg, func(v int) { c16Hits.Add(1) })
	case 18:
		s.Emit("bin", Bin([]byte{byte(arg), 2, 3}), arg)
	case 19:
		if arg%4 == 0 {
			s.Disconnect(arg%8 == 0)
		} else {
			s.Join(c16Rooms...)
		}
	case 20:
		_ = len(s.Local().To(room).FetchSockets())
	case 21:
		s.In(room).SocketsLeave(room)
	}
}

func (w *c16World) doNsp(code, arg int) {
	n := w.nsp
	room := c16Rooms[arg%len(c16Rooms)]
	ev := c16Events[arg%len(c16Events)]
	switch code % c16NspOps {
	case 0:
		n.Emit(ev, arg)
	case 1:
		n.To(room).Emit(ev, arg)
	case 2:
		_ = len(n.Sockets())
	case 3:
		_ = len(n.FetchSockets())
	case 4:
		n.SocketsJoin(room)
	case 5:
		n.SocketsLeave(room)
	case 6:
		n.To(room).Except(c16Rooms[(arg+1)%len(c16Rooms)]).Emit(ev, arg)
	case 7:
		n.OnConnection(c16NC1)
		n.OnceConnection(c16NC2)
	case 8:
		n.OffConnection(c16NC1)
	case 9:
		n.Use(func(sio.ServerSocket, *sio.Handshake) any { c16Hits.Add(1); return nil })
	case 10:
		_ = w.r.Server.Of(fmt.Sprintf("/dyn%d", arg%3)).Name()
	case 11:
		_ = n.Adapter().Sockets(mapset.NewSet(room)).Cardinality()
	case 12:
		if s := w.serverSocket(arg % max(w.c.Clients, 1)); s != nil {
			_, _ = n.Adapter().SocketRooms(s.ID())
		}
	case 13:
		if arg%5 == 0 {
			n.In(room).DisconnectSockets(arg%2 == 0)
		} else {
			n.In(room).SocketsJoin(c16Rooms[(arg+1)%len(c16Rooms)])
		}
	case 14:
		w.r.Server.Emit(ev, arg)
		_ = len(w.r.Server.Sockets())
	case 15:
		n.Emit("bin", Bin([]byte{1, byte(arg)}), arg)
		_ = n.Adapter().ServerCount()
		_ = adapter.Room(room)
	}
}

func (w *c16World) doCS(s sio.ClientSocket, code, arg int) {
	ev := c16Events[arg%len(c16Events)]
	h := c16IntHandlers[arg%len(c16IntHandlers)]
	switch code % c16CSOps {
	case 0:
		s.Emit(ev, arg)
	case 1:
		s.Timeout(100*time.Millisecond).Emit("ackme", arg, func(err error, v int) { c16Hits.Add(1) })
	case 2:
		s.OnEvent(ev, h)
	case 3:
		s.OnceEvent(ev, h)
	case 4:
		s.OffEvent(ev, h)
	case 5:
		s.OffEvent(ev)
	case 6:
		s.Connect()
	case 7:
		if arg%3 == 0 {
			s.Disconnect()
		} else {
			s.Connect()
		}
	case 8:
		_, _, _, _ = s.Connected(), s.ID(), s.Active(), s.Recovered()
	case 9:
		s.Volatile().Emit(ev, arg)
	case 10:
		s.OnConnect(c16LC1)
		s.OnceConnect(c16LC2)
		s.OnDisconnect(c16LD1)
	case 11:
		s.OffConnect(c16LC1)
		s.OffDisconnect()
		s.OnConnectError(c16LCE)
	case 12:
		s.SetAuth(map[string]any{"k": arg})
		_ = s.Auth()
	case 13:
		s.Emit("ackme", arg, func(v int) { c16Hits.Add(1) })
	case 14:
		s.Emit("bin", Bin([]byte{9, byte(arg)}), arg)
	case 15:
		o := s.Manager().Socket(fmt.Sprintf("/dyn%d", arg%3), nil)
		o.Connect()
		o.Emit(ev, arg)
	case 16:
		// another socket of the same manager leaves (its subscriptions to the manager's events are removed) ...
		s.Manager().Socket(fmt.Sprintf("/dyn%d", arg%3), nil).Disconnect()
	case 17:
		// ... and comes back
		o := s.Manager().Socket(fmt.Sprintf("/dyn%d", arg%3), nil)
		o.OnceConnect(c16LC2)
		o.Connect()
	case 18:
		// a burst of connection cycles (windows of a few hundred nanoseconds are hit by repetition, not by luck)
		for i := 0; i < 6+arg%6; i++ {
			s.Disconnect()
			s.Connect()
		}
	case 19:
		// a burst of cheap calls that take the socket's small mutexes
		for i := 0; i < 40; i++ {
			s.SetAuth(map[string]any{"k": arg + i})
			_, _, _ = s.Auth(), s.Connected(), s.Active()
			_ = s.ID()
		}
	}
}

func (w *c16World) doMgr(m *sio.Manager, code, arg int) {
	switch code % c16MgrOps {
	case 0:
		m.Open()
	case 1:
		if arg%3 == 0 {
			m.Close()
		} else {
			m.Open()
		}
	case 2:
		m.OnOpen(c16MO)
		m.OnClose(c16MC)
		m.OnError(c16ME)
	case 3:
		m.OffOpen(c16MO)
		m.OffClose()
		m.OnReconnect(c16MR)
		m.OnReconnectFailed(c16MF)
	case 4:
		m.Socket("/", nil).Emit("x", arg)
	case 5:
		m.OnceReconnectAttempt(c16MR)
		m.OffReconnectAttempt()
		m.OnPing(c16MO)
	case 6:
		// operations issued from inside the manager's own lifecycle handlers (once, so that open -> close -> open does not loop)
		sock := m.Socket("/", nil)
		switch arg % 4 {
		case 0:
			m.OnceOpen(func() { m.Close() })
		case 1:
			m.OnceOpen(func() { sock.Disconnect() })
		case 2:
			m.OnceOpen(func() { sock.Emit("x", arg); m.Socket(fmt.Sprintf("/dyn%d", arg%3), nil).Connect() })
		case 3:
			m.OnceOpen(func() { m.OnError(c16ME); m.OffError(); _ = sock.Connected() })
		}
	case 7:
		sock := m.Socket("/", nil)
		if arg%2 == 0 {
			m.OnceClose(func(sio.Reason, error) { sock.Connect() })
		} else {
			m.OnceClose(func(sio.Reason, error) { m.Open(); sock.Emit("x", arg) })
		}
	case 8:
		m.Socket(fmt.Sprintf("/dyn%d", arg%3), nil).Disconnect()
	case 9:
		m.OnceReconnect(func(uint32) { m.Socket("/", nil).Emit("x", arg) })
		m.OnceError(func(error) { _ = m.Socket("/", nil).Active() })
	}
}

// perform runs one operation, directly or from inside a handler on the addressed side.
func (w *c16World) perform(op c16Op) {
	i := op.Who % max(w.c.Clients, 1)
	switch op.Via {
	case "event":
		// ask the addressed side to perform the operation inside its event handler
		switch op.Side {
		case "ss", "nsp":
			w.cs[i].Emit("do", op.Side, op.Code, op.Arg)
		default:
			if s := w.serverSocket(i); s != nil {
				s.Emit("do", op.Side, op.Code, op.Arg)
			}
		}
		return
	case "ack":
		// the operation runs inside an acknowledgement callback
		switch op.Side {
		case "cs", "mgr":
			w.cs[i].Timeout(200*time.Millisecond).Emit("ackme", op.Arg, func(err error, v int) { w.direct(op, i) })
		default:
			if s := w.serverSocket(i); s != nil {
				s.Timeout(200*time.Millisecond).Emit("ackme", op.Arg, func(err error, v int) { w.direct(op, i) })
			}
		}
		return
	}
	w.direct(op, i)
}

func (w *c16World) direct(op c16Op, i int) {
	switch op.Side {
	case "ss":
		w.doSS(w.serverSocket(i), op.Code, op.Arg)
	case "nsp":
		w.doNsp(op.Code, op.Arg)
	case "cs":
		w.doCS(w.cs[i], op.Code, op.Arg)
	case "mgr":
		w.doMgr(w.mgrs[i], op.Code, op.Arg)
	}
	w.opsDone.Add(1)
	tick()
}

// ---- execution ----------------------------------------------------------------------------------------------------------

var c16RepoLine = regexp.MustCompile(`(?m)^\s*(github\.com/karagenc/socket(?:\.|%2e)io-go\S*\(.*)$`)

// c16RepoFunc returns the innermost repository function named in a stack (goroutine dump or race report), without the module path.
func c16RepoFunc(stack string) string {
	m := c16RepoLine.FindStringSubmatch(stack)
	if m == nil {
		return ""
	}
	l := m[1]
	if i := strings.LastIndex(l, "("); i > 0 {
		l = l[:i]
	}
	l = strings.TrimPrefix(strings.TrimPrefix(l, "github.com/karagenc/socket.io-go"), "github.com/karagenc/socket%2eio-go")
	return strings.ReplaceAll(l, "%2e", ".")
}

// phase runs fn on its own goroutine and waits for it. If it has not returned after limit of real time although
// operations in these programs never wait for more than a few hundred milliseconds, two goroutine dumps 10 s apart decide: the same
// goroutines parked in repository code both times => "never returns".
func c16Phase(name string, limit time.Duration, fn func()) (hang string) {
	done := make(chan struct{})
	go func() { defer close(done); fn() }()
	select {
	case <-done:
		return ""
	case <-time.After(limit):
	}
	dump := func() map[string]string {
		buf := make([]byte, 8<<20)
		n := runtime.Stack(buf, true)
		out := map[string]string{}
		for _, g := range strings.Split(string(buf[:n]), "\n\n") {
			if !strings.Contains(g, "harness.(*c16World)") && !strings.Contains(g, "harness.c16") && !strings.Contains(g, "harness.evalC16") {
				continue
			}
			if c16RepoFunc(g) == "" {
				continue
			}
			head, _, _ := strings.Cut(g, "\n")
			id := strings.Fields(head)
			if len(id) >= 2 {
				out[id[1]] = g
			}
		}
		return out
	}
	first := dump()
	select {
	case <-done:
		return ""
	case <-time.After(10 * time.Second):
	}
	second := dump()
	var stuck []string
	for id, g := range second {
		if f, ok := first[id]; ok && c16Frames(f) == c16Frames(g) {
			stuck = append(stuck, g)
		}
	}
	if len(stuck) == 0 {
		return "" // slow, not stuck: inconclusive; the caller goes on waiting
	}
	sort.Strings(stuck)
	return fmt.Sprintf("phase %q has not returned after %v; %d goroutine(s) sit in the same repository frames in two dumps 10 s apart:\n%s", name, limit+10*time.Second, len(stuck), truncS(strings.Join(stuck, "\n\n"), 6000))
}

func c16Frames(g string) string {
	var fr []string
	for _, l := range strings.Split(g, "\n")[1:] {
		if !strings.HasPrefix(l, "\t") {
			fr = append(fr, l)
		}
	}
	return strings.Join(fr, "|")
}

func evalC16(c c16Case) (f *Failure, nontrivial bool) {
	realClock = true
	class := c.class()
	fail := func(clause, cls, detail string) *Failure {
		return &Failure{Property: "C16", Check: c16Check, Clause: clause, Class: cls, Detail: detail, Case: c}
	}
	journal(c16Check, class, c)
	old := runtime.GOMAXPROCS(c.Procs)
	defer runtime.GOMAXPROCS(old)
	racesBefore := raceErrors()
	raceLogMark := raceLogSize()
	var res *Failure
	var rp atomic.Pointer[rig] // read by hook callbacks on library goroutines
	w := &c16World{c: c, ss: map[int]sio.ServerSocket{}}
	withHooks(hookSet{
		point: func(site string) {
			if c.YieldEvery > 0 && w.hooks.Add(1)%int64(c.YieldEvery) == 0 {
				if w.hooks.Load()%2 == 0 {
					runtime.Gosched()
				} else {
					time.Sleep(50 * time.Microsecond)
				}
			}
		},
		stop: func(string) bool { r := rp.Load(); return r != nil && r.closing.Load() },
	}, func() {
		// (with recovery: the adapter's log cleaner runs every 2 ms instead of every minute, so that it takes part in the program at all)
		r := newRig(rigOpts{Recovery: c.Recovery, CleanerPeriod: 2 * time.Millisecond, PingInterval: time.Second, PingTimeout: 5 * time.Second})
		rp.Store(r)
		w.r = r
		w.nsp = r.Server.Of("/")
		lifecycle := func(k int, i int) {
			if k < len(c.Lifecycle) {
				op := c.Lifecycle[k]
				op.Via = "direct"
				w.direct(op, i)
			}
		}
		r.Server.Of("/").Use(func(s sio.ServerSocket, h *sio.Handshake) any {
			i := -1
			var a struct {
				Idx *int `json:"idx"`
			}
			if json.Unmarshal(h.Auth, &a) == nil && a.Idx != nil {
				i = *a.Idx
			}
			if i >= 0 {
				w.mu.Lock()
				w.ss[i] = s
				w.mu.Unlock()
			}
			s.OnEvent("do", func(side string, code, arg int) { w.direct(c16Op{Side: side, Code: code, Arg: arg}, max(i, 0)) })
			s.OnEvent("ackme", func(v int, ack func(int)) { ack(v) })
			s.OnEvent("echo", func(v int, ack func(int)) { ack(v) })
			s.OnDisconnecting(func(sio.Reason) { lifecycle(1, max(i, 0)) })
			s.OnDisconnect(func(sio.Reason) { lifecycle(2, max(i, 0)) })
			return nil
		})
		r.Server.Of("/").OnConnection(func(s sio.ServerSocket) { lifecycle(0, 0) })
		for d := 0; d < 3; d++ {
			r.Server.Of(fmt.Sprintf("/dyn%d", d))
		}
		// clients
		connected := make(chan int, c.Clients*4)
		for i := 0; i < c.Clients; i++ {
			i := i
			dl, mx := 10*time.Millisecond, 50*time.Millisecond
			m := r.manager(c01Transports(c.Transport), func(cfg *sio.ManagerConfig) {
				cfg.NoReconnection = false
				cfg.ReconnectionDelay = &dl
				cfg.ReconnectionDelayMax = &mx
			})
			s := m.Socket("/", nil)
			s.SetAuth(map[string]any{"idx": i})
			s.OnEvent("do", func(side string, code, arg int) { w.direct(c16Op{Side: side, Code: code, Arg: arg}, i) })
			s.OnEvent("ackme", func(v int, ack func(int)) { ack(v) })
			s.OnConnect(func() {
				select {
				case connected <- i:
				default:
				}
				lifecycle(3, i)
			})
			s.OnDisconnect(func(sio.Reason) { lifecycle(4, i) })
			w.mgrs = append(w.mgrs, m)
			w.cs = append(w.cs, s)
		}
		for _, s := range w.cs {
			s.Connect()
		}
		deadline := time.After(20 * time.Second)
		for n := 0; n < c.Clients; n++ {
			select {
			case <-connected:
			case <-deadline:
				res = fail("setup", class, "the clients did not connect within 20 s on an idle rig")
				n = c.Clients
			}
		}
		if res != nil {
			r.teardown()
			return
		}
		// the program
		if hang := c16Phase("program", 45*time.Second, func() {
			var wg sync.WaitGroup
			for gi, prog := range c.Programs {
				wg.Add(1)
				go func() {
					defer wg.Done()
					for _, op := range prog {
						w.perform(op)
					}
					if gi == 0 && c.CloseServer {
						r.Server.Close()
					}
				}()
			}
			wg.Wait()
		}); hang != "" {
			res = fail("never-returns", c16HangClass(hang), hang)
			return // no teardown: it would hang too
		}
		time.Sleep(250 * time.Millisecond) // ack timeouts (100-200 ms) and handler-issued operations finish
		// epilogue: everything is still operable (a mutex left held shows here)
		if hang := c16Phase("epilogue", 45*time.Second, func() {
			for i, s := range w.cs {
				s.OnEvent("x", c16H1)
				s.OffEvent("x")
				s.Connect()
				done := make(chan struct{})
				s.Timeout(500*time.Millisecond).Emit("echo", i, func(err error, v int) { close(done) })
				<-done
				_ = s.Connected()
				if ss := w.serverSocket(i); ss != nil {
					ss.Join("z")
					ss.Leave("z")
					_ = ss.Rooms()
					ss.OnEvent("x", c16H1)
					ss.OffEvent("x")
					ss.Emit("x", 1)
					ss.To("r0").Emit("x", 1)
				}
				w.doMgr(w.mgrs[i], 2, 0)
				w.doMgr(w.mgrs[i], 3, 0)
			}
			_ = w.nsp.Sockets()
			_ = w.nsp.FetchSockets()
			w.nsp.Emit("x", 1)
			w.nsp.SocketsJoin("z")
			w.nsp.SocketsLeave("z")
			w.nsp.OnConnection(c16NC1)
			w.nsp.OffConnection(c16NC1)
		}); hang != "" {
			res = fail("never-returns", c16HangClass(hang), hang)
			return
		}
		if hang := c16Phase("teardown", 60*time.Second, func() { r.teardown() }); hang != "" {
			res = fail("never-returns", c16HangClass(hang), hang)
		}
	})
	if res == nil {
		if n := raceErrors() - racesBefore; n > 0 {
			rep := raceLogSince(raceLogMark)
			res = fail("data-race", c16RaceClass(rep), fmt.Sprintf("%d data race report(s) during this program:\n%s", n, truncS(rep, 7000)))
		}
	}
	// non-trivial: >= 3 goroutines touching the same socket / the namespace, and >= 1 operation issued from a handler
	touch := map[string]map[int]bool{}
	fromHandler := len(c.Lifecycle) > 0
	for gi, p := range c.Programs {
		for _, op := range p {
			k := op.Side
			if k == "ss" || k == "cs" || k == "mgr" {
				k = fmt.Sprintf("client%d", op.Who%max(c.Clients, 1))
			}
			if touch[k] == nil {
				touch[k] = map[int]bool{}
			}
			touch[k][gi] = true
			fromHandler = fromHandler || op.Via != "direct"
		}
	}
	for _, g := range touch {
		if len(g) >= 3 && fromHandler {
			nontrivial = true
		}
	}
	return res, nontrivial
}

// c16RaceClass names a race by the function that owns each of the two conflicting accesses (sorted): walking each stack from the
// access outwards, standard-library and third-party frames are skipped (the library called them), and the first frame that
// belongs to the repository or to the harness owns the access. A race both of whose accesses are owned by the harness is
// the harness's own ("race:?~?"); everything else is the repository's, and a known finding names one particular pair.
func c16RaceClass(report string) string {
	first, _, _ := strings.Cut(report, "==================\n\n")
	parts := regexp.MustCompile(`(?m)^(?:Previous )?(?:[Rr]ead|[Ww]rite|atomic \w+) (?:at|of) .*$`).Split(first, -1)
	var fns []string
	for _, p := range parts[1:] {
		p, _, _ = strings.Cut(p, "\n\n")
		owner := "?"
		for _, l := range strings.Split(p, "\n") {
			l = strings.TrimSpace(l)
			if strings.HasPrefix(l, "verif/harness") {
				break // the harness's own access
			}
			if fn := c16RepoFunc(l); fn != "" {
				if strings.HasPrefix(fn, "/internal/verifhook.") {
					continue // the hook trampoline calls into the harness
				}
				owner = fn
				break
			}
		}
		fns = append(fns, owner)
		if len(fns) == 2 {
			break
		}
	}
	sort.Strings(fns)
	return "race:" + strings.Join(fns, "~")
}

func c16HangClass(hang string) string {
	var fns []string
	seen := map[string]bool{}
	for _, g := range strings.Split(hang, "\n\n") {
		if fn := c16RepoFunc(g); fn != "" && !seen[fn] {
			seen[fn] = true
			fns = append(fns, fn)
		}
	}
	sort.Strings(fns)
	if len(fns) > 3 {
		fns = fns[:3]
	}
	return "hang:" + strings.Join(fns, "~")
}

// ---- race log --------------------------------------------------------------------------------------------------------
// The driver starts race-variant workers with GORACE=log_path=<out>/race-<shard>: the detector appends its reports to <path>.<pid>.

func raceLogPath() string {
	for _, kv := range strings.Fields(os.Getenv("GORACE")) {
		if p, ok := strings.CutPrefix(kv, "log_path="); ok {
			return fmt.Sprintf("%s.%d", p, os.Getpid())
		}
	}
	return ""
}

func raceLogSize() int64 {
	if p := raceLogPath(); p != "" {
		if st, err := os.Stat(p); err == nil {
			return st.Size()
		}
	}
	return 0
}

func raceLogSince(mark int64) string {
	p := raceLogPath()
	if p == "" {
		return "(no GORACE log_path: the report is on stderr)"
	}
	b, err := os.ReadFile(p)
	if err != nil || int64(len(b)) <= mark {
		return "(race log empty)"
	}
	return string(b[mark:])
}

// ---- generator -------------------------------------------------------------------------------------------------------

// c16ManagerTheme: operations around one manager's connection life cycle and the sockets that follow it
var c16ManagerTheme = []c16Op{{Side: "cs", Code: 18}, {Side: "cs", Code: 19}, {Side: "cs", Code: 19}, {Side: "cs", Code: 12}, {Side: "cs", Code: 6}, {Side: "cs", Code: 7}, {Side: "cs", Code: 15}, {Side: "cs", Code: 16}, {Side: "cs", Code: 17}, {Side: "cs", Code: 16}, {Side: "cs", Code: 17},
	{Side: "mgr", Code: 0}, {Side: "mgr", Code: 1}, {Side: "mgr", Code: 8}, {Side: "mgr", Code: 6}, {Side: "cs", Code: 0}, {Side: "ss", Code: 19}, {Side: "nsp", Code: 13}}

func genC16Op(t *rapid.T, clients int, allowHeavy bool) c16Op {
	if allowHeavy && c16Theme == "manager" && rapid.IntRange(0, 3).Draw(t, "themed") != 0 {
		op := rapid.SampledFrom(c16ManagerTheme).Draw(t, "themeOp")
		op.Who, op.Arg, op.Via = rapid.IntRange(0, clients-1).Draw(t, "who"), rapid.IntRange(0, 23).Draw(t, "arg"), rapid.SampledFrom([]string{"direct", "direct", "event"}).Draw(t, "via")
		return op
	}
	side := rapid.SampledFrom([]string{"ss", "ss", "ss", "cs", "cs", "cs", "nsp", "nsp", "mgr"}).Draw(t, "side")
	op := c16Op{Side: side, Who: rapid.IntRange(0, clients-1).Draw(t, "who"), Arg: rapid.IntRange(0, 23).Draw(t, "arg"),
		Via: rapid.SampledFrom([]string{"direct", "direct", "direct", "event", "ack"}).Draw(t, "via")}
	switch side {
	case "ss":
		op.Code = rapid.IntRange(0, c16SSOps-1).Draw(t, "code")
	case "cs":
		op.Code = rapid.IntRange(0, c16CSOps-1).Draw(t, "code")
	case "nsp":
		op.Code = rapid.IntRange(0, c16NspOps-1).Draw(t, "code")
	case "mgr":
		op.Code = rapid.IntRange(0, c16MgrOps-1).Draw(t, "code")
	}
	if !allowHeavy {
		// disconnecting operations only in a minority of programs: a world in which everything is closed exercises little
		if side == "cs" && op.Code == 18 {
			op.Code = 19
		}
		if (side == "ss" && op.Code == 19) || (side == "cs" && op.Code == 7) || (side == "nsp" && op.Code == 13) || (side == "mgr" && op.Code == 1) {
			op.Arg = op.Arg | 1
			if op.Arg%3 == 0 {
				op.Arg += 4
			}
			if op.Arg%5 == 0 {
				op.Arg += 2
			}
			if op.Arg%3 == 0 {
				op.Arg += 4
			}
		}
	}
	return op
}

var c16Theme string // set per generated case (the generator runs on one goroutine)

func genC16Case(t *rapid.T) c16Case {
	c := c16Case{Procs: rapid.SampledFrom([]int{1, 2, 4, 16}).Draw(t, "procs"), Transport: rapid.SampledFrom([]string{"polling", "websocket", "upgrade"}).Draw(t, "transport"),
		Clients: rapid.IntRange(1, 3).Draw(t, "clients"), Recovery: rapid.IntRange(0, 3).Draw(t, "recovery") == 0,
		YieldEvery: rapid.SampledFrom([]int{0, 1, 2, 5}).Draw(t, "yield")}
	heavy := rapid.IntRange(0, 2).Draw(t, "heavy") == 0
	c16Theme = ""
	if heavy && rapid.Bool().Draw(t, "managerTheme") {
		c16Theme = "manager" // a sixth of the programs
	}
	if rapid.IntRange(0, 1).Draw(t, "lifecycleOps") == 1 {
		for i := 0; i < 5; i++ {
			op := genC16Op(t, c.Clients, false)
			// lifecycle handlers do not close things (a disconnect handler that reconnects and a connect handler that disconnects loop for ever by design)
			if op.Side == "mgr" || (op.Side == "cs" && (op.Code == 6 || op.Code == 7 || op.Code == 15 || op.Code == 18)) || (op.Side == "ss" && op.Code == 19) || (op.Side == "nsp" && op.Code == 13) {
				op = c16Op{Side: "nsp", Code: 2}
			}
			op.Via = "direct"
			c.Lifecycle = append(c.Lifecycle, op)
		}
	}
	g := rapid.IntRange(2, 16).Draw(t, "goroutines")
	focus := rapid.IntRange(0, c.Clients-1).Draw(t, "focus")
	for i := 0; i < g; i++ {
		n := rapid.IntRange(5, 40).Draw(t, "ops")
		var p []c16Op
		for k := 0; k < n; k++ {
			op := genC16Op(t, c.Clients, heavy)
			if rapid.IntRange(0, 1).Draw(t, "focused") == 0 {
				op.Who = focus // contention on one socket
			}
			p = append(p, op)
		}
		c.Programs = append(c.Programs, p)
	}
	c.CloseServer = heavy && rapid.IntRange(0, 5).Draw(t, "closeServer") == 0
	return c
}

func TestC16_Programs(t *testing.T) {
	setT(t)
	realClock = true
	ev := NewEv(t, "C16", c16Check, "rapid-generated concurrent programs on a real server + 1..3 real clients over memnet on the real clock, built with -race: 2..16 goroutines x 5..40 operations over "+
		"ServerSocket (22 op kinds), ClientSocket (20, including bursts of connection cycles and of SetAuth/Auth/Connected calls), Namespace/Server/Adapter (16), Manager (10, including Close / Disconnect / Connect / Open issued from inside OnceOpen and OnceClose handlers): with connection state recovery in a quarter of the programs (log cleaner every 2 ms); emits with/without ack/timeout/volatile/binary, join/leave/rooms, broadcasts through sockets and namespaces, "+
		"SocketsJoin/Leave/DisconnectSockets/FetchSockets, On/Once/Off of events and lifecycle handlers, Use, SetAuth, Connect/Disconnect/Open/Close, Server.Close; a third of the operations are performed from inside "+
		"an event handler or an ack callback of the addressed side, five more from connection/disconnecting/disconnect/connect handlers; GOMAXPROCS in {1,2,4,16}; yields at the hook sites; a sixth of the programs concentrate on one manager's connection life cycle (Open/Close/Connect/Disconnect of several sockets "+
		"of one manager); "+
		"oracle: no race report (runtime.RaceErrors delta per program; the report is read from the GORACE log), program + epilogue (every socket, manager and the namespace still operable, ack round trip) + teardown return "+
		"(a phase that does not return is decided by two goroutine dumps 10 s apart showing the same goroutines parked in repository frames), no panic; "+
		"non-trivial = >= 3 goroutines touching one client's sockets or the namespace and >= 1 operation issued from a handler")
	if !raceEnabled {
		ev.Note("binary built without -race: only the never-returns / panic clauses are evaluated in this run")
	}
	n := tierN(240, 12000)
	// Every failure is recorded and the search goes on (a race is reported once per process by the detector, so shrinking cannot
	// reproduce it, and a listed known finding must not end the campaign).
	seen := map[string]bool{}
	failed := false
	runRapid(t, c16Check, n, func(t *rapid.T) {
		c := genC16Case(t)
		f, nt := evalC16(c)
		ev.Case(c16Shape(c), nt, c.class())
		if nt {
			ev.Sample(c.class(), c16Shape(c))
		}
		if f != nil && f.Class == "race:?~?" {
			// neither stack has a repository frame: a race inside the harness (or a third-party library), not a verdict about the repository
			fmt.Printf("\nVERIF-INFRA race without repository frames:\n%s\n", f.Detail)
			failed = true
			return
		}
		if f != nil {
			if !seen[f.Clause+f.Class] {
				seen[f.Clause+f.Class] = true
				emitFailure(f)
			}
			if f.Clause == "never-returns" || f.Clause == "setup" {
				failed = true
				t.Fatalf("%s", f.Detail) // the process is in an unknown state
			}
			failed = true
		}
	})
	if failed {
		t.Fail()
	}
}

// c16Shape is what goes into the evidence for a program (programs are long: the evidence keeps their shape).
func c16Shape(c c16Case) map[string]any {
	ops, via := 0, map[string]int{}
	for _, p := range c.Programs {
		ops += len(p)
		for _, op := range p {
			via[op.Via]++
		}
	}
	first := []c16Op{}
	if len(c.Programs) > 0 {
		first = c.Programs[0][:min(6, len(c.Programs[0]))]
	}
	return map[string]any{"gomaxprocs": c.Procs, "transport": c.Transport, "clients": c.Clients, "recovery": c.Recovery, "yield_every": c.YieldEvery, "goroutines": len(c.Programs),
		"operations": ops, "via": via, "lifecycle_ops": len(c.Lifecycle), "close_server": c.CloseServer, "goroutine0_head": first}
}

func init() {
	registerReplay(c16Check, func(raw json.RawMessage) *Failure {
		f, _ := evalC16(decodeCase[c16Case](raw))
		return f
	})
}

func truncS(s string, n int) string {
	if len(s) > n {
		return s[:n] + "…"
	}
	return s
}
