package harness

import (
	"fmt"
	"sync"
	"testing"

	sio "github.com/karagenc/socket.io-go"
)

func TestDbgConnect(t *testing.T) {
	setT(t)
	bad := 0
	for iter := 0; iter < 60000 && bad < 8; iter++ {
		tr := []string{"polling", "websocket", "upgrade"}[iter%3]
		var report string
		runRig(rigOpts{}, func(r *rig) {
			var mu sync.Mutex
			st := map[string]int{}
			inc := func(k string) { mu.Lock(); st[k]++; mu.Unlock() }
			r.Server.OnConnection(func(s sio.ServerSocket) {
				inc("srv-conn")
				s.OnEvent("hello", func(i int) { inc("srv-hello") })
				s.OnError(func(err error) { inc("srv-err:" + err.Error()) })
				s.OnDisconnect(func(reason sio.Reason) { inc("srv-disc:" + string(reason)) })
				s.Emit("ready")
				inc("srv-ready-sent")
			})
			n := 2
			clients := make([]sio.ClientSocket, n)
			for i := range clients {
				i := i
				m := r.manager(c01Transports(tr), nil)
				m.OnError(func(err error) { inc("mgr-err:" + err.Error()) })
				m.OnOpen(func() { inc("mgr-open") })
				m.OnClose(func(reason sio.Reason, err error) { inc("mgr-close:" + string(reason)) })
				s := m.Socket("/", nil)
				s.OnEvent("ready", func() { inc("cli-ready"); s.Emit("hello", i) })
				s.OnConnect(func() { inc("cli-connect") })
				s.OnConnectError(func(err any) { inc(fmt.Sprint("cli-connect-error:", err)) })
				s.OnDisconnect(func(sio.Reason) { inc("cli-disc") })
				clients[i] = s
				s.Connect()
			}
			settle(0)
			mu.Lock()
			ok := st["srv-hello"] == n
			mu.Unlock()
			if !ok {
				c0, c1 := clients[0].Connected(), clients[1].Connected()
				settle(60e9)
				mu.Lock()
				report = fmt.Sprintf("iter %d transport %s: %v connected at quiescence=%v/%v after 60s=%v/%v", iter, tr, st, c0, c1, clients[0].Connected(), clients[1].Connected())
				mu.Unlock()
			}
		})
		if report != "" {
			bad++
			t.Log(report)
		}
	}
}
