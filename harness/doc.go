// Package harness contains the property-based checks for karagenc/socket.io-go (see /verif/DESIGN.md).
package harness
