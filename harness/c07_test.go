package harness

// C07 — a transport upgrade loses, duplicates and breaks nothing. DESIGN.md §3 C07.
// Engine.IO level rig (eio.NewServer + eio.Dial over memnet, virtual time): numbered text/binary messages in both
// directions at generated instants before/during/after the upgrade, bursts fired from the swap hooks and from
// UpgradeDone, latency on the WebSocket link, and upgrade attempts that are cut at a drawn byte offset / black-holed.

import (
	"bytes"
	"encoding/json"
	"fmt"
	"net/http"
	"runtime"
	"sort"
	"sync"
	"sync/atomic"
	"testing"
	"time"

	eio "github.com/karagenc/socket.io-go/engine.io"
	"github.com/karagenc/socket.io-go/engine.io/parser"
	"nhooyr.io/websocket"
	"pgregory.net/rapid"

	"verif/harness/memnet"
)

// Run with VERIF_AS=C16 the check reports under C16 (the socket's API used from several goroutines while the library swaps transports:
// a call that never returns is a deadlock).
var c07Prop, c07Check = func() (string, string) {
	if envStr("VERIF_AS", "") == "C16" {
		return "C16", "c16-send-during-upgrade"
	}
	return "C07", "c07-upgrade"
}()

type c07Msg struct {
	Dir    string `json:"dir"` // c2s | s2c
	AtUs   int    `json:"at_us"`
	Binary bool   `json:"binary"`
}

type c07Case struct {
	WSLatencyUs  int      `json:"ws_latency_us"`
	Msgs         []c07Msg `json:"msgs"`
	BurstSwap    string   `json:"burst_swap"`     // none | server | client | both: 4 messages fired from the yield hook right before the transport swap
	BurstDone    bool     `json:"burst_done"`     // 4 messages fired from the client's UpgradeDone callback
	Fault        string   `json:"fault"`          // none | cut-c2s | cut-s2c | blackhole
	FaultAt      int      `json:"fault_at"`       // byte offset on the WebSocket link at which it is cut
	ParkSwap     bool     `json:"park_swap"`      // park the swapping goroutine (virtual 1 ns) so that everything else runs first
	ParkClientMs int      `json:"park_client_ms"` // hold the client's swap back that long (as a Send still in flight on polling does); the client's UpgradeTimeout is then 2 s, the server's 5 s
	BigAfter     int      `json:"big_after"`      // size of one extra message in each direction after the upgrade (0 = none)
	// forced schedule: the first server Send that reaches the polling transport once the server's swap is imminent is held at the transport's entry
	// for that many scheduler yields (no virtual time passes), and the swapping goroutine goes on only when that Send is there (0 = off)
	ParkSendSpins int `json:"park_send_spins"`
	// the server's swap is held back that long (a busy server: the UPGRADE packet is processed late), with messages sent meanwhile
	ParkServerMs int `json:"park_server_ms"`
	// forced schedule: the first client Send of the burst fired at the client's swap is held under the socket's read lock (yield point) for 5000
	// scheduler yields, and the swapping goroutine goes on only when that Send is there, so that it asks for the write lock behind it
	ParkClientSend bool `json:"park_client_send"`
}

func (c c07Case) class() string {
	if c.Fault != "none" {
		return "failed-upgrade," + c.Fault
	}
	return "upgrade"
}

func evalC07(c c07Case) (f *Failure, nontrivial bool) {
	class := c.class()
	fail := func(clause, detail string) *Failure {
		return &Failure{Property: c07Prop, Check: c07Check, Clause: clause, Class: class, Detail: detail, Case: c}
	}
	journal(c07Check, class, c)
	var res *Failure
	var mu sync.Mutex
	outOfDomain := false
	gotS, gotC := map[string]int{}, map[string]int{}
	sentS, sentC := map[string]bool{}, map[string]bool{} // what the server / the client sent
	var closes []string
	var errsC, errsS []string
	var srv eio.ServerSocket
	var cli eio.ClientSocket
	upgradedAt := time.Duration(-1)
	duringSwap := 0
	var start time.Time
	seq := 0
	var send func(dir string, binary bool, tag string)
	sendPad := func(dir string, binary bool, tag string, pad int) {
		mu.Lock()
		seq++
		id := fmt.Sprintf("%s-%s-%d", dir, tag, seq)
		// a burst message fired at the swap travels with a companion in ONE Send call (a batch, as an event with an attachment is)
		id2 := ""
		if tag == "swap" {
			id2 = id + "b"
		}
		if dir == "c2s" {
			sentC[id] = true
			if id2 != "" {
				sentC[id2] = true
			}
		} else {
			sentS[id] = true
			if id2 != "" {
				sentS[id2] = true
			}
		}
		s, cl := srv, cli
		if (dir == "c2s" && cl == nil) || (dir == "s2c" && s == nil) {
			// the endpoint is not known to the harness yet (a hook can fire before Dial has returned): nothing is sent
			delete(sentC, id)
			delete(sentS, id)
			delete(sentC, id2)
			delete(sentS, id2)
			mu.Unlock()
			return
		}
		mu.Unlock()
		data := []byte(id)
		if pad > 0 {
			data = append(append(data, '|'), bytes.Repeat([]byte{'x'}, pad)...)
		}
		p, _ := parser.NewPacket(parser.PacketTypeMessage, binary, data)
		ps := []*parser.Packet{p}
		if id2 != "" {
			p2, _ := parser.NewPacket(parser.PacketTypeMessage, !binary, []byte(id2))
			ps = append(ps, p2)
		}
		if dir == "c2s" {
			cl.Send(ps...)
		} else {
			s.Send(ps...)
		}
	}
	send = func(dir string, binary bool, tag string) { sendPad(dir, binary, tag, 0) }
	key := func(data []byte) string {
		if i := bytes.IndexByte(data, '|'); i >= 0 {
			return string(data[:i])
		}
		return string(data)
	}
	swapSeen := map[string]bool{}
	var sendParked, clientSendParked atomic.Bool
	var sendsAfterSwapImminent, clientSendsAfterSwapImminent atomic.Int64
	hooks := hookSet{point: func(site string) {
		var side string
		switch site {
		case "eio.clientSocket.Send:locked":
			// A client Send that holds the socket's read lock while the client's swap is imminent stays there for a while: the swap arrives and waits for
			// the write lock behind it (with the clean lock discipline that is all that happens).
			mu.Lock()
			imminent := swapSeen["client"]
			mu.Unlock()
			if (c.BurstSwap == "client" || c.BurstSwap == "both") && c.ParkClientSend && imminent && clientSendsAfterSwapImminent.Add(1) == 1 {
				clientSendParked.Store(true)
				for i := 0; i < 5000; i++ {
					runtime.Gosched()
				}
			}
			return
		case "polling.ServerTransport.Send:enter":
			mu.Lock()
			imminent := swapSeen["server"]
			mu.Unlock()
			if c.ParkSendSpins > 0 && imminent && sendsAfterSwapImminent.Add(1) == 1 {
				sendParked.Store(true)
				for i := 0; i < c.ParkSendSpins; i++ {
					runtime.Gosched()
				}
			}
			return
		case "eio.serverSocket.upgradeTo:before-swap":
			side = "server"
		case "eio.clientSocket.finishUpgradeTo:before-swap":
			side = "client"
		default:
			return
		}
		mu.Lock()
		first := !swapSeen[side]
		swapSeen[side] = true
		mu.Unlock()
		if !first {
			return
		}
		if c.BurstSwap == side || c.BurstSwap == "both" {
			mu.Lock()
			duringSwap += 4
			mu.Unlock()
			dir := "s2c"
			if side == "client" {
				dir = "c2s"
			}
			for i := 0; i < 4; i++ {
				go send(dir, i%2 == 1, "swap")
			}
		}
		if side == "client" && c.ParkClientSend && (c.BurstSwap == "client" || c.BurstSwap == "both") {
			// go on to the swap only when a burst Send sits under its read lock
			for i := 0; i < 50000 && !clientSendParked.Load(); i++ {
				runtime.Gosched()
			}
		} else if side == "server" && c.ParkSendSpins > 0 && (c.BurstSwap == "server" || c.BurstSwap == "both") {
			for i := 0; i < 50000 && !sendParked.Load(); i++ {
				runtime.Gosched()
			}
		} else if c.ParkSwap {
			time.Sleep(time.Nanosecond)
		}
		if side == "client" && c.ParkClientMs > 0 {
			time.Sleep(time.Duration(c.ParkClientMs) * time.Millisecond)
		}
		if side == "server" && c.ParkServerMs > 0 {
			time.Sleep(time.Duration(c.ParkServerMs) * time.Millisecond)
		}
	}}
	body := func() {
		start = time.Now()
		net := memnet.New()
		var wsLink *memnet.Link
		net.SetOnFirstWrite(func(l *memnet.Link, data []byte) {
			if bytes.Contains(data, []byte("Upgrade: websocket")) || bytes.Contains(data, []byte("Upgrade: WebSocket")) {
				mu.Lock()
				wsLink = l
				mu.Unlock()
				if c.WSLatencyUs > 0 {
					l.SetLatency(time.Duration(c.WSLatencyUs) * time.Microsecond)
				}
				switch c.Fault {
				case "cut-c2s":
					l.CutAfter(true, int64(c.FaultAt))
				case "cut-s2c":
					l.CutAfter(false, int64(c.FaultAt))
				case "blackhole":
					l.Blackhole(true, true)
				}
			}
		})
		server := eio.NewServer(func(s eio.ServerSocket) *eio.Callbacks {
			mu.Lock()
			srv = s
			mu.Unlock()
			return &eio.Callbacks{
				OnPacket: func(ps ...*parser.Packet) {
					mu.Lock()
					for _, p := range ps {
						if p.Type == parser.PacketTypeMessage {
							gotS[key(p.Data)]++
						}
					}
					mu.Unlock()
				},
				OnError: func(err error) { mu.Lock(); errsS = append(errsS, err.Error()); mu.Unlock() },
				OnClose: func(r eio.Reason, err error) {
					mu.Lock()
					closes = append(closes, fmt.Sprintf("server:%s:%v@%v", r, err, time.Since(start)))
					mu.Unlock()
				},
			}
		}, &eio.ServerConfig{UpgradeTimeout: 5 * time.Second})
		_ = server.Run()
		hs := &http.Server{Handler: server}
		go hs.Serve(net)
		tr := &http.Transport{DialContext: net.Dial, MaxIdleConnsPerHost: 8}
		var err error
		clientUpgradeTimeout := 5 * time.Second
		if c.ParkClientMs > 0 {
			clientUpgradeTimeout = 2 * time.Second
		}
		cl, err := eio.Dial("http://x/engine.io", &eio.Callbacks{
			OnPacket: func(ps ...*parser.Packet) {
				mu.Lock()
				for _, p := range ps {
					if p.Type == parser.PacketTypeMessage {
						gotC[key(p.Data)]++
					}
				}
				mu.Unlock()
			},
			OnError: func(err error) { mu.Lock(); errsC = append(errsC, err.Error()); mu.Unlock() },
			OnClose: func(r eio.Reason, err error) {
				mu.Lock()
				closes = append(closes, fmt.Sprintf("client:%s:%v@%v", r, err, time.Since(start)))
				mu.Unlock()
			},
		}, &eio.ClientConfig{Transports: []string{"polling", "websocket"}, HTTPTransport: tr, UpgradeTimeout: clientUpgradeTimeout,
			UpgradeDone: func(string) {
				mu.Lock()
				upgradedAt = time.Since(start)
				mu.Unlock()
				if c.BurstDone {
					// the callback itself uses the socket (the name of the transport, a Send), as an application does that greets its peer once
					// the connection has settled; then three more from goroutines
					mu.Lock()
					cl := cli
					mu.Unlock()
					if cl != nil {
						_ = cl.TransportName()
					}
					send("c2s", true, "done")
					for i := 1; i < 4; i++ {
						go send("c2s", i%2 == 0, "done")
					}
				}
			},
			WebSocketDialOptions: &websocket.DialOptions{HTTPClient: &http.Client{Transport: tr}}})
		if err != nil {
			res = fail("rig-connect", "dial: "+err.Error())
			return
		}
		mu.Lock()
		cli = cl
		ready := srv != nil
		mu.Unlock()
		if !ready {
			res = fail("rig-connect", "no server socket after dial")
			return
		}
		msgs := append([]c07Msg(nil), c.Msgs...)
		sort.SliceStable(msgs, func(i, j int) bool { return msgs[i].AtUs < msgs[j].AtUs })
		for _, m := range msgs {
			if d := time.Duration(m.AtUs)*time.Microsecond - time.Since(start); d > 0 {
				time.Sleep(d)
			}
			m := m
			go send(m.Dir, m.Binary, "t")
			tick()
		}
		settle(15 * time.Second) // both upgrade timeouts (5 s) have fired by now in the failure cases
		// traffic after the (completed or failed) upgrade
		for i := 0; i < 3; i++ {
			send("c2s", i == 1, "after")
			send("s2c", i == 2, "after")
		}
		if c.BigAfter > 0 {
			sendPad("s2c", false, "big", c.BigAfter)
			sendPad("c2s", false, "big", c.BigAfter)
			sendPad("s2c", true, "bigbin", c.BigAfter)
			sendPad("c2s", true, "bigbin", c.BigAfter)
		}
		settle(80 * time.Second) // >= 3 heartbeat periods of 25 s
		send("c2s", false, "late")
		send("s2c", true, "late")
		settle(5 * time.Second)

		mu.Lock()
		serverName, clientName := srv.TransportName(), cl.TransportName()
		upAt := upgradedAt
		mu.Unlock()
		_ = wsLink
		// ---- oracle
		mu.Lock()
		if len(closes) > 0 && c.Fault != "none" && c.Fault != "blackhole" && upAt >= 0 {
			// the cut offset lay beyond the upgrade exchange: it hit the settled WebSocket transport after the upgrade had completed,
			// which legitimately ends the connection (C06's subject). Not a case of this check.
			outOfDomain = true
			mu.Unlock()
			goto teardown
		}
		if len(closes) > 0 {
			res = fail("stays-open", fmt.Sprintf("the connection was closed: %v (client errors %v, server errors %v)", closes, errsC, errsS))
		}
		if res == nil {
			var lost, dup []string
			for id := range sentC {
				if gotS[id] == 0 {
					lost = append(lost, id)
				} else if gotS[id] > 1 {
					dup = append(dup, fmt.Sprintf("%s x%d", id, gotS[id]))
				}
			}
			for id := range sentS {
				if gotC[id] == 0 {
					lost = append(lost, id)
				} else if gotC[id] > 1 {
					dup = append(dup, fmt.Sprintf("%s x%d", id, gotC[id]))
				}
			}
			sort.Strings(lost)
			sort.Strings(dup)
			if len(dup) > 0 {
				res = fail("exactly-once", fmt.Sprintf("delivered more than once: %v (upgrade done at %v)", dup, upAt))
			} else if len(lost) > 0 {
				res = fail("nothing-lost", fmt.Sprintf("%d of %d messages never arrived: %v (upgrade done at %v, transports server=%s client=%s, client errors %v, server errors %v)",
					len(lost), len(sentC)+len(sentS), lost[:min(8, len(lost))], upAt, serverName, clientName, errsC, errsS))
			}
		}
		if res == nil {
			if c.Fault == "none" {
				if upAt < 0 || serverName != "websocket" || clientName != "websocket" {
					res = fail("upgrade-completes", fmt.Sprintf("no fault was injected but the upgrade did not complete (UpgradeDone %v, server transport %s, client transport %s, errors %v %v)", upAt, serverName, clientName, errsC, errsS))
				}
			} else if serverName != clientName {
				res = fail("transports-agree", fmt.Sprintf("after the disturbed upgrade the server is on %s and the client on %s", serverName, clientName))
			}
			// (Whether the failure is reported through an error callback is not part of the property: a black-holed handshake
			// simply never returns and the connection carries on over polling.)
		}
		mu.Unlock()
	teardown:
		cl.Close()
		server.Close()
		hs.Close()
		net.Close()
		net.CutAll()
		tr.CloseIdleConnections()
		if !realClock {
			time.Sleep(10 * time.Minute)
			net.CutAll()
			time.Sleep(time.Minute)
		}
	}
	var msg string
	withHooks(hooks, func() { msg = inBubble(curT, body) })
	if res == nil && msg != "" && !isBubbleDeadlock(msg) {
		res = fail("bubble-panic", "synctest: "+msg)
	}
	mu.Lock()
	defer mu.Unlock()
	// non-trivial: a message handed to Send between the probe and the completion of the swap, or a failed upgrade followed by traffic
	inWindow := duringSwap > 0
	for _, m := range c.Msgs {
		if upgradedAt > 0 && time.Duration(m.AtUs)*time.Microsecond <= upgradedAt {
			inWindow = true
		}
	}
	if outOfDomain {
		c07OutOfDomain++
		return nil, false
	}
	return res, inWindow || c.Fault != "none"
}

var c07OutOfDomain int64

func genC07Case(t *rapid.T) c07Case {
	c := c07Case{WSLatencyUs: rapid.SampledFrom([]int{0, 0, 100, 1000, 5000, 20000}).Draw(t, "wsLatency"),
		BurstSwap: rapid.SampledFrom([]string{"none", "server", "client", "both"}).Draw(t, "burstSwap"), BurstDone: rapid.Bool().Draw(t, "burstDone"),
		ParkSwap: rapid.Bool().Draw(t, "park"), Fault: "none",
		BigAfter: rapid.SampledFrom([]int{0, 0, 1000, 32700, 32768, 65536, 200000}).Draw(t, "bigAfter")}
	if rapid.IntRange(0, 5).Draw(t, "parkClient") == 0 {
		c.ParkClientMs = 3000
	}
	if (c.BurstSwap == "client" || c.BurstSwap == "both") && c.ParkClientMs == 0 {
		c.ParkClientSend = rapid.Bool().Draw(t, "parkClientSend")
	}
	if (c.BurstSwap == "server" || c.BurstSwap == "both") && rapid.Bool().Draw(t, "parkSend") {
		c.ParkSendSpins = rapid.SampledFrom([]int{2000, 20000}).Draw(t, "parkSendSpins")
	}
	if rapid.IntRange(0, 3).Draw(t, "faulty") == 0 {
		c.Fault = rapid.SampledFrom([]string{"cut-c2s", "cut-s2c", "blackhole"}).Draw(t, "fault")
		c.FaultAt = rapid.IntRange(0, 400).Draw(t, "faultAt")
	}
	if c.Fault != "none" {
		// A disturbed WebSocket makes the library wait for the WebSocket library's 5 s close timeouts with the transport lock held;
		// concurrent Sends then wait for that lock, which freezes virtual time (DESIGN.md §2.2). Disturbed upgrades are therefore
		// exercised without traffic inside the window; the traffic follows at 15 s.
		c.BurstSwap, c.BurstDone, c.ParkSwap, c.ParkClientMs, c.ParkSendSpins, c.ParkServerMs, c.ParkClientSend = "none", false, false, 0, 0, 0, false
		return c
	}
	if c.ParkClientMs == 0 && rapid.IntRange(0, 5).Draw(t, "parkServer") == 0 {
		// a busy server: the swap 2.5 s late (its own UpgradeTimeout is 5 s), a few messages each way in the meantime
		c.ParkServerMs, c.BurstSwap, c.ParkSwap, c.ParkSendSpins, c.ParkClientSend = 2500, "none", false, 0, false
		for i, n := 0, rapid.IntRange(1, 4).Draw(t, "lateMsgs"); i < n; i++ {
			c.Msgs = append(c.Msgs, c07Msg{Dir: rapid.SampledFrom([]string{"s2c", "s2c", "c2s"}).Draw(t, "lateDir"), AtUs: 1000 * rapid.IntRange(300, 2300).Draw(t, "lateAt"), Binary: rapid.Bool().Draw(t, "lateBin")})
		}
	}
	horizon := 4*c.WSLatencyUs + 3000
	for i, n := 0, rapid.IntRange(0, 30).Draw(t, "msgs"); i < n; i++ {
		c.Msgs = append(c.Msgs, c07Msg{Dir: rapid.SampledFrom([]string{"c2s", "s2c"}).Draw(t, "dir"), AtUs: rapid.IntRange(0, horizon).Draw(t, "at"), Binary: rapid.Bool().Draw(t, "bin")})
	}
	return c
}

func TestC07_Upgrade(t *testing.T) {
	setT(t)
	defer startWatchdog(t, 90*time.Second)()
	ev := NewEv(t, c07Prop, c07Check, "rapid on the virtual-time network at Engine.IO level: 0..30 numbered text/binary messages in both directions at instants spread over the upgrade (microsecond resolution), "+
		"latency 0..20 ms on the WebSocket link, the client's swap optionally held back for 3 s (longer than its own 2 s UpgradeTimeout, shorter than the server's), one message of 1000..200000 bytes each way after the upgrade, bursts fired from the yield hooks right before the transport swap on either side (optionally parking the swapping goroutine) and from UpgradeDone; "+
		"disturbed upgrades: WebSocket link cut at a drawn byte offset 0..400 in either direction (handshake, probe, pong, UPGRADE) or black-holed (both upgrade timeouts fire); then traffic after 15 s, "+
		"3 heartbeat periods, traffic again; oracle: multiset received == sent on both sides, no OnClose, completed upgrade => websocket on both sides, disturbed => both sides agree on the transport and traffic keeps flowing; non-trivial = a message handed to Send before the upgrade completed, or a disturbed upgrade followed by traffic")
	rapidGuard(t, c07Prop, c07Check)
	runRapid(t, c07Check, tierN(12000, 160000), func(t *rapid.T) {
		c := genC07Case(t)
		f, nt := evalC07(c)
		ev.Case(c, nt, c.class())
		if nt {
			ev.Sample(c.class(), c)
		}
		if f != nil {
			FailRapid(t, *f)
		}
	})
	ev.Class("out-of-domain:cut-after-completed-upgrade", c07OutOfDomain)
}

func init() {
	registerReplay(c07Check, func(raw json.RawMessage) *Failure {
		f, _ := evalC07(decodeCase[c07Case](raw))
		return f
	})
}
