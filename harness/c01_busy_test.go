package harness

// C01 while the manager is being used for other things — a stream of binary events arrives while the application opens further
// namespaces on the same manager, calls Open() again, registers handlers. None of that may disturb the reassembly of the packets in
// flight. DESIGN.md §3 C01.

import (
	"encoding/json"
	"fmt"
	"sync"
	"testing"
	"time"

	sio "github.com/karagenc/socket.io-go"
	"pgregory.net/rapid"
)

const c01bCheck = "c01-busy-manager"

type c01bCase struct {
	Transport string `json:"transport"`
	Events    int    `json:"events"`   // server -> client binary events (2 attachments each), emitted back to back in chunks
	Chunk     int    `json:"chunk"`    // events per chunk
	PauseUs   int    `json:"pause_us"` // virtual pause between chunks
	Ops       []int  `json:"ops"`      // client-side operations performed meanwhile, one per chunk boundary (cycled): 0 Connect another namespace, 1 Manager.Open(), 2 Socket(ns) only, 3 OnEvent/OffEvent, 4 Connect() on the connected socket, 5 Disconnect + Connect of a side namespace
	OpEvery   int    `json:"op_every"` // an operation every n-th received event (from inside the handler) as well (0 = never)
	// operation 5 calls Connect() right after Disconnect() (true) or 2 ms later (false). Back to back, the server used to handle the CONNECT
	// packet before the DISCONNECT packet now and then (a goroutine per packet) and close the whole connection (fixed, see known_findings.txt).
	RejoinAtOnce bool `json:"rejoin_at_once"`
}

func evalC01b(c c01bCase) (f *Failure, nontrivial bool) {
	class := c.Transport
	for _, k := range c.Ops {
		if k%6 == 5 {
			class = c.Transport + ",side-namespace-bounce" // a side namespace left and joined again 2 ms later (or at once) while the stream runs
			break
		}
	}
	rejoinAtOnce := false
	for _, k := range c.Ops {
		rejoinAtOnce = rejoinAtOnce || (k%6 == 5 && c.RejoinAtOnce)
	}
	if rejoinAtOnce {
		class += ",rejoin-at-once"
	}
	fail := func(clause, detail string) *Failure {
		return &Failure{Property: "C01", Check: c01bCheck, Clause: clause, Class: class, Detail: detail, Case: c}
	}
	journal(c01bCheck, class, c)
	var res *Failure
	msg := runRig(rigOpts{AcceptAny: true}, func(r *rig) {
		var mu sync.Mutex
		got := map[int]int{}
		bad := ""
		var ends []string
		var ss sio.ServerSocket
		r.Server.Use(func(s sio.ServerSocket, _ *sio.Handshake) any { mu.Lock(); ss = s; mu.Unlock(); return nil })
		m := r.manager(c01Transports(c.Transport), nil)
		m.OnClose(func(reason sio.Reason, err error) {
			mu.Lock()
			ends = append(ends, fmt.Sprintf("manager close: %s %v", reason, err))
			mu.Unlock()
		})
		m.OnError(func(err error) { mu.Lock(); ends = append(ends, "manager error: "+err.Error()); mu.Unlock() })
		cli := m.Socket("/", nil)
		nOps := 0
		op := func(k int) {
			mu.Lock()
			nOps++
			n := nOps
			mu.Unlock()
			switch k % 6 {
			case 0:
				m.Socket(fmt.Sprintf("/side%d", n%7), nil).Connect()
			case 1:
				m.Open()
			case 2:
				_ = m.Socket(fmt.Sprintf("/idle%d", n%5), nil)
			case 3:
				cli.OnEvent("other", func(int) {})
				cli.OffEvent("other")
			case 4:
				cli.Connect()
			case 5:
				s := m.Socket(fmt.Sprintf("/side%d", n%7), nil)
				s.Disconnect()
				if !c.RejoinAtOnce {
					time.Sleep(2 * time.Millisecond)
				}
				s.Connect()
			}
		}
		cli.OnEvent("b", func(tok int, a Bin, tail string, b Bin) {
			mu.Lock()
			got[tok]++
			if string(a) != fmt.Sprintf("first-%d", tok) || string(b) != fmt.Sprintf("second-%d", tok) || tail != "tail" {
				bad = fmt.Sprintf("event %d arrived with attachments %q / %q and tail %q", tok, trunc(a, 40), trunc(b, 40), tail)
			}
			n := len(got)
			mu.Unlock()
			if c.OpEvery > 0 && n%c.OpEvery == 0 && len(c.Ops) > 0 {
				k := c.Ops[n%len(c.Ops)]
				if k%6 == 5 {
					k = 0 // handlers run concurrently: several goroutines toggling ONE socket is C16's subject, not this check's
				}
				op(k)
			}
		})
		cli.OnDisconnect(func(reason sio.Reason) { mu.Lock(); ends = append(ends, "client socket: "+string(reason)); mu.Unlock() })
		cli.Connect()
		settle(2 * time.Second)
		mu.Lock()
		s := ss
		mu.Unlock()
		if s == nil || !cli.Connected() {
			res = fail("rig-connect", "not connected")
			return
		}
		done := make(chan struct{})
		go func() {
			defer close(done)
			for i := 0; i < c.Events; i++ {
				s.Emit("b", i, Bin([]byte(fmt.Sprintf("first-%d", i))), "tail", Bin([]byte(fmt.Sprintf("second-%d", i))))
				if i%c.Chunk == c.Chunk-1 {
					time.Sleep(time.Duration(c.PauseUs) * time.Microsecond)
				}
			}
		}()
		for k := 0; ; k++ {
			select {
			case <-done:
			default:
				if len(c.Ops) > 0 {
					op(c.Ops[k%len(c.Ops)])
				}
				time.Sleep(time.Duration(c.PauseUs) * time.Microsecond / 3)
				tick()
				continue
			}
			break
		}
		settle(5 * time.Second)
		mu.Lock()
		defer mu.Unlock()
		if bad != "" {
			res = fail("intact", bad)
			return
		}
		for i := 0; i < c.Events; i++ {
			if got[i] != 1 {
				res = fail("exactly-once", fmt.Sprintf("binary event %d of %d was delivered %d times while the client used its manager for other things (%d operations); ends reported: %v", i, c.Events, got[i], nOps, ends))
				return
			}
		}
		if len(ends) > 0 || !cli.Connected() {
			res = fail("connection-stays-up", fmt.Sprintf("the connection did not survive ordinary use of the manager during a binary stream: %v", ends))
		}
	})
	if res == nil && msg != "" && !isBubbleDeadlock(msg) {
		res = fail("bubble-panic", "synctest: "+msg)
	}
	return res, len(c.Ops) >= 2
}

func TestC01_BusyManager(t *testing.T) {
	setT(t)
	defer startWatchdog(t, 90*time.Second)()
	ev := NewEv(t, "C01", c01bCheck, "rapid on the virtual-time rig (AcceptAnyNamespace): the server streams 50..600 binary events (two attachments around a string) in chunks over {polling, websocket, an upgrade in "+
		"progress} while the client keeps using the same Manager: Connect of further namespaces, Manager.Open() again, Socket(ns), OnEvent/OffEvent, Connect() on the connected socket, Disconnect+Connect of a side "+
		"namespace - from the main goroutine between chunks and optionally from inside the event handler; oracle: every event delivered exactly once with both attachments and the string in place, no close / "+
		"error / disconnect reported; non-trivial = >= 2 kinds of operations")
	rapidGuard(t, "C01", c01bCheck)
	runRapid(t, c01bCheck, tierN(1600, 30000), func(t *rapid.T) {
		c := c01bCase{Transport: rapid.SampledFrom([]string{"polling", "websocket", "websocket", "upgrade"}).Draw(t, "transport"), Events: rapid.IntRange(50, 600).Draw(t, "events"),
			Chunk: rapid.SampledFrom([]int{1, 5, 25}).Draw(t, "chunk"), PauseUs: rapid.SampledFrom([]int{30, 100, 1000}).Draw(t, "pause"), OpEvery: rapid.SampledFrom([]int{0, 0, 3, 10}).Draw(t, "opEvery")}
		for i, n := 0, rapid.IntRange(1, 6).Draw(t, "ops"); i < n; i++ {
			c.Ops = append(c.Ops, rapid.IntRange(0, 5).Draw(t, "op"))
		}
		c.RejoinAtOnce = rapid.Bool().Draw(t, "rejoinAtOnce")
		f, nt := evalC01b(c)
		ev.Case(c, nt, c.Transport)
		if nt {
			ev.Sample(c.Transport, c)
		}
		if f != nil {
			FailRapid(t, *f)
		}
	})
}

func init() {
	registerReplay(c01bCheck, func(raw json.RawMessage) *Failure {
		f, _ := evalC01b(decodeCase[c01bCase](raw))
		return f
	})
}
