package harness

// C07 with a client that pauses polling during the upgrade (as the reference client does) — a hand-written Engine.IO client opens a
// session over long-polling, stops polling, lets a backlog build up on the server (messages and, after pingInterval, the heartbeat PING),
// then upgrades to WebSocket by hand. Everything that was queued for the polling transport has to come out of the WebSocket: once, in the
// order it was sent, with the packets of one Send call next to each other, the PING included - while the server keeps sending.
// DESIGN.md §3 C07.

import (
	"context"
	"encoding/json"
	"fmt"
	"io"
	"net/http"
	"runtime"
	"strconv"
	"strings"
	"sync"
	"sync/atomic"
	"testing"
	"time"

	eio "github.com/karagenc/socket.io-go/engine.io"
	"github.com/karagenc/socket.io-go/engine.io/parser"
	"nhooyr.io/websocket"
	"pgregory.net/rapid"

	"verif/harness/memnet"
)

// The same check decides C02's clause "events of one emitter arrive in order, frames of a packet contiguous" for the one situation C02's own
// rigs do not produce - a transport upgrade with a backlog on the polling transport. Run with VERIF_AS=C02 it reports under that property.
var c07pProp, c07pCheck = func() (string, string) {
	switch envStr("VERIF_AS", "") {
	case "C02":
		return "C02", "c02-order-across-upgrade"
	case "C19": // "a packet handed to the send path is transmitted": the backlog of the polling transport, the heartbeat PING included
		return "C19", "c19-backlog-across-upgrade"
	}
	return "C07", "c07-paused-poll"
}()

type c07pCase struct {
	PauseMs   int  `json:"pause_ms"`   // time without a poll request before the WebSocket is dialed (> 1000: the heartbeat PING is part of the backlog)
	GapUs     int  `json:"gap_us"`     // the server sends a pair of messages (one Send call) every GapUs
	Pairs     int  `json:"pairs"`      // number of pairs
	Senders   int  `json:"senders"`    // server goroutines, each with its own sequence
	FirstPoll bool `json:"first_poll"` // one poll request is made and answered before the pause
	// forced schedule: one more sender puts 50 pairs into the backlog, waits for the yield point right before the server swaps the transports,
	// and sends 200 more pairs back to back from there, i.e. while the swap and the hand-over of the backlog are going on
	SwapSender bool `json:"swap_sender"`
}

func evalC07p(c c07pCase) (f *Failure, nontrivial bool) {
	class := "backlog"
	if c.PauseMs > 1000 {
		class = "backlog+ping"
	}
	fail := func(clause, detail string) *Failure {
		return &Failure{Property: c07pProp, Check: c07pCheck, Clause: clause, Class: class, Detail: detail, Case: c}
	}
	journal(c07pCheck, class, c)
	var res *Failure
	var swapGo chan struct{}
	var swapOnce sync.Once
	var swapSending atomic.Bool
	body := func() {
		swapGo = make(chan struct{}) // (made inside the bubble: the sender that waits on it lives there)
		var mu sync.Mutex
		net := memnet.New()
		var srv eio.ServerSocket
		var closes []string
		server := eio.NewServer(func(s eio.ServerSocket) *eio.Callbacks {
			mu.Lock()
			srv = s
			mu.Unlock()
			return &eio.Callbacks{OnClose: func(r eio.Reason, err error) {
				mu.Lock()
				closes = append(closes, fmt.Sprintf("%s:%v", r, err))
				mu.Unlock()
			}}
		}, &eio.ServerConfig{PingInterval: time.Second, PingTimeout: time.Second, UpgradeTimeout: 5 * time.Second})
		_ = server.Run()
		hs := &http.Server{Handler: server}
		go hs.Serve(net)
		tr := &http.Transport{DialContext: net.Dial, MaxIdleConnsPerHost: 8}
		hc := &http.Client{Transport: tr}
		var conn *websocket.Conn
		defer func() {
			if conn != nil {
				conn.CloseNow()
			}
			server.Close()
			hs.Close()
			net.Close()
			net.CutAll()
			tr.CloseIdleConnections()
			if !realClock {
				time.Sleep(10 * time.Minute)
				net.CutAll()
				time.Sleep(time.Minute)
			}
		}()
		resp, err := hc.Get("http://x/engine.io/?EIO=4&transport=polling")
		if err != nil {
			res = fail("rig-connect", "handshake: "+err.Error())
			return
		}
		b, _ := io.ReadAll(resp.Body)
		resp.Body.Close()
		var open struct {
			Sid string `json:"sid"`
		}
		if len(b) < 2 || json.Unmarshal(b[1:], &open) != nil || open.Sid == "" {
			res = fail("rig-connect", fmt.Sprintf("handshake body %q", trunc(b, 120)))
			return
		}
		mu.Lock()
		s := srv
		mu.Unlock()
		if s == nil {
			res = fail("rig-connect", "no server socket")
			return
		}
		var received []string // messages in arrival order (both transports)
		pollOnce := func() {
			resp, err := hc.Get("http://x/engine.io/?EIO=4&transport=polling&sid=" + open.Sid)
			if err != nil {
				return
			}
			b, _ := io.ReadAll(resp.Body)
			resp.Body.Close()
			for _, p := range strings.Split(string(b), "\x1e") {
				if strings.HasPrefix(p, "4") {
					mu.Lock()
					received = append(received, p[1:])
					mu.Unlock()
				}
			}
		}
		// the server sends for the whole time
		var wg sync.WaitGroup
		for g := 0; g < c.Senders; g++ {
			wg.Add(1)
			go func() {
				defer wg.Done()
				for i := 0; i < c.Pairs; i++ {
					h, _ := parser.NewPacket(parser.PacketTypeMessage, false, []byte(fmt.Sprintf("h-%d-%d", g, i)))
					a, _ := parser.NewPacket(parser.PacketTypeMessage, false, []byte(fmt.Sprintf("a-%d-%d", g, i)))
					s.Send(h, a)
					time.Sleep(time.Duration(c.GapUs) * time.Microsecond)
				}
			}()
		}
		if c.SwapSender {
			wg.Add(1)
			go func() {
				defer wg.Done()
				g := c.Senders
				send := func(i int) {
					h, _ := parser.NewPacket(parser.PacketTypeMessage, false, []byte(fmt.Sprintf("h-%d-%d", g, i)))
					a, _ := parser.NewPacket(parser.PacketTypeMessage, false, []byte(fmt.Sprintf("a-%d-%d", g, i)))
					s.Send(h, a)
				}
				for i := 0; i < 50; i++ {
					send(i)
				}
				<-swapGo
				swapSending.Store(true)
				for i := 50; i < 250; i++ {
					send(i)
					runtime.Gosched()
				}
			}()
		}
		if c.FirstPoll {
			time.Sleep(time.Millisecond)
			pollOnce()
		}
		time.Sleep(time.Duration(c.PauseMs) * time.Millisecond) // polling is paused
		ctx := context.Background()
		conn, _, err = websocket.Dial(ctx, "ws://x/engine.io/?EIO=4&transport=websocket&sid="+open.Sid, &websocket.DialOptions{HTTPClient: hc})
		if err != nil {
			res = fail("rig-connect", "websocket dial: "+err.Error())
			return
		}
		conn.SetReadLimit(-1)
		_ = conn.Write(ctx, websocket.MessageText, []byte("2probe"))
		_, pong, err := conn.Read(ctx)
		if err != nil || string(pong) != "3probe" {
			res = fail("rig-connect", fmt.Sprintf("probe answered %q %v", trunc(pong, 40), err))
			return
		}
		_ = conn.Write(ctx, websocket.MessageText, []byte("5"))
		upgradedAt := time.Now()
		pings := 0
		var firstPing time.Duration = -1
		readerDone := make(chan struct{})
		go func() {
			defer close(readerDone)
			for {
				_, msg, err := conn.Read(ctx)
				if err != nil {
					return
				}
				switch {
				case len(msg) > 0 && msg[0] == '2':
					mu.Lock()
					pings++
					if firstPing < 0 {
						firstPing = time.Since(upgradedAt)
					}
					mu.Unlock()
					_ = conn.Write(ctx, websocket.MessageText, []byte("3"))
				case len(msg) > 0 && msg[0] == '4':
					mu.Lock()
					received = append(received, string(msg[1:]))
					mu.Unlock()
				}
			}
		}()
		wg.Wait()
		settle(6 * time.Second) // several heartbeat periods
		mu.Lock()
		defer mu.Unlock()
		if len(closes) > 0 {
			res = fail("stays-open", fmt.Sprintf("the server closed the session although the client answers every PING it receives: %v (PINGs received on the WebSocket: %d, first after %v; polling was paused for %d ms before the upgrade)", closes, pings, firstPing, c.PauseMs))
			return
		}
		// exactly once and per sender in order: h-g-0 a-g-0 h-g-1 a-g-1 ... (with ONE sender that is the whole stream, so the two packets of a Send
		// call are adjacent; concurrent Send calls of several goroutines may interleave packet by packet - the API does not promise otherwise)
		senders, pairs := c.Senders, make([]int, c.Senders, c.Senders+1)
		for g := range pairs {
			pairs[g] = c.Pairs
		}
		if c.SwapSender {
			senders, pairs = senders+1, append(pairs, 250)
		}
		next := make([]int, senders) // per sender: 2*k for h-g-k, 2*k+1 for a-g-k
		for i, m := range received {
			parts := strings.Split(m, "-")
			if len(parts) != 3 || (parts[0] != "h" && parts[0] != "a") {
				res = fail("order-across-the-swap", fmt.Sprintf("unexpected message %q at position %d", m, i))
				return
			}
			g, _ := strconv.Atoi(parts[1])
			k, _ := strconv.Atoi(parts[2])
			pos := 2 * k
			if parts[0] == "a" {
				pos++
			}
			if g < 0 || g >= senders {
				res = fail("order-across-the-swap", fmt.Sprintf("message %q of an unknown sender", m))
				return
			}
			if pos != next[g] {
				clause := "order-across-the-swap"
				if pos < next[g] {
					clause = "exactly-once"
				}
				res = fail(clause, fmt.Sprintf("sender %d: %q arrived at position %d of %d where its packet number %d was due (around it: %v)", g, m, i, len(received), next[g], received[max(0, i-3):min(len(received), i+4)]))
				return
			}
			next[g]++
		}
		for g := range next {
			next[g] /= 2
		}
		for g := range next {
			if next[g] != pairs[g] {
				res = fail("nothing-lost", fmt.Sprintf("sender %d: %d of %d Send calls arrived", g, next[g], pairs[g]))
				return
			}
		}
		if pings < 3 {
			res = fail("stays-open", fmt.Sprintf("only %d PINGs arrived in 6 s with pingInterval 1 s", pings))
		}
	}
	var msg string
	withHooks(hookSet{point: func(site string) {
		if site == "eio.serverSocket.upgradeTo:before-swap" && c.SwapSender {
			swapOnce.Do(func() {
				close(swapGo)
				for i := 0; i < 20000 && !swapSending.Load(); i++ {
					runtime.Gosched()
				}
			})
		}
	}}, func() { msg = inBubble(curT, body) })
	if res == nil && msg != "" && !isBubbleDeadlock(msg) {
		res = fail("bubble-panic", "synctest: "+msg)
	}
	return res, c.PauseMs > 1000 || c.Pairs*c.Senders > 200
}

func TestC07_PausedPoll(t *testing.T) {
	setT(t)
	defer startWatchdog(t, 90*time.Second)()
	ev := NewEv(t, c07pProp, c07pCheck, "rapid on the virtual-time network: a hand-written Engine.IO client opens over long-polling, optionally polls once, then stops polling for 0..1900 ms while 1..3 server goroutines "+
		"keep sending pairs of messages (one Send call each, every 20..5000 us, 10..3000 pairs) - so a backlog and, beyond 1 s, the heartbeat PING (pingInterval = pingTimeout = 1 s) wait in the poll queue - and then "+
		"upgrades to WebSocket by hand (probe, answer, UPGRADE) and answers every PING; oracle: the server never closes the session, >= 3 PINGs arrive in 6 s, every message arrives exactly once, per sender in "+
		"order across the swap (with one sender that keeps the two packets of a Send call adjacent); non-trivial = the PING was in the backlog, or > 200 Send calls")
	rapidGuard(t, c07pProp, c07pCheck)
	runRapid(t, c07pCheck, tierN(3000, 40000), func(t *rapid.T) {
		c := c07pCase{PauseMs: rapid.SampledFrom([]int{0, 5, 300, 1100, 1500, 1900}).Draw(t, "pause"), GapUs: rapid.SampledFrom([]int{20, 200, 5000}).Draw(t, "gap"),
			Senders: rapid.IntRange(1, 3).Draw(t, "senders"), FirstPoll: rapid.Bool().Draw(t, "firstPoll"), SwapSender: rapid.Bool().Draw(t, "swapSender")}
		c.Pairs = rapid.SampledFrom([]int{10, 100, 1000, 3000}).Draw(t, "pairs")
		f, nt := evalC07p(c)
		ev.Case(c, nt, fmt.Sprintf("pause=%d", c.PauseMs))
		if nt {
			ev.Sample(fmt.Sprintf("pause=%d", c.PauseMs), c)
		}
		if f != nil {
			FailRapid(t, *f)
		}
	})
}

func init() {
	registerReplay(c07pCheck, func(raw json.RawMessage) *Failure {
		f, _ := evalC07p(decodeCase[c07pCase](raw))
		return f
	})
}
