//go:build verif

package harness

import (
	"encoding/json"
	"errors"
	"fmt"
	"sort"
	"sync"
	"testing"
	"time"

	sio "github.com/karagenc/socket.io-go"
	"pgregory.net/rapid"
)

// c03-ack-chains: two situations the main check does not reach.
//
// (a) Chains: an ack callback that itself emits an event with an ack (depth 1..3), in both directions, with and without a timeout. Every
//     callback of the chain runs exactly once with the reply of its own request, and every Emit returns.
// (b) Ack functions that outlive their connection: the peer's handler keeps the ack function, the connection is lost, the client reconnects
//     (the client socket survives, the server side is a new socket), new requests are outstanding, and only then the kept functions are called.
//     A reply produced by a kept function may be dropped or may reach the request it answers; it must never reach the callback of a different
//     request ("carries the right reply"), and every callback still runs at most once / exactly once with a timeout.
//
// Every request carries a token and every reply is the token of the request it answers, so a callback that sees a foreign token is wrong
// whatever the schedule was.

const c03cCheck = "c03-ack-chains"

type c03cEmit struct {
	Dir       string `json:"dir"`        // c2s | s2c
	TimeoutMs int    `json:"timeout_ms"` // 0 = no timeout
	Reply     string `json:"reply"`      // now | keep (the handler keeps the ack function; it is called in the release phase) | late (1 s later)
	Chain     int    `json:"chain"`      // the callback emits a follow-up request with an ack, to this depth (0 = none)
}

type c03cCase struct {
	Transport string     `json:"transport"`
	Before    []c03cEmit `json:"before"` // requests made on the first connection
	Outage    bool       `json:"outage"` // the connection is lost after them and the client reconnects
	After     []c03cEmit `json:"after"`  // requests made after the reconnection (or simply later)
}

func evalC03c(c c03cCase) (f *Failure, nontrivial bool) {
	class := c.Transport
	if c.Outage {
		class += ",reconnected"
	}
	fail := func(clause, detail string) *Failure {
		return &Failure{Property: "C03", Check: c03cCheck, Clause: clause, Class: class, Detail: detail, Case: c}
	}
	journal(c03cCheck, class, c)
	type call struct {
		err  error
		back int
	}
	var res *Failure
	msg := runRig(rigOpts{}, func(r *rig) {
		var mu sync.Mutex
		plan := map[int]c03cEmit{} // token -> what its handler does
		calls := map[int][]call{}  // token -> invocations of its callback
		returned := map[int]bool{} // token -> the Emit call returned
		var kept []func()          // ack functions kept by handlers, bound to their reply
		var srvSocks []sio.ServerSocket
		var cli sio.ClientSocket
		// the handler of a request, either side
		handle := func(tok int, ack func(int)) {
			mu.Lock()
			e := plan[tok]
			mu.Unlock()
			switch e.Reply {
			case "now":
				ack(tok)
			case "late":
				go func() { time.Sleep(time.Second); ack(tok) }()
			case "keep":
				mu.Lock()
				kept = append(kept, func() { ack(tok) })
				mu.Unlock()
			}
		}
		r.Server.Use(func(s sio.ServerSocket, _ *sio.Handshake) any {
			mu.Lock()
			srvSocks = append(srvSocks, s)
			mu.Unlock()
			s.OnEvent("q", handle)
			return nil
		})
		d, j := 100*time.Millisecond, float32(0)
		m := r.manager(c01Transports(c.Transport), func(cfg *sio.ManagerConfig) {
			cfg.NoReconnection = false
			cfg.ReconnectionDelay = &d
			cfg.ReconnectionDelayMax = &d
			cfg.RandomizationFactor = &j
		})
		cli = m.Socket("/", nil)
		cli.OnEvent("q", handle)
		cli.Connect()
		settle(time.Second)
		if !cli.Connected() {
			res = fail("rig", "client did not connect")
			return
		}
		next := 0
		var emit func(e c03cEmit, depth int)
		emit = func(e c03cEmit, depth int) {
			mu.Lock()
			next++
			tok := next
			pe := e
			if depth > 0 {
				pe.Reply = "now" // follow-ups are answered at once
			}
			plan[tok] = pe
			var em sio.Socket = cli
			if e.Dir == "s2c" {
				em = srvSocks[len(srvSocks)-1]
			}
			mu.Unlock()
			record := func(err error, back int) {
				mu.Lock()
				calls[tok] = append(calls[tok], call{err, back})
				mu.Unlock()
				if depth < e.Chain {
					emit(e, depth+1) // from inside the callback
				}
			}
			if e.TimeoutMs > 0 {
				em.Timeout(time.Duration(e.TimeoutMs)*time.Millisecond).Emit("q", tok, record)
			} else {
				em.Emit("q", tok, func(back int) { record(nil, back) })
			}
			mu.Lock()
			returned[tok] = true
			mu.Unlock()
		}
		fire := func(es []c03cEmit) {
			for _, e := range es {
				go emit(e, 0) // on its own goroutine: an Emit that never returns is reported below instead of wedging the harness
			}
		}
		fire(c.Before)
		settle(500 * time.Millisecond)
		if c.Outage {
			// dials are refused for a moment, so that a long-polling session ends too (a mere cut is survived by such a session, with the
			// losses recorded as KF-C01-2, which are not this check's subject)
			r.Net.SetRefuse(true)
			r.Net.CutAll()
			settle(500 * time.Millisecond)
			r.Net.SetRefuse(false)
			settle(2 * time.Second)
			if !cli.Connected() {
				res = fail("rig", "client did not reconnect")
				return
			}
		}
		fire(c.After)
		settle(300 * time.Millisecond)
		// release phase: the kept ack functions are called now, those of the first connection included
		mu.Lock()
		ks := append([]func(){}, kept...)
		mu.Unlock()
		for _, k := range ks {
			go k()
		}
		settle(8 * time.Second) // beyond every timeout and the late replies
		mu.Lock()
		defer mu.Unlock()
		toks := make([]int, 0, len(plan))
		for tok := range plan {
			toks = append(toks, tok)
		}
		sort.Ints(toks)
		for _, tok := range toks {
			e := plan[tok]
			desc := fmt.Sprintf("request %d (%s, timeout %d ms, handler replies %q)", tok, e.Dir, e.TimeoutMs, e.Reply)
			if !returned[tok] {
				res = fail("emit-returns", desc+": the Emit call has not returned 9 s later")
				return
			}
			cs := calls[tok]
			if len(cs) > 1 {
				res = fail("at-most-once", fmt.Sprintf("%s: its callback ran %d times: %v", desc, len(cs), cs))
				return
			}
			for _, cl := range cs {
				if cl.err == nil && cl.back != tok {
					res = fail("right-reply", fmt.Sprintf("%s: its callback got %d, the reply to request %d (requests and what their handlers do: %v)", desc, cl.back, cl.back, plan))
					return
				}
				if cl.err != nil && !errors.Is(cl.err, sio.ErrAckTimeout) {
					res = fail("right-reply", fmt.Sprintf("%s: its callback got the error %v", desc, cl.err))
					return
				}
			}
			if e.TimeoutMs > 0 && len(cs) != 1 {
				res = fail("exactly-once-with-timeout", fmt.Sprintf("%s: its callback ran %d times", desc, len(cs)))
				return
			}
			// a reply given at once on a connection that stays up must arrive (the timeouts used are far longer than the round trip)
			if e.Reply == "now" && len(cs) == 1 && cs[0].err != nil {
				res = fail("reply-delivered", fmt.Sprintf("%s: answered at once, its callback got %v", desc, cs[0].err))
				return
			}
			if e.Reply == "now" && len(cs) == 0 {
				res = fail("reply-delivered", fmt.Sprintf("%s: answered at once, its callback never ran", desc))
				return
			}
		}
	})
	if res == nil && msg != "" && !isBubbleDeadlock(msg) {
		res = fail("bubble-panic", "synctest: "+msg)
	}
	keptBefore, chained := 0, false
	for _, e := range c.Before {
		if e.Reply == "keep" {
			keptBefore++
		}
	}
	for _, e := range append(append([]c03cEmit{}, c.Before...), c.After...) {
		chained = chained || e.Chain > 0
	}
	return res, chained || (c.Outage && keptBefore > 0 && len(c.After) > 0)
}

func genC03c(t *rapid.T) c03cCase {
	c := c03cCase{Transport: rapid.SampledFrom([]string{"polling", "websocket"}).Draw(t, "transport"), Outage: rapid.Bool().Draw(t, "outage")}
	gen := func(label string, replies []string, lo int) []c03cEmit {
		var out []c03cEmit
		for i, n := 0, rapid.IntRange(lo, 5).Draw(t, label); i < n; i++ {
			e := c03cEmit{Dir: rapid.SampledFrom([]string{"c2s", "s2c"}).Draw(t, "dir"), TimeoutMs: rapid.SampledFrom([]int{0, 3000, 5000}).Draw(t, "timeout"),
				Reply: rapid.SampledFrom(replies).Draw(t, "reply")}
			if e.Reply == "now" && rapid.IntRange(0, 2).Draw(t, "chained") == 0 {
				e.Chain = rapid.IntRange(1, 3).Draw(t, "chain")
			}
			out = append(out, e)
		}
		return out
	}
	c.Before = gen("before", []string{"now", "keep", "keep"}, 0)
	c.After = gen("after", []string{"now", "late", "late", "keep"}, 1)
	return c
}

func TestC03_AckChains(t *testing.T) {
	setT(t)
	defer startWatchdog(t, 60*time.Second)()
	ev := NewEv(t, "C03", c03cCheck, "rapid on the virtual-time rig (polling, websocket; reconnection on): 0..5 requests with acks on the first connection whose handlers answer at once or keep the ack function, "+
		"optionally the connection is lost and the client reconnects, 1..5 further requests answered at once / 1 s later / kept, then every kept ack function is called (those of the lost connection included); "+
		"callbacks of requests answered at once emit follow-up requests with acks to depth 1..3 from inside the callback; both directions, timeouts {none, 3 s, 5 s}; every reply is the token of its request; "+
		"oracle: every Emit returns, every callback runs at most once (exactly once with a timeout) and never sees the reply to another request, a reply given at once arrives; "+
		"non-trivial = a chain, or kept ack functions of a lost connection called while new requests are outstanding")
	rapidGuard(t, "C03", c03cCheck)
	runRapid(t, c03cCheck, tierN(3000, 50000), func(t *rapid.T) {
		c := genC03c(t)
		f, nt := evalC03c(c)
		cls := c.Transport
		if c.Outage {
			cls += ",reconnected"
		}
		ev.Case(c, nt, cls)
		if nt {
			ev.Sample(cls, c)
		}
		if f != nil {
			FailRapid(t, *f)
		}
	})
}

func init() {
	registerReplay(c03cCheck, func(raw json.RawMessage) *Failure {
		f, _ := evalC03c(decodeCase[c03cCase](raw))
		return f
	})
}
