"""Per-property run configuration for ./check: which tests, how many shard processes, budgets.

groups[].run      -test.run regex
groups[].shards   processes per tier (each gets VERIF_SHARD=i, VERIF_SHARDS=n and a derived rapid seed)
groups[].timeout  go test timeout per shard, seconds
groups[].fuzz     native fuzz targets (thorough tier only), fuzztime seconds each
groups[].variant  '' | 'race' | 'deadlock' (which build of the harness binary)
"""

CHECKS = {
    "C11": {
        "level": "exploration",
        "groups": [
            {"name": "c11", "run": "^TestC11_", "shards": {"quick": 8, "thorough": 16},
             "timeout": {"quick": 600, "thorough": 3000},
             "fuzz": ["FuzzC11WT", "FuzzC11Decode"], "fuzztime": 120,
             "checks": ["c11-single", "c11-payload", "c11-wt-frame", "c11-arbitrary-bytes", "c11-wt-alloc"]},
        ],
    },
    "C19": {
        "level": "exploration",
        "groups": [
            {"name": "c19", "run": "^TestC19_", "shards": {"quick": 8, "thorough": 16},
             "timeout": {"quick": 600, "thorough": 3000},
             "checks": ["c19-queue", "c19-e2e-latency", "c19-poll-requests"]},
            {"name": "c19up", "run": "^TestC07_PausedPoll$", "shards": {"quick": 8, "thorough": 16},
             "timeout": {"quick": 900, "thorough": 3000}, "env": {"VERIF_AS": "C19"},
             "checks": ["c19-backlog-across-upgrade"]},
        ],
    },
    "C09": {
        "level": "exploration",
        "groups": [
            {"name": "c09", "run": "^TestC09_", "shards": {"quick": 8, "thorough": 16},
             "timeout": {"quick": 600, "thorough": 3000},
             "fuzz": ["FuzzC09"], "fuzztime": 180,
             "checks": ["c09-roundtrip", "c09-stream"]},
        ],
    },
    "C10": {
        "level": "exploration",
        "groups": [
            {"name": "c10", "run": "^TestC10_", "shards": {"quick": 8, "thorough": 16},
             "timeout": {"quick": 600, "thorough": 3000},
             "fuzz": ["FuzzC10"], "fuzztime": 180,
             "checks": ["c10-parser", "c10-process"]},
        ],
    },
    "C13": {
        "level": "exploration",
        "groups": [
            {"name": "c13", "run": "^TestC13_", "shards": {"quick": 8, "thorough": 16},
             "timeout": {"quick": 600, "thorough": 3000},
             "checks": ["c13-batcher", "c13-limits", "c13-webtransport"]},
        ],
    },
    "C15": {
        "level": "exploration",
        "termination_clauses": {"c15-retry-queue": ["emit-returns"]},
        "groups": [
            {"name": "c15", "run": "^TestC15_", "shards": {"quick": 8, "thorough": 16},
             "timeout": {"quick": 600, "thorough": 3000},
             "checks": ["c15-backoff", "c15-reconnect", "c15-stream-order", "c15-close-stops", "c15-retry-queue"]},
            {"name": "c15rc", "run": "^TestC15RC_", "shards": {"quick": 8, "thorough": 16},
             "timeout": {"quick": 600, "thorough": 3000},
             "checks": ["c15-restart-while-down"]},
        ],
    },
    "C16": {
        "level": "exploration",
        "termination_clauses": {"c16-retry-queue-reentrancy": ["emit-returns"]},
        "groups": [
            {"name": "c16", "run": "^TestC16_", "variant": "race", "shards": {"quick": 12, "thorough": 24},
             "timeout": {"quick": 900, "thorough": 5400},
             "checks": ["c16-programs"]},
            # the scenario rigs of other properties under the race detector: their own oracles are ignored here, race reports count
            {"name": "c16rig", "run": "^(TestC01_|TestC03_Acks|TestC05_Isolation|TestC06_Lifecycle|TestC07_|TestC08_RecoveryE2E|TestC12_|TestC14_|TestC15_Reconnect|TestC10_Process|TestC13_Limits|TestC19_E2E)",
             "variant": "race", "shards": {"quick": 4, "thorough": 16}, "timeout": {"quick": 900, "thorough": 5400},
             "env": {"VERIF_RIGRACE": "1", "VERIF_TIER": "quick"}, "only_property_failures": True, "tiers": ["thorough"],
             "checks": ["c16-rig-race"]},
            {"name": "c16up", "run": "^TestC07_Upgrade$", "shards": {"quick": 8, "thorough": 16},
             "timeout": {"quick": 900, "thorough": 3000}, "env": {"VERIF_AS": "C16"},
             "checks": ["c16-send-during-upgrade"]},
            {"name": "c16rq", "run": "^TestC15_RetryQueue$", "shards": {"quick": 8, "thorough": 16},
             "timeout": {"quick": 900, "thorough": 3000}, "env": {"VERIF_AS": "C16"},
             "checks": ["c16-retry-queue-reentrancy"]},
        ],
    },
    "C17": {
        "level": "exploration",
        "groups": [
            {"name": "c17", "run": "^TestC17_", "shards": {"quick": 8, "thorough": 16},
             "timeout": {"quick": 600, "thorough": 3000},
             "checks": ["c17-matrix", "c17-ids", "c17-close", "c17-id-entropy-fault"]},
        ],
    },
    "C18": {
        "level": "exploration",
        "groups": [
            {"name": "c18", "run": "^TestC18_", "shards": {"quick": 8, "thorough": 16},
             "timeout": {"quick": 900, "thorough": 3000},
             "checks": ["c18-model", "c18-once-burst", "c18-off-concurrent", "c18-off-inside-handler"]},
        ],
    },
    "C04": {
        "level": "exploration",
        "groups": [
            {"name": "c04", "run": "^TestC04_", "shards": {"quick": 8, "thorough": 16},
             "timeout": {"quick": 900, "thorough": 3000},
             "checks": ["c04-adapter-enum", "c04-adapter-history", "c04-concurrent"]},
        ],
    },
    "C08": {
        "level": "exploration",
        "groups": [
            {"name": "c08", "run": "^TestC08_", "shards": {"quick": 8, "thorough": 16},
             "timeout": {"quick": 900, "thorough": 3000},
             "checks": ["c08-adapter-history", "c08-recovery-e2e", "c08-go-client"]},
        ],
    },
    "C01": {
        "level": "exploration",
        "groups": [
            {"name": "c01", "run": "^TestC01_", "shards": {"quick": 16, "thorough": 16},
             "timeout": {"quick": 900, "thorough": 3000},
             "checks": ["c01-delivery", "c01-lossy-link", "c01-busy-manager"]},
        ],
    },
    "C02": {
        "level": "exploration",
        "groups": [
            {"name": "c02", "run": "^TestC02_", "shards": {"quick": 16, "thorough": 16},
             "timeout": {"quick": 900, "thorough": 3000},
             "checks": ["c02-wire-order", "c02-handler-order"]},
            {"name": "c02up", "run": "^TestC07_PausedPoll$", "shards": {"quick": 8, "thorough": 16},
             "timeout": {"quick": 900, "thorough": 3000}, "env": {"VERIF_AS": "C02"},
             "checks": ["c02-order-across-upgrade"]},
        ],
    },
    "C03": {
        "level": "exploration",
        "stall_violation": True,
        "termination_clauses": {"c03-ack-chains": ["emit-returns"]},
        "groups": [
            {"name": "c03", "run": "^TestC03_", "shards": {"quick": 16, "thorough": 16},
             "timeout": {"quick": 900, "thorough": 3000},
             "checks": ["c03-acks", "c03-raw-peer", "c03-at-connect", "c03-ack-chains"]},
        ],
    },
    "C12": {
        "level": "exploration",
        "groups": [
            {"name": "c12", "run": "^TestC12_", "shards": {"quick": 16, "thorough": 16},
             "timeout": {"quick": 900, "thorough": 3000},
             "checks": ["c12-namespace-chain", "c12-event-chain"]},
        ],
    },
    "C05": {
        "level": "exploration",
        "groups": [
            {"name": "c05", "run": "^TestC05_", "shards": {"quick": 16, "thorough": 16},
             "timeout": {"quick": 900, "thorough": 3000},
             "checks": ["c05-isolation", "c05-raw-peer"]},
        ],
    },
    "C07": {
        "level": "exploration",
        "groups": [
            {"name": "c07", "run": "^TestC07_", "shards": {"quick": 16, "thorough": 16},
             "timeout": {"quick": 900, "thorough": 3000},
             "checks": ["c07-upgrade", "c07-paused-poll"]},
        ],
    },
    "C14": {
        "level": "exploration",
        "groups": [
            {"name": "c14", "run": "^TestC14_", "shards": {"quick": 16, "thorough": 16},
             "timeout": {"quick": 900, "thorough": 3000},
             "checks": ["c14-heartbeat"]},
        ],
    },
    "C06": {
        "level": "fault_enumeration",
        "groups": [
            {"name": "c06", "run": "^TestC06_", "shards": {"quick": 16, "thorough": 16},
             "timeout": {"quick": 900, "thorough": 3000},
             "checks": ["c06-lifecycle", "c06-cut-enumeration"]},
            {"name": "c06eio", "run": "^TestC17_CloseRace$", "shards": {"quick": 8, "thorough": 16},
             "timeout": {"quick": 900, "thorough": 3000}, "env": {"VERIF_AS": "C06"},
             "checks": ["c06-engine-close-race"]},
        ],
    },
}
