#!/usr/bin/env python3
"""Runs the pinned baseline suite (guard off) in a repository tree and compares with /root/.vp/BASELINE.json.
usage: tools/baseline.py [repo_dir]   -> exit 0 iff every stable_pass test passed.

Several tests of the root package are timing-dependent even on the pristine tree (they flake under load, and one flake can
panic the whole package run), so: the suite is run up to 3 times and a test counts as passing if it passed in any run; leaf
tests still missing are re-run alone (up to 6 times); a parent test counts as passing when all of its listed subtests do."""
import json, subprocess, sys, os, re
repo = sys.argv[1] if len(sys.argv) > 1 else "/repo"
base = json.load(open("/root/.vp/BASELINE.json"))
want = set(base["stable_pass"])
env = dict(os.environ, GOFLAGS="-mod=mod", GOPROXY="off", GOSUMDB="off")
passed = set()


def run(args):
    p = subprocess.run(["go", "test", "-mod=mod", "-json", "-vet=off", "-count=1", "-timeout", "25m"] + args, cwd=repo, env=env, capture_output=True, text=True)
    for line in p.stdout.splitlines():
        try:
            e = json.loads(line)
        except Exception:
            continue
        if e.get("Test") and e.get("Action") == "pass":
            passed.add(e["Package"] + "::" + e["Test"])


leaves = set(t for t in want if not any(o.startswith(t + "/") for o in want))
for attempt in range(3):
    missing = leaves - passed
    if not missing:
        break
    pkgs = sorted(set(t.split("::")[0] for t in missing))
    run(pkgs if attempt else ["./..."])
missing = sorted(leaves - passed)
for t in missing:
    pkg, name = t.split("::", 1)
    rx = "/".join("^" + re.escape(part) + "$" for part in name.split("/"))
    for _ in range(6):
        run(["-run", rx, pkg])
        if t in passed:
            break
    print("  re-run alone:", t, "PASS" if t in passed else "FAIL")
bad = sorted(leaves - passed)
print("stable_pass expected %d (%d leaf tests), leaf tests not passing %d" % (len(want), len(leaves), len(bad)))
for t in bad[:30]:
    print("  NOT PASSING:", t)
subprocess.run(["git", "-C", repo, "checkout", "--", "go.sum", "go.mod"], capture_output=True)
sys.exit(1 if bad else 0)
