#!/usr/bin/env python3
"""Runs the pinned baseline suite (guard off) in a repository tree and compares with /root/.vp/BASELINE.json.
usage: tools/baseline.py [repo_dir]   -> exit 0 iff every stable_pass test passed."""
import json, subprocess, sys, os
repo = sys.argv[1] if len(sys.argv) > 1 else "/repo"
base = json.load(open("/root/.vp/BASELINE.json"))
want = set(base["stable_pass"])
env = dict(os.environ, GOFLAGS="-mod=mod", GOPROXY="off", GOSUMDB="off")
p = subprocess.run(["go", "test", "-mod=mod", "-json", "-vet=off", "-count=1", "-timeout", "25m", "./..."], cwd=repo, env=env,
                   capture_output=True, text=True)
res = {}
for line in p.stdout.splitlines():
    try:
        e = json.loads(line)
    except Exception:
        continue
    if e.get("Test") and e.get("Action") in ("pass", "fail", "skip"):
        res[e["Package"] + "::" + e["Test"]] = e["Action"]
bad = sorted(t for t in want if res.get(t) != "pass")
# Some "stable" tests are timing-dependent even on the pristine tree: re-run each failing one alone, up to 6 times.
import re
still = []
for t in bad:
    pkg, name = t.split("::", 1)
    rx = "/".join("^" + re.escape(part) + "$" for part in name.split("/"))
    ok = False
    for _ in range(6):
        q = subprocess.run(["go", "test", "-mod=mod", "-vet=off", "-count=1", "-v", "-run", rx, pkg], cwd=repo, env=env, capture_output=True, text=True)
        if q.returncode == 0 and ("--- PASS: " + name) in q.stdout:
            ok = True
            break
    print("  re-run alone:", t, "PASS" if ok else "FAIL")
    if not ok:
        still.append(t)
first_bad, bad = bad, still
print("stable_pass expected %d, passed %d, not passing %d" % (len(want), len(want) - len(bad), len(bad)))
for t in bad[:30]:
    print("  NOT PASSING:", t, res.get(t))
subprocess.run(["git", "-C", repo, "checkout", "--", "go.sum", "go.mod"], capture_output=True)
sys.exit(1 if bad else 0)
