#!/usr/bin/env python3
"""Apply every confirmed seeded change under /verif/seeded/ to /repo's working tree (never committed), run the quick check of
its property, restore the tree, and record what caught it.  usage: tools/seed_sweep.py [--tier quick] [name ...]
Writes /verif/seeded/RESULTS.md. /repo must be clean; nothing else may be running checks meanwhile."""
import json, os, re, subprocess, sys, time

tier = "quick"
names = []
args = sys.argv[1:]
while args:
    a = args.pop(0)
    if a == "--tier":
        tier = args.pop(0)
    else:
        names.append(a)
root = "/verif/seeded"
if not names:
    names = sorted(d for d in os.listdir(root) if os.path.isfile(os.path.join(root, d, "patch.diff")))
if subprocess.run(["git", "-C", "/repo", "status", "--porcelain"], capture_output=True, text=True).stdout.strip():
    sys.exit("/repo is not clean")
rows = []
for n in names:
    prop = json.load(open(os.path.join(root, n, "meta.json")))["property"]
    patch = os.path.join(root, n, "patch.diff")
    r = subprocess.run(["git", "-C", "/repo", "apply", patch], capture_output=True, text=True)
    if r.returncode != 0:
        rows.append((n, prop, "PATCH DOES NOT APPLY", "", 0))
        subprocess.run(["git", "-C", "/repo", "checkout", "--", "."])
        continue
    t0 = time.time()
    try:
        p = subprocess.run(["./check", prop, "--tier", tier], cwd="/verif", capture_output=True, text=True, timeout=3600)
        out = p.stdout + p.stderr
        rc = p.returncode
    finally:
        subprocess.run(["git", "-C", "/repo", "reset", "-q", "--hard"])
        subprocess.run(["git", "-C", "/repo", "checkout", "--", "."])
    sigs = sorted(set(re.findall(r"failed: ([^:]+?/[^:]+?)/", out)))
    verdict = "CAUGHT" if rc == 1 and "VIOLATION" in out else ("INCONCLUSIVE" if rc == 2 else "MISSED")
    rows.append((n, prop, verdict, ", ".join(sigs[:4]), time.time() - t0))
    print(n, verdict, ", ".join(sigs[:3]), "%.0fs" % (time.time() - t0), flush=True)
    subprocess.run("rm -rf /verif/replays/%s" % prop, shell=True)
with open(os.path.join(root, "RESULTS.md"), "w") as f:
    f.write("# Seeded changes against the %s tier (tools/seed_sweep.py, %s, /repo at %s)\n\n" % (
        tier, time.strftime("%Y-%m-%d %H:%M UTC", time.gmtime()),
        subprocess.run(["git", "-C", "/repo", "rev-parse", "--short", "HEAD"], capture_output=True, text=True).stdout.strip()))
    f.write("| seed | property | verdict | failing check/clause | seconds |\n|---|---|---|---|---|\n")
    for r in rows:
        f.write("| %s | %s | %s | %s | %.0f |\n" % r)
    f.write("\n%d of %d caught.\n" % (sum(1 for r in rows if r[2] == "CAUGHT"), len(rows)))
print("%d of %d caught" % (sum(1 for r in rows if r[2] == "CAUGHT"), len(rows)))
