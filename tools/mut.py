#!/usr/bin/env python3
"""Sensitivity helper: apply one textual mutation to /repo's working tree, run a check, revert.
usage: tools/mut.py <ID> <file> <old> <new> [--tier quick] [--build-only]
Prints CAUGHT / MISSED / INCONCLUSIVE. Never commits anything."""
import subprocess, sys, os
pid, path, old, new = sys.argv[1:5]
tier = "quick"
if "--tier" in sys.argv:
    tier = sys.argv[sys.argv.index("--tier") + 1]
full = os.path.join("/repo", path)
s = open(full).read()
if s.count(old) < 1:
    print("pattern not found"); sys.exit(3)
open(full, "w").write(s.replace(old, new, 1))
try:
    b = subprocess.run("cd /repo && go build ./... 2>&1 | tail -5", shell=True, capture_output=True, text=True)
    if b.stdout.strip():
        print("MUTANT DOES NOT BUILD:", b.stdout); sys.exit(3)
    p = subprocess.run(["/verif/check", pid, "--tier", tier], capture_output=True, text=True, cwd="/verif")
    out = p.stdout + p.stderr
    tail = "\n".join(l for l in out.splitlines() if l.startswith(("VIOLATION", "  failed", "INCONCLUSIVE", "KNOWN", pid)))[:1500]
    print({0: "MISSED", 1: "CAUGHT", 2: "INCONCLUSIVE"}.get(p.returncode, "rc=%d" % p.returncode))
    print(tail)
finally:
    subprocess.run(["git", "-C", "/repo", "checkout", "--", path])
    subprocess.run("rm -rf /verif/replays/%s" % pid, shell=True)
