#!/usr/bin/env python3
"""Confirm a seeded change in a scratch worktree and store it under /verif/seeded/<name>/.

usage: tools/confirm_seed.py <name> --prop C09 --src /tmp/seed/C09-1 [--patch patch.diff] --demo file_test.go:rel/dir [--demo ...]
                             --cmd "go test -vet=off -count=1 -run X ./parser/json/" --needs "what it needs to manifest" [--reps 1] [--skip-suite]

Steps (all in a scratch worktree of /repo HEAD under /tmp/cs/<name>, removed afterwards):
  1. apply the patch (git apply, falling back to -3), go build ./...
  2. demo WITH the change must FAIL (at least once in --reps runs)
  3. demo WITHOUT the change must PASS (every one of --reps runs)
  4. pinned suite WITH the change (tools/baseline.py): every stable test passes
Nothing is ever committed to /repo.
"""
import argparse, json, os, shutil, subprocess, sys, time

ap = argparse.ArgumentParser()
ap.add_argument("name")
ap.add_argument("--prop", required=True)
ap.add_argument("--src", required=True)
ap.add_argument("--patch", default="patch.diff")
ap.add_argument("--demo", action="append", default=[])
ap.add_argument("--cmd", required=True)
ap.add_argument("--needs", required=True)
ap.add_argument("--reps", type=int, default=1)
ap.add_argument("--skip-suite", action="store_true")
a = ap.parse_args()

env = dict(os.environ, GOFLAGS="-mod=mod", GOPROXY="off", GOSUMDB="off")
wt = "/tmp/cs/" + a.name
os.makedirs("/tmp/cs", exist_ok=True)
subprocess.run(["git", "-C", "/repo", "worktree", "remove", "--force", wt], capture_output=True)
shutil.rmtree(wt, ignore_errors=True)
subprocess.run(["git", "-C", "/repo", "worktree", "add", "-q", "--detach", wt, "HEAD"], check=True)
head = subprocess.run(["git", "-C", "/repo", "rev-parse", "--short", "HEAD"], capture_output=True, text=True).stdout.strip()
patch = os.path.join(a.src, a.patch)
meta = {"name": a.name, "property": a.prop, "needs": a.needs, "demo_cmd": a.cmd, "repo_head": head, "confirmed_at": time.strftime("%Y-%m-%dT%H:%M:%SZ", time.gmtime())}


def sh(cmd, **kw):
    return subprocess.run(cmd, shell=True, cwd=wt, env=env, capture_output=True, text=True, **kw)


def apply():
    r = sh("git apply %s" % patch)
    if r.returncode != 0:
        r = sh("git apply -3 %s" % patch)
    return r.returncode == 0 and not sh("git diff --name-only --diff-filter=U").stdout.strip()


def put_demos():
    for d in a.demo:
        f, rel = d.split(":")
        shutil.copy(os.path.join(a.src, f), os.path.join(wt, rel, os.path.basename(f)))


def rm_demos():
    for d in a.demo:
        f, rel = d.split(":")
        try:
            os.remove(os.path.join(wt, rel, os.path.basename(f)))
        except FileNotFoundError:
            pass


ok = True
try:
    if not apply():
        print("PATCH DOES NOT APPLY"); sys.exit(3)
    b = sh("go build ./... 2>&1 | tail -5")
    if b.stdout.strip():
        print("DOES NOT BUILD:\n" + b.stdout); sys.exit(3)
    final_patch = sh("git diff").stdout
    put_demos()
    fails = 0
    for i in range(a.reps):
        r = sh(a.cmd)
        if r.returncode != 0:
            fails += 1
    meta["demo_with_change"] = "failed %d/%d runs" % (fails, a.reps)
    print("demo WITH change:", meta["demo_with_change"])
    if fails == 0:
        ok = False
    rm_demos()
    sh("git checkout -- . ")
    put_demos()
    fails0 = 0
    out0 = ""
    for i in range(a.reps):
        r = sh(a.cmd)
        if r.returncode != 0:
            fails0 += 1
            out0 = (r.stdout + r.stderr)[-1500:]
    meta["demo_without_change"] = "failed %d/%d runs" % (fails0, a.reps)
    print("demo WITHOUT change:", meta["demo_without_change"])
    if fails0 != 0:
        ok = False
        print(out0)
    rm_demos()
    if not a.skip_suite:
        if not apply():
            print("re-apply failed"); sys.exit(3)
        r = subprocess.run(["/verif/tools/baseline.py", wt], capture_output=True, text=True)
        meta["suite_with_change"] = ([l for l in r.stdout.splitlines() if l.startswith("stable_pass")] or ["no output"])[0]
        meta["suite_ok"] = r.returncode == 0
        print("suite WITH change:", meta["suite_with_change"], "ok" if r.returncode == 0 else "NOT OK\n" + r.stdout[-2000:])
        if r.returncode != 0:
            ok = False
    meta["confirmed"] = ok
    dst = "/verif/seeded/" + a.name
    if ok:
        os.makedirs(dst, exist_ok=True)
        open(os.path.join(dst, "patch.diff"), "w").write(final_patch)
        for d in a.demo:
            f, rel = d.split(":")
            shutil.copy(os.path.join(a.src, f), os.path.join(dst, os.path.basename(f)))
            meta.setdefault("demo_files", []).append({"file": os.path.basename(f), "put_in": rel})
        for extra in ("NOTES.md",):
            if os.path.exists(os.path.join(a.src, extra)):
                shutil.copy(os.path.join(a.src, extra), os.path.join(dst, extra))
        meta["what_i_ran"] = ["git apply patch.diff (scratch worktree of /repo %s)" % head, "go build ./...", a.cmd + "  (with and without the change, %d runs each)" % a.reps,
                              "tools/baseline.py <worktree>  (pinned suite, guard off, with the change)"]
        json.dump(meta, open(os.path.join(dst, "meta.json"), "w"), indent=1)
        print("CONFIRMED ->", dst)
    else:
        print("NOT CONFIRMED", json.dumps(meta))
finally:
    subprocess.run(["git", "-C", "/repo", "worktree", "remove", "--force", wt], capture_output=True)
    shutil.rmtree(wt, ignore_errors=True)
sys.exit(0 if ok else 1)
